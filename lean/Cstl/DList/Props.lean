import Cstl.DList.Lemmas
import Cstl.DList.Run
/-
Property theorems for the doubly-linked list (C12; the dlist part of C15).
`IsDL m l xs`: following the `n` links from the head node visits exactly `xs`
and returns to the head node, following the `p` links visits `xs.reverse`,
no node occurs twice, `size = length`.
-/
namespace Cstl.DList
open Cstl.SList

/-- insert after position `pre` (after the head node when `pre = []`): both
directions represent `pre ++ n :: post` -/
theorem insert_spec {m : M2} {l : Hd} {pre post : List Nat} {p n : Nat}
    (h : IsDL m l (pre ++ post)) (hp : p = lastOr l.h pre)
    (hn : n ∉ l.h :: (pre ++ post)) (hnz : n ≠ 0) :
    IsDL (insert m l p n).1 (insert m l p n).2 (pre ++ n :: post)
    ∧ (∀ a, a ≠ p → a ≠ n → (insert m l p n).1.nx a = m.nx a)
    ∧ (∀ a, a ≠ headOr l.h post → a ≠ n → (insert m l p n).1.pv a = m.pv a) := by
  have hnx : m.nx p = headOr l.h post := hp ▸ Seg_at h.fwd
  have hbw : Seg m.pv l.h (post.reverse ++ pre.reverse) l.h := by simpa using h.bwd
  have hpv : m.pv (headOr l.h post) = p := by
    have := Seg_at hbw
    rw [lastOr_reverse, headOr_reverse] at this
    rw [this, hp]
  have hnp : n ≠ p := by
    intro e; apply hn; rw [e, hp]
    have := lastOr_mem l.h pre
    rcases List.mem_cons.mp this with h1 | h1
    · simp [h1]
    · simp [h1]
  have e1 : (insert m l p n).1.nx = upd (upd m.nx n (m.nx p)) p n := rfl
  have e2 : (insert m l p n).1.pv = upd (upd m.pv n p) (headOr l.h post) n := by
    show upd (upd m.pv n p) (upd m.nx n (m.nx p) n) n = _
    rw [upd_same, hnx]
  refine ⟨⟨?_, ?_, ?_, h.hnz, ?_⟩, ?_, ?_⟩
  · rw [e1, hp]; exact Seg_insert h.fwd h.nodup hn hnz
  · rw [e2]
    have hnd' : (l.h :: (post.reverse ++ pre.reverse)).Nodup := by
      have := nodup_reverse_cons h.nodup; simpa using this
    have hn' : n ∉ l.h :: (post.reverse ++ pre.reverse) := by
      intro hm; apply hn
      simp only [List.mem_cons, List.mem_append, List.mem_reverse] at hm ⊢
      grind
    have := Seg_insert hbw hnd' hn' hnz
    rw [lastOr_reverse, hpv] at this
    show Seg (upd (upd m.pv n p) (headOr l.h post) n) l.h (pre ++ n :: post).reverse l.h
    simpa using this
  · exact nodup_insert_mid h.nodup hn
  · show l.size + 1 = (pre ++ n :: post).length
    have := h.size; simp at this ⊢; omega
  · intro a h1 h2; rw [e1, upd_other _ _ _ _ h1, upd_other _ _ _ _ h2]
  · intro a h1 h2; rw [e2, upd_other _ _ _ _ h1, upd_other _ _ _ _ h2]

/-- unlink `n`: both directions represent the sequence without it; only the
links of its two neighbours are written (the node itself is not touched) -/
theorem erase_spec {m : M2} {l : Hd} {pre post : List Nat} {n : Nat}
    (h : IsDL m l (pre ++ n :: post)) :
    IsDL (erase m l n).1 (erase m l n).2 (pre ++ post)
    ∧ (∀ a, a ≠ lastOr l.h pre → (erase m l n).1.nx a = m.nx a)
    ∧ (∀ a, a ≠ headOr l.h post → (erase m l n).1.pv a = m.pv a) := by
  obtain ⟨l1, l2, _, _⟩ := h.links
  have hbw : Seg m.pv l.h (post.reverse ++ n :: pre.reverse) l.h := by simpa using h.bwd
  have hnd' : (l.h :: (post.reverse ++ n :: pre.reverse)).Nodup := by
    have := nodup_reverse_cons h.nodup; simpa using this
  have hne : headOr l.h post ≠ n := by
    have := h.nodup
    intro e
    have hm := headOr_mem l.h post
    rw [e] at hm
    have h2 := (nodup_remove_mid this).2
    apply h2
    rcases List.mem_cons.mp hm with h1 | h1
    · simp [h1]
    · simp [h1]
  have e2 : (erase m l n).1.pv = upd m.pv (headOr l.h post) (m.pv n) := by
    show upd m.pv (m.nx n) (m.pv n) = _
    rw [l1]
  have e1 : (erase m l n).1.nx = upd m.nx (lastOr l.h pre) (m.nx n) := by
    show upd m.nx (upd m.pv (m.nx n) (m.pv n) n) (m.nx n) = _
    rw [l1, upd_other _ _ _ _ (Ne.symm hne), l2]
  refine ⟨⟨?_, ?_, (nodup_remove_mid h.nodup).1, h.hnz, ?_⟩, ?_, ?_⟩
  · rw [e1]; exact Seg_erase h.fwd h.nodup
  · rw [e2]
    have := Seg_erase hbw hnd'
    rw [lastOr_reverse] at this
    show Seg (upd m.pv (headOr l.h post) (m.pv n)) l.h (pre ++ post).reverse l.h
    simpa using this
  · show l.size - 1 = (pre ++ post).length
    have := h.size; simp at this ⊢; omega
  · intro a h1; rw [e1, upd_other _ _ _ _ h1]
  · intro a h1; rw [e2, upd_other _ _ _ _ h1]

theorem pushFront_spec {m : M2} {l : Hd} {xs : List Nat} {e : Nat}
    (h : IsDL m l xs) (he : e ∉ l.h :: xs) (hnz : e ≠ 0) :
    IsDL (pushFront m l e).1 (pushFront m l e).2 (e :: xs)
    ∧ (∀ a, a ≠ l.h → a ≠ e → (pushFront m l e).1.nx a = m.nx a)
    ∧ (∀ a, a ≠ headOr l.h xs → a ≠ e → (pushFront m l e).1.pv a = m.pv a) :=
  insert_spec (pre := []) (post := xs) h rfl he hnz

theorem pushBack_spec {m : M2} {l : Hd} {xs : List Nat} {e : Nat}
    (h : IsDL m l xs) (he : e ∉ l.h :: xs) (hnz : e ≠ 0) :
    IsDL (pushBack m l e).1 (pushBack m l e).2 (xs ++ [e])
    ∧ (∀ a, a ≠ lastOr l.h xs → a ≠ e → (pushBack m l e).1.nx a = m.nx a)
    ∧ (∀ a, a ≠ l.h → a ≠ e → (pushBack m l e).1.pv a = m.pv a) := by
  have h' : IsDL m l (xs ++ []) := by simpa using h
  have := insert_spec (pre := xs) (post := []) (p := m.pv l.h) (n := e) h' h.head_links.2 (by simpa using he) hnz
  rw [h.head_links.2] at this
  simpa [pushBack, h.head_links.2] using this

theorem popFront_spec {m : M2} {l : Hd} {x : Nat} {xs : List Nat} (h : IsDL m l (x :: xs)) :
    popFront m l = ((erase m l x).1, (erase m l x).2, some x)
    ∧ IsDL (erase m l x).1 (erase m l x).2 xs := by
  have hs : l.size > 0 := by have := h.size; simp at this; omega
  have hx : m.nx l.h = x := h.fwd.1
  exact ⟨by simp [popFront, hs, hx], (erase_spec (pre := []) (post := xs) h).1⟩

theorem popBack_spec {m : M2} {l : Hd} {y : Nat} {ini : List Nat} (h : IsDL m l (ini ++ [y])) :
    popBack m l = ((erase m l y).1, (erase m l y).2, some y)
    ∧ IsDL (erase m l y).1 (erase m l y).2 ini := by
  have hs : l.size > 0 := by have := h.size; simp at this; omega
  have hy : m.pv l.h = y := by rw [h.head_links.2, lastOr_append_singleton]
  refine ⟨by simp [popBack, hs, hy], ?_⟩
  have := (erase_spec (pre := ini) (post := []) h).1
  simpa using this

/-- pops on an empty list return NULL and change nothing -/
theorem pop_empty {m : M2} {l : Hd} (h : IsDL m l []) :
    popFront m l = (m, l, none) ∧ popBack m l = (m, l, none) := by
  have hs : ¬ l.size > 0 := by have := h.size; simp at this; omega
  simp [popFront, popBack, hs]

theorem front_spec {m : M2} {l : Hd} {xs : List Nat} (h : IsDL m l xs) : front m l = xs.head? := by
  cases xs with
  | nil =>
    have hs : ¬ l.size > 0 := by have := h.size; simp at this; omega
    simp [front, hs]
  | cons x xs =>
    have hs : l.size > 0 := by have := h.size; simp at this; omega
    simp [front, hs, h.fwd.1]

theorem back_spec {m : M2} {l : Hd} {xs : List Nat} (h : IsDL m l xs) : back m l = xs.getLast? := by
  rw [lastOr_eq_getLast? l.h xs]
  by_cases hx : xs = []
  · subst hx
    have hs : ¬ l.size > 0 := by have := h.size; simp at this; omega
    simp [back, hs]
  · have hs : l.size > 0 := by
      have := h.size
      cases xs with
      | nil => exact absurd rfl hx
      | cons _ _ => simp at this; omega
    simp [back, hs, hx, h.head_links.2]

/-- `clear`: every element is unlinked and then handed to the callback exactly
once, in list order, whatever the callback does to it (`poison` arbitrary);
it is never read or written afterwards; the list ends empty. -/
theorem clearLoop_spec (poison : Nat → Nat) {m : M2} {l : Hd} {xs : List Nat} (fuel : Nat) (acc : List Nat)
    (h : IsDL m l xs) (hf : xs.length ≤ fuel) :
    let r := clearLoop poison fuel m l acc
    r.2.2 = acc.reverse ++ xs ∧ IsDL r.1 r.2.1 [] ∧ r.2.1.h = l.h
    ∧ (∀ e ∈ xs, r.1.nx e = poison e ∧ r.1.pv e = poison e)
    ∧ (∀ a, a ∉ l.h :: xs → r.1.nx a = m.nx a ∧ r.1.pv a = m.pv a) := by
  induction xs generalizing m l fuel acc with
  | nil =>
    have hs : ¬ l.size > 0 := by have := h.size; simp at this; omega
    cases fuel <;> simp [clearLoop, hs, h]
  | cons x xs ih =>
    have hs : l.size > 0 := by have := h.size; simp at this; omega
    cases fuel with
    | zero => simp at hf
    | succ f =>
      have hx : m.nx l.h = x := h.fwd.1
      obtain ⟨e1, e2, e3⟩ := erase_spec (pre := []) (post := xs) h
      have hnd := h.nodup
      have hxn : x ∉ l.h :: xs := by
        intro hm
        have := List.nodup_cons.mp hnd
        rcases List.mem_cons.mp hm with h1 | h1
        · exact this.1 (by simp [h1])
        · exact (List.nodup_cons.mp this.2).1 h1
      let m' : M2 := { nx := upd (erase m l x).1.nx x (poison x), pv := upd (erase m l x).1.pv x (poison x) }
      have hl' : (erase m l x).2.h = l.h := rfl
      have h' : IsDL m' (erase m l x).2 xs := by
        refine IsDL.transfer e1 ?_ ?_
        · intro a ha; exact upd_other _ _ _ _ (fun e => hxn (e ▸ ha))
        · intro a ha; exact upd_other _ _ _ _ (fun e => hxn (e ▸ ha))
      obtain ⟨i1, i2, i3, i4, i5⟩ := ih (m := m') (l := (erase m l x).2) f (x :: acc) h' (by simpa using hf)
      have hstep : clearLoop poison (f + 1) m l acc = clearLoop poison f m' (erase m l x).2 (x :: acc) := by
        rw [clearLoop, if_pos hs, hx]
      simp only [hstep]
      refine ⟨by simp [i1], i2, i3.trans hl', ?_, ?_⟩
      · intro e he
        rcases List.mem_cons.mp he with rfl | he
        · have := i5 e hxn
          rw [this.1, this.2]; simp [m']
        · exact i4 e he
      · intro a ha
        have ha' : a ∉ (erase m l x).2.h :: xs := fun hm => ha (by
          rcases List.mem_cons.mp hm with h1 | h1
          · simp [h1, hl']
          · simp [h1])
        have hax : a ≠ x := fun e => ha (by simp [e])
        have := i5 a ha'
        rw [this.1, this.2]
        refine ⟨?_, ?_⟩
        · show upd _ x _ a = _
          rw [upd_other _ _ _ _ hax]
          exact e2 a (fun e => ha (by simp [e]))
        · show upd _ x _ a = _
          rw [upd_other _ _ _ _ hax]
          refine e3 a (fun e => ha ?_)
          have := headOr_mem l.h xs
          rw [← e] at this
          rcases List.mem_cons.mp this with h1 | h1
          · simp [h1]
          · simp [h1]

theorem clear_spec {m : M2} {l : Hd} {xs : List Nat} (h : IsDL m l xs) (poison : Nat → Nat) :
    let r := clear m l poison
    r.2.2 = xs ∧ IsDL r.1 r.2.1 [] ∧ r.2.1.h = l.h
    ∧ (∀ e ∈ xs, r.1.nx e = poison e ∧ r.1.pv e = poison e)
    ∧ (∀ a, a ∉ l.h :: xs → r.1.nx a = m.nx a ∧ r.1.pv a = m.pv a) := by
  have := clearLoop_spec poison l.size [] h (by rw [h.size]; exact Nat.le_refl _)
  simpa [clear] using this

theorem refForeach_sub (visit : Nat → Nat → Int × Bool) (xs : List Nat) (k : Nat) :
    ∀ a ∈ (refForeach visit xs k).2.2, a ∈ xs := by
  induction xs generalizing k with
  | nil => simp [refForeach]
  | cons x xs ih =>
    intro a ha
    simp only [refForeach] at ha
    split at ha
    · split at ha
      · exact List.mem_cons_of_mem _ ha
      · exact ha
    · split at ha
      · exact List.mem_cons_of_mem _ (ih _ a ha)
      · rcases List.mem_cons.mp ha with rfl | ha
        · simp
        · exact List.mem_cons_of_mem _ (ih _ a ha)

/-- a visit function that removes the visited element: the list represents
the sequence without it, whatever is then done to the removed element -/
theorem eraseP_spec (poison : Nat → Nat) {m : M2} {l : Hd} {pre post : List Nat} {n : Nat}
    (h : IsDL m l (pre ++ n :: post)) :
    IsDL (eraseP poison m l n).1 (eraseP poison m l n).2 (pre ++ post)
    ∧ (∀ a, a ∉ l.h :: (pre ++ n :: post) →
        (eraseP poison m l n).1.nx a = m.nx a ∧ (eraseP poison m l n).1.pv a = m.pv a) := by
  obtain ⟨e1, e2, e3⟩ := erase_spec h
  have hn : n ∉ l.h :: (pre ++ post) := (nodup_remove_mid h.nodup).2
  refine ⟨IsDL.transfer e1 ?_ ?_, ?_⟩
  · intro a ha; exact upd_other _ _ _ _ (fun e => hn (e ▸ ha))
  · intro a ha; exact upd_other _ _ _ _ (fun e => hn (e ▸ ha))
  · intro a ha
    have han : a ≠ n := fun e => ha (by simp [e])
    refine ⟨?_, ?_⟩
    · show upd _ n _ a = _
      rw [upd_other _ _ _ _ han]
      refine e2 a (fun e => ha ?_)
      have := lastOr_mem l.h pre; rw [← e] at this
      rcases List.mem_cons.mp this with h1 | h1
      · simp [h1]
      · simp [h1]
    · show upd _ n _ a = _
      rw [upd_other _ _ _ _ han]
      refine e3 a (fun e => ha ?_)
      have := headOr_mem l.h post; rw [← e] at this
      rcases List.mem_cons.mp this with h1 | h1
      · simp [h1]
      · simp [h1]

/-- forward traversal: loop invariant.  The list stands as `dn ++ rest`, `c` is
the first node of `rest` (or the head node), `n` its saved successor. -/
theorem foreachLoop_fwd (poison : Nat → Nat) (visit : Nat → Nat → Int × Bool) {m : M2} {l : Hd} {dn rest : List Nat}
    (fuel k : Nat) (acc : List Nat) (c n : Nat)
    (h : IsDL m l (dn ++ rest)) (hc : c = headOr l.h rest) (hn : n = m.nx c) (hf : rest.length < fuel) :
    let r := foreachLoop poison true visit fuel m l c n k acc
    let ref := refForeach visit rest k
    r.2.2.1 = acc.reverse ++ ref.1 ∧ r.2.2.2 = ref.2.1 ∧ IsDL r.1 r.2.1 (dn ++ ref.2.2) ∧ r.2.1.h = l.h
    ∧ (∀ a, a ∉ l.h :: (dn ++ rest) → r.1.nx a = m.nx a ∧ r.1.pv a = m.pv a) := by
  induction rest generalizing m l dn fuel k acc c n with
  | nil =>
    subst hc
    have h0 : IsDL m l dn := by simpa using h
    cases fuel <;> simp [foreachLoop, refForeach, h0]
  | cons x rs ih =>
    simp only [headOr_cons] at hc
    subst hc
    cases fuel with
    | zero => simp at hf
    | succ f =>
      have hnd := h.nodup
      have hcl : c ≠ l.h := by
        intro e; rw [e] at hnd
        exact (List.nodup_cons.mp hnd).1 (by simp)
      have hlinks := h.links
      have hn' : n = headOr l.h rs := by rw [hn]; exact hlinks.1
      by_cases hv : (visit k c).2
      · -- the visit unlinks the visited element
        obtain ⟨e1, hfr⟩ := eraseP_spec poison h
        by_cases hr : (visit k c).1 = 0
        · have hnx : (eraseP poison m l c).1.nx n = (eraseP poison m l c).1.nx (headOr l.h rs) := by rw [hn']
          have := ih (m := (eraseP poison m l c).1) (l := (eraseP poison m l c).2) (dn := dn) f (k + 1) (c :: acc) n
            ((eraseP poison m l c).1.nx n) e1 hn' rfl (by simpa using hf)
          obtain ⟨i1, i2, i3, i4, i5⟩ := this
          have hstep : foreachLoop poison true visit (f + 1) m l c n k acc
              = foreachLoop poison true visit f (eraseP poison m l c).1 (eraseP poison m l c).2 n ((eraseP poison m l c).1.nx n) (k + 1) (c :: acc) := by
            rw [foreachLoop, if_neg hcl]
            simp [hv, hr]
          simp only [hstep, refForeach, hr, hv, ne_eq, not_true_eq_false, if_false, if_true]
          refine ⟨by simp [i1], i2, i3, i4, ?_⟩
          intro a ha
          have ha' : a ∉ (eraseP poison m l c).2.h :: (dn ++ rs) := fun hm => ha (by
            simp only [List.mem_cons, List.mem_append] at hm ⊢
            rcases hm with h1 | h1 | h1
            · exact Or.inl h1
            · exact Or.inr (Or.inl h1)
            · exact Or.inr (Or.inr (Or.inr h1)))
          rw [(i5 a ha').1, (i5 a ha').2]
          exact hfr a ha
        · have hstep : foreachLoop poison true visit (f + 1) m l c n k acc
              = ((eraseP poison m l c).1, (eraseP poison m l c).2, (c :: acc).reverse, (visit k c).1) := by
            rw [foreachLoop, if_neg hcl]
            simp [hv, hr]
          simp only [hstep, refForeach, hr, hv, ne_eq, not_false_eq_true, if_true]
          exact ⟨by simp, by simp, e1, by first | rfl | simp, hfr⟩
      · by_cases hr : (visit k c).1 = 0
        · have h2 : IsDL m l ((dn ++ [c]) ++ rs) := by simpa using h
          have := ih (m := m) (l := l) (dn := dn ++ [c]) f (k + 1) (c :: acc) n (m.nx n) h2 hn' rfl (by simpa using hf)
          obtain ⟨i1, i2, i3, i4, i5⟩ := this
          have hstep : foreachLoop poison true visit (f + 1) m l c n k acc
              = foreachLoop poison true visit f m l n (m.nx n) (k + 1) (c :: acc) := by
            rw [foreachLoop, if_neg hcl]
            simp [hv, hr]
          simp only [hstep, refForeach, hr, hv, ne_eq, not_true_eq_false, if_false]
          refine ⟨by simp [i1], i2, by simpa using i3, i4, ?_⟩
          intro a ha
          exact i5 a (by simpa using ha)
        · have hstep : foreachLoop poison true visit (f + 1) m l c n k acc
              = (m, l, (c :: acc).reverse, (visit k c).1) := by
            rw [foreachLoop, if_neg hcl]
            simp [hv, hr]
          simp only [hstep, refForeach, hr, hv, ne_eq, not_false_eq_true, if_true]
          exact ⟨by simp, by simp, by simpa using h, by first | rfl | simp, fun _ _ => ⟨by first | rfl | simp, by first | rfl | simp⟩⟩

/-- backward traversal: loop invariant (mirror image of `foreachLoop_fwd`).
`rr` is the not yet visited part in visiting order (so the list stands as
`rr.reverse ++ dn`). -/
theorem foreachLoop_bwd (poison : Nat → Nat) (visit : Nat → Nat → Int × Bool) {m : M2} {l : Hd} {dn rr : List Nat}
    (fuel k : Nat) (acc : List Nat) (c n : Nat)
    (h : IsDL m l (rr.reverse ++ dn)) (hc : c = headOr l.h rr) (hn : n = m.pv c) (hf : rr.length < fuel) :
    let r := foreachLoop poison false visit fuel m l c n k acc
    let ref := refForeach visit rr k
    r.2.2.1 = acc.reverse ++ ref.1 ∧ r.2.2.2 = ref.2.1 ∧ IsDL r.1 r.2.1 (ref.2.2.reverse ++ dn) ∧ r.2.1.h = l.h
    ∧ (∀ a, a ∉ l.h :: (rr.reverse ++ dn) → r.1.nx a = m.nx a ∧ r.1.pv a = m.pv a) := by
  induction rr generalizing m l dn fuel k acc c n with
  | nil =>
    subst hc
    have h0 : IsDL m l dn := by simpa using h
    cases fuel <;> simp [foreachLoop, refForeach, h0]
  | cons x rs ih =>
    simp only [headOr_cons] at hc
    subst hc
    have h' : IsDL m l (rs.reverse ++ c :: dn) := by simpa using h
    cases fuel with
    | zero => simp at hf
    | succ f =>
      have hnd := h'.nodup
      have hcl : c ≠ l.h := by
        intro e; rw [e] at hnd
        exact (List.nodup_cons.mp hnd).1 (by simp)
      have hlinks := h'.links
      have hn' : n = headOr l.h rs := by rw [hn, hlinks.2.1, lastOr_reverse]
      have hmem : ∀ a, a ∉ l.h :: ((c :: rs).reverse ++ dn) ↔ a ∉ l.h :: (rs.reverse ++ c :: dn) := by
        intro a; simp
      by_cases hv : (visit k c).2
      · obtain ⟨e1, hfr⟩ := eraseP_spec poison h'
        by_cases hr : (visit k c).1 = 0
        · have := ih (m := (eraseP poison m l c).1) (l := (eraseP poison m l c).2) (dn := dn) f (k + 1) (c :: acc) n
            ((eraseP poison m l c).1.pv n) e1 hn' rfl (by simpa using hf)
          obtain ⟨i1, i2, i3, i4, i5⟩ := this
          have hstep : foreachLoop poison false visit (f + 1) m l c n k acc
              = foreachLoop poison false visit f (eraseP poison m l c).1 (eraseP poison m l c).2 n ((eraseP poison m l c).1.pv n) (k + 1) (c :: acc) := by
            rw [foreachLoop, if_neg hcl]
            simp [hv, hr]
          simp only [hstep, refForeach, hr, hv, ne_eq, not_true_eq_false, if_false, if_true]
          refine ⟨by simp [i1], i2, i3, i4, ?_⟩
          intro a ha
          have ha2 := (hmem a).mp ha
          have ha' : a ∉ (eraseP poison m l c).2.h :: (rs.reverse ++ dn) := fun hm => ha2 (by
            simp only [List.mem_cons, List.mem_append] at hm ⊢
            rcases hm with h1 | h1 | h1
            · exact Or.inl h1
            · exact Or.inr (Or.inl h1)
            · exact Or.inr (Or.inr (Or.inr h1)))
          rw [(i5 a ha').1, (i5 a ha').2]
          exact hfr a ha2
        · have hstep : foreachLoop poison false visit (f + 1) m l c n k acc
              = ((eraseP poison m l c).1, (eraseP poison m l c).2, (c :: acc).reverse, (visit k c).1) := by
            rw [foreachLoop, if_neg hcl]
            simp [hv, hr]
          simp only [hstep, refForeach, hr, hv, ne_eq, not_false_eq_true, if_true]
          exact ⟨by simp, by simp, e1, by first | rfl | simp, fun a ha => hfr a ((hmem a).mp ha)⟩
      · by_cases hr : (visit k c).1 = 0
        · have := ih (m := m) (l := l) (dn := c :: dn) f (k + 1) (c :: acc) n (m.pv n) h' hn' rfl (by simpa using hf)
          obtain ⟨i1, i2, i3, i4, i5⟩ := this
          have hstep : foreachLoop poison false visit (f + 1) m l c n k acc
              = foreachLoop poison false visit f m l n (m.pv n) (k + 1) (c :: acc) := by
            rw [foreachLoop, if_neg hcl]
            simp [hv, hr]
          simp only [hstep, refForeach, hr, hv, ne_eq, not_true_eq_false, if_false]
          refine ⟨by simp [i1], i2, by simpa using i3, i4, ?_⟩
          intro a ha
          exact i5 a ((hmem a).mp ha)
        · have hstep : foreachLoop poison false visit (f + 1) m l c n k acc
              = (m, l, (c :: acc).reverse, (visit k c).1) := by
            rw [foreachLoop, if_neg hcl]
            simp [hv, hr]
          simp only [hstep, refForeach, hr, hv, ne_eq, not_false_eq_true, if_true]
          exact ⟨by simp, by simp, by simpa using h, by first | rfl | simp,
            fun _ _ => ⟨by first | rfl | simp, by first | rfl | simp⟩⟩

/-- **foreach, both directions.**  A forward traversal presents the reference
sequence, a backward traversal its mirror image; it stops at, and returns, the
first non-zero visit result; the visit function may unlink the visited
element, and the list then represents the sequence without the unlinked
elements. -/
theorem foreach_spec {m : M2} {l : Hd} {xs : List Nat} (h : IsDL m l xs) (fwd : Bool)
    (visit : Nat → Nat → Int × Bool) (poison : Nat → Nat := fun _ => 0) :
    let r := foreach m l fwd visit poison
    let ref := refForeach visit (if fwd then xs else xs.reverse) 0
    r.2.2.1 = ref.1 ∧ r.2.2.2 = ref.2.1
    ∧ IsDL r.1 r.2.1 (if fwd then ref.2.2 else ref.2.2.reverse) ∧ r.2.1.h = l.h
    ∧ (∀ a, a ∉ l.h :: xs → r.1.nx a = m.nx a ∧ r.1.pv a = m.pv a) := by
  cases fwd with
  | true =>
    have := foreachLoop_fwd poison visit (dn := []) (rest := xs) (l.size + 1) 0 [] (m.nx l.h) (m.nx (m.nx l.h))
      (by simpa using h) h.head_links.1 rfl (by rw [h.size]; omega)
    simpa [foreach] using this
  | false =>
    have := foreachLoop_bwd poison visit (dn := []) (rr := xs.reverse) (l.size + 1) 0 [] (m.pv l.h) (m.pv (m.pv l.h))
      (by simpa using h) (by rw [h.head_links.2, headOr_reverse]) rfl (by rw [h.size]; simp)
    simpa [foreach] using this

/-- the visit function `cstl_dlist_find` hands to `foreach` -/
def findVisit (key : Nat → Int) (probe : Int) : Nat → Nat → Int × Bool :=
  fun _ e => (if key e = probe then 1 else 0, false)

theorem refForeach_find (key : Nat → Int) (probe : Int) (ys : List Nat) (k : Nat) :
    let r := refForeach (findVisit key probe) ys k
    (r.2.1 = 0 ∨ r.2.1 = 1)
    ∧ (r.2.1 = 1 → r.1 ≠ [] ∧ r.1.getLast? = ys.find? (fun e => key e = probe))
    ∧ (r.2.1 = 0 → ys.find? (fun e => key e = probe) = none)
    ∧ r.2.2 = ys := by
  induction ys generalizing k with
  | nil => simp [refForeach]
  | cons x ys ih =>
    obtain ⟨i1, i2, i3, i4⟩ := ih (k + 1)
    by_cases hk : key x = probe
    · simp [refForeach, findVisit, hk]
    · simp only [refForeach, findVisit, hk, if_false, ne_eq, not_true_eq_false, Bool.false_eq_true]
      refine ⟨i1, ?_, ?_, by simpa [findVisit] using i4⟩
      · intro h1
        obtain ⟨j1, j2⟩ := i2 h1
        refine ⟨by simp, ?_⟩
        rw [List.getLast?_cons_of_ne_nil j1] at *
        simp [List.find?, hk]
        exact j2
      · intro h0
        simp [List.find?, hk]
        simpa using i3 h0

/-- `find` returns the first element, in the chosen direction, whose key
equals the probe, or NULL -/
theorem find_spec {m : M2} {l : Hd} {xs : List Nat} (h : IsDL m l xs) (fwd : Bool)
    (key : Nat → Int) (probe : Int) :
    find m l fwd key probe = (if fwd then xs else xs.reverse).find? (fun e => key e = probe) := by
  obtain ⟨f1, f2, _, _, _⟩ := foreach_spec h fwd (findVisit key probe)
  obtain ⟨r1, r2, r3, _⟩ := refForeach_find key probe (if fwd then xs else xs.reverse) 0
  have e : find m l fwd key probe
      = if (foreach m l fwd (findVisit key probe)).2.2.2 > 0
        then (foreach m l fwd (findVisit key probe)).2.2.1.getLast? else none := rfl
  rw [e, f1, f2]
  rcases r1 with h0 | h1
  · rw [h0]; simp [r3 h0]
  · rw [h1]; simp [(r2 h1).2]

/-- writing both link fields along a duplicate-free non-NULL sequence -/
theorem relinkFrom_spec (m : M2) (h a : Nat) (ys : List Nat) (hnd : (a :: ys).Nodup) (hh : h ∉ ys)
    (hnz : ∀ y ∈ ys, y ≠ 0) :
    Seg (relinkFrom m h a ys).nx a ys h ∧ Seg (relinkFrom m h a ys).pv h ys.reverse a
    ∧ (∀ x, x ∉ a :: ys → (relinkFrom m h a ys).nx x = m.nx x)
    ∧ (∀ x, x ∉ h :: ys → (relinkFrom m h a ys).pv x = m.pv x) := by
  induction ys generalizing m a with
  | nil =>
    refine ⟨by simp [relinkFrom], by simp [relinkFrom], ?_, ?_⟩
    · intro x hx; exact upd_other _ _ _ _ (by simpa using hx)
    · intro x hx; exact upd_other _ _ _ _ (by simpa using hx)
  | cons y ys ih =>
    have hnd' := (List.nodup_cons.mp hnd).2
    have hay : a ∉ y :: ys := (List.nodup_cons.mp hnd).1
    have hyh : y ≠ h := fun e => hh (by simp [e])
    have hyys : y ∉ ys := (List.nodup_cons.mp hnd').1
    obtain ⟨i1, i2, i3, i4⟩ := ih { nx := upd m.nx a y, pv := upd m.pv y a } y hnd'
      (fun hm => hh (by simp [hm])) (fun z hz => hnz z (by simp [hz]))
    refine ⟨⟨?_, hnz y (by simp), i1⟩, ?_, ?_, ?_⟩
    · show (relinkFrom _ h y ys).nx a = y
      rw [i3 a hay]; simp
    · show Seg (relinkFrom _ h y ys).pv h (y :: ys).reverse a
      rw [List.reverse_cons, Seg_append]
      refine ⟨i2, hnz y (by simp), ?_⟩
      show (relinkFrom _ h y ys).pv y = a
      rw [i4 y (by simp [hyh, hyys])]; simp
    · intro x hx
      show (relinkFrom _ h y ys).nx x = m.nx x
      rw [i3 x (fun hm => hx (by simp [hm]))]
      exact upd_other _ _ _ _ (fun e => hx (by simp [e]))
    · intro x hx
      show (relinkFrom _ h y ys).pv x = m.pv x
      rw [i4 x (fun hm => hx (by
        rcases List.mem_cons.mp hm with h1 | h1
        · simp [h1]
        · simp [h1]))]
      exact upd_other _ _ _ _ (fun e => hx (by simp [e]))

theorem walk_of_Seg {f : Mem} {h a : Nat} {xs : List Nat} (hs : Seg f a xs h) (hh : h ∉ xs) (fuel : Nat)
    (hf : xs.length ≤ fuel) : walk f h fuel a = xs := by
  induction xs generalizing a fuel with
  | nil =>
    cases fuel with
    | zero => rfl
    | succ f' => simp only [Seg_nil] at hs; simp [walk, hs]
  | cons x xs ih =>
    obtain ⟨h1, h2, h3⟩ := hs
    cases fuel with
    | zero => simp at hf
    | succ f' =>
      have hx : x ≠ h := fun e => hh (by simp [e])
      simp only [walk, h1, hx, if_false]
      rw [ih h3 (fun hm => hh (by simp [hm])) f' (by simpa using hf)]

/-- the driver's state dump (both walks) reads back the represented sequence -/
theorem walk_spec {m : M2} {l : Hd} {xs : List Nat} (h : IsDL m l xs) (fuel : Nat) (hf : xs.length ≤ fuel) :
    walk m.nx l.h fuel l.h = xs ∧ walk m.pv l.h fuel l.h = xs.reverse := by
  have hh : l.h ∉ xs := (List.nodup_cons.mp h.nodup).1
  exact ⟨walk_of_Seg h.fwd hh fuel hf, walk_of_Seg h.bwd (by simpa using hh) fuel (by simpa using hf)⟩

/-- `sort` leaves an ordered permutation of the same nodes, linked in both
directions -/
theorem sort_spec {m : M2} {l : Hd} {xs : List Nat} (h : IsDL m l xs) (key : Nat → Int) :
    let ys := if l.size > 1 then msort key xs.length xs else xs
    IsDL (sort m l key).1 (sort m l key).2 ys ∧ ys.Perm xs ∧ SortedBy key ys
    ∧ (∀ a, a ∉ l.h :: xs → (sort m l key).1.nx a = m.nx a ∧ (sort m l key).1.pv a = m.pv a) := by
  intro ys
  by_cases hc : l.size > 1
  · have hw : walk m.nx l.h l.size l.h = xs := (walk_spec h _ (by rw [h.size]; omega)).1
    have hys : ys = msort key xs.length xs := by simp [ys, hc]
    have hperm : ys.Perm xs := hys ▸ msort_perm key _ xs
    have hsorted : SortedBy key ys := hys ▸ msort_sorted key _ xs (Nat.le_refl _)
    have hnd : (l.h :: ys).Nodup := (hperm.cons l.h).nodup_iff.mpr h.nodup
    have hnz : ∀ y ∈ ys, y ≠ 0 := fun y hy => h.nonzero y (hperm.mem_iff.mp hy)
    obtain ⟨r1, r2, r3, r4⟩ := relinkFrom_spec m l.h l.h ys hnd (List.nodup_cons.mp hnd).1 hnz
    have e : sort m l key = (relinkFrom m l.h l.h ys, l) := by
      simp [sort, hc, hw, hys]
    rw [e]
    have hmem : ∀ a, a ∉ l.h :: xs → a ∉ l.h :: ys := by
      intro a ha hm; apply ha
      rcases List.mem_cons.mp hm with h1 | h1
      · simp [h1]
      · exact List.mem_cons_of_mem _ (hperm.mem_iff.mp h1)
    refine ⟨⟨r1, r2, hnd, h.hnz, ?_⟩, hperm, hsorted, ?_⟩
    · show l.size = ys.length
      rw [h.size, hperm.length_eq]
    · intro a ha
      exact ⟨r3 a (hmem a ha), r4 a (hmem a ha)⟩
  · have hys : ys = xs := by simp [ys, hc]
    have e : sort m l key = (m, l) := by simp [sort, hc]
    rw [e, hys]
    refine ⟨h, List.Perm.refl _, ?_, fun _ _ => ⟨rfl, rfl⟩⟩
    have hl : xs.length ≤ 1 := by have := h.size; omega
    match xs, hl with
    | [], _ => simp [SortedBy]
    | [_], _ => simp [SortedBy]

/-- two represented lists do not share nodes -/
def Disjoint (a : Hd) (xs : List Nat) (b : Hd) (ys : List Nat) : Prop :=
  ∀ x ∈ a.h :: xs, x ∉ b.h :: ys

/-- `concat d s`: all elements of `s`, in order, at the end of `d`, in both
directions; `s` empty and usable -/
theorem concat_spec {m : M2} {d s : Hd} {xs ys : List Nat}
    (hd : IsDL m d xs) (hs : IsDL m s ys) (hdis : Disjoint d xs s ys) :
    let r := concat m d s
    IsDL r.1 r.2.1 (xs ++ ys) ∧ IsDL r.1 r.2.2 [] ∧ r.2.1.h = d.h ∧ r.2.2.h = s.h
    ∧ (∀ a, a ∉ d.h :: xs → a ∉ s.h :: ys → r.1.nx a = m.nx a ∧ r.1.pv a = m.pv a) := by
  have hne : d.h ≠ s.h := fun e => hdis d.h (by simp) (by simp [e])
  cases ys with
  | nil =>
    have hs0 : ¬ s.size > 0 := by have := hs.size; simp at this; omega
    have e : concat m d s = (m, d, s) := by simp [concat, hs0]
    simp only [e]
    exact ⟨by simpa using hd, hs, by first | rfl | trivial, by first | rfl | trivial, fun _ _ _ => ⟨by first | rfl | trivial, by first | rfl | trivial⟩⟩
  | cons y1 ys' =>
    have hs0 : s.size > 0 := by have := hs.size; simp at this; omega
    -- names for the four boundary nodes
    have hsn : m.nx s.h = y1 := hs.fwd.1
    have hsp : m.pv s.h = lastOr s.h (y1 :: ys') := hs.head_links.2
    have hdp : m.pv d.h = lastOr d.h xs := hd.head_links.2
    let yl := lastOr y1 ys'
    let dl := lastOr d.h xs
    have hyl_mem : yl ∈ y1 :: ys' := lastOr_mem _ _
    have hdl_mem : dl ∈ d.h :: xs := lastOr_mem _ _
    have hsy : ∀ a ∈ y1 :: ys', a ≠ s.h := by
      intro a ha e; have := hs.nodup; rw [← e] at this; exact (List.nodup_cons.mp this).1 ha
    have hdy : ∀ a ∈ y1 :: ys', a ∉ d.h :: xs := fun a ha hm => hdis a hm (by simp [List.mem_cons.mp ha])
    have hsd : s.h ∉ d.h :: xs := fun hm => hdis _ hm (by simp)
    have hy1s : y1 ≠ s.h := hsy y1 (by simp)
    have hy1d : y1 ≠ d.h := fun e => hdy y1 (by simp) (by simp [e])
    have hyls : yl ≠ s.h := hsy yl hyl_mem
    have hdls : dl ≠ s.h := fun e => hsd (e ▸ hdl_mem)
    have hyldl : yl ≠ dl := fun e => hdy yl hyl_mem (e ▸ hdl_mem)
    have e : concat m d s =
        ({ nx := upd (upd (upd m.nx yl d.h) dl y1) s.h s.h,
           pv := upd (upd (upd m.pv y1 dl) d.h yl) s.h s.h },
         { d with size := d.size + s.size }, { h := s.h, size := 0 }) := by
      have c1 : upd m.pv (m.nx s.h) (m.pv d.h) s.h = yl := by
        rw [hsn, upd_other _ _ _ _ (Ne.symm hy1s), hsp]; rfl
      have c2 : upd m.pv (m.nx s.h) (m.pv d.h) d.h = dl := by
        rw [hsn, upd_other _ _ _ _ (Ne.symm hy1d), hdp]
      have c3 : upd m.nx yl d.h s.h = y1 := by
        rw [upd_other _ _ _ _ (Ne.symm hyls), hsn]
      simp only [concat, hne, hs0, ne_eq, not_false_eq_true, and_self, if_true, init]
      rw [c1, c2, c3, hsn, hdp]
    simp only [e]
    let nx3 := upd (upd (upd m.nx yl d.h) dl y1) s.h s.h
    let pv3 := upd (upd (upd m.pv y1 dl) d.h yl) s.h s.h
    have nx3_o : ∀ a, a ≠ yl → a ≠ dl → a ≠ s.h → nx3 a = m.nx a := by
      intro a h1 h2 h3
      show upd (upd (upd m.nx yl d.h) dl y1) s.h s.h a = m.nx a
      rw [upd_other _ _ _ _ h3, upd_other _ _ _ _ h2, upd_other _ _ _ _ h1]
    have pv3_o : ∀ a, a ≠ y1 → a ≠ d.h → a ≠ s.h → pv3 a = m.pv a := by
      intro a h1 h2 h3
      show upd (upd (upd m.pv y1 dl) d.h yl) s.h s.h a = m.pv a
      rw [upd_other _ _ _ _ h3, upd_other _ _ _ _ h2, upd_other _ _ _ _ h1]
    have nx3_dl : nx3 dl = y1 := by
      show upd (upd (upd m.nx yl d.h) dl y1) s.h s.h dl = y1
      rw [upd_other _ _ _ _ hdls, upd_same]
    have nx3_yl : nx3 yl = d.h := by
      show upd (upd (upd m.nx yl d.h) dl y1) s.h s.h yl = d.h
      rw [upd_other _ _ _ _ hyls, upd_other _ _ _ _ hyldl, upd_same]
    have pv3_y1 : pv3 y1 = dl := by
      show upd (upd (upd m.pv y1 dl) d.h yl) s.h s.h y1 = dl
      rw [upd_other _ _ _ _ hy1s, upd_other _ _ _ _ hy1d, upd_same]
    have pv3_dh : pv3 d.h = yl := by
      show upd (upd (upd m.pv y1 dl) d.h yl) s.h s.h d.h = yl
      rw [upd_other _ _ _ _ hne, upd_same]
    have hndd := hd.nodup
    have hnds := hs.nodup
    refine ⟨⟨?_, ?_, ?_, hd.hnz, ?_⟩, ⟨?_, ?_, by simp, hs.hnz, rfl⟩, by first | rfl | trivial, by first | rfl | trivial, ?_⟩
    · -- forward
      show Seg nx3 d.h (xs ++ y1 :: ys') d.h
      rw [Seg_append]
      refine ⟨?_, Seg_nonzero hs.fwd y1 (by simp), ?_⟩
      · -- through xs, the last link now leads to y1
        have s1 := Seg_upd_last (v := y1) hd.fwd hndd
        refine Seg_transfer s1 ?_ ?_
        · by_cases hx : xs = []
          · subst hx
            show nx3 d.h = upd m.nx (lastOr d.h []) y1 d.h
            have : dl = d.h := rfl
            rw [← this, nx3_dl]; simp
          · have hdne : d.h ≠ dl := fun e => hx ((lastOr_eq_head_iff d.h xs hndd).mp e.symm)
            have hdyl : d.h ≠ yl := fun e => hdy yl hyl_mem (by simp [← e])
            rw [upd_other _ _ _ _ hdne]
            exact nx3_o d.h hdyl hdne hne
        · intro a ha
          by_cases hal : a = dl
          · rw [hal, nx3_dl]; simp [dl]
          · rw [upd_other _ _ _ _ hal]
            refine nx3_o a (fun e => hdy yl hyl_mem (by simp [← e, ha])) hal (fun e => hsd (by simp [← e, ha]))
      · -- through ys, the last link now leads back to d's head
        have s0 : Seg m.nx y1 ys' s.h := hs.fwd.2.2
        have hnd1 : (y1 :: ys').Nodup := (List.nodup_cons.mp hnds).2
        have s1 := Seg_upd_last (v := d.h) s0 hnd1
        refine Seg_transfer s1 ?_ ?_
        · by_cases hy : ys' = []
          · subst hy
            have : yl = y1 := rfl
            rw [← this, nx3_yl]; simp [yl]
          · have hne1 : y1 ≠ yl := fun e => hy ((lastOr_eq_head_iff y1 ys' hnd1).mp e.symm)
            rw [upd_other _ _ _ _ hne1]
            exact nx3_o y1 hne1 (fun e => hdy y1 (by simp) (e ▸ hdl_mem)) hy1s
        · intro a ha
          by_cases hal : a = yl
          · rw [hal, nx3_yl]; simp [yl]
          · rw [upd_other _ _ _ _ hal]
            exact nx3_o a hal (fun e => hdy a (by simp [ha]) (e ▸ hdl_mem)) (hsy a (by simp [ha]))
    · -- backward
      show Seg pv3 d.h (xs ++ y1 :: ys').reverse d.h
      have : (xs ++ y1 :: ys').reverse = (y1 :: ys').reverse ++ xs.reverse := by simp
      rw [this, Seg_append']
      have hlast : lastOr d.h (y1 :: ys').reverse = y1 := by rw [lastOr_reverse]; rfl
      rw [hlast]
      constructor
      · -- from d's head backwards through ys
        have s1 := Seg_upd_last (v := dl) hs.bwd (nodup_reverse_cons hnds)
        rw [lastOr_reverse] at s1
        simp only [headOr_cons] at s1
        rw [pv3_y1]
        refine Seg_transfer s1 ?_ ?_
        · rw [pv3_dh, upd_other _ _ _ _ (Ne.symm hy1s), hsp]; rfl
        · intro a ha
          have ha' : a ∈ y1 :: ys' := by simp at ha ⊢; exact Or.symm ha
          by_cases ha1 : a = y1
          · rw [ha1, pv3_y1]; simp
          · rw [upd_other _ _ _ _ ha1]
            exact pv3_o a ha1 (fun e => hdy a ha' (by simp [e])) (hsy a ha')
      · -- then through xs back to d's head
        refine Seg_transfer hd.bwd ?_ ?_
        · rw [pv3_y1, hdp]
        · intro a ha
          have ha' : a ∈ xs := by simpa using ha
          refine pv3_o a (fun e => hdy y1 (by simp) (by simp [← e, ha'])) (fun e => ?_) (fun e => hsd (by simp [← e, ha']))
          rw [e] at ha'; exact (List.nodup_cons.mp hndd).1 ha'
    · show (d.h :: (xs ++ y1 :: ys')).Nodup
      have : ((d.h :: xs) ++ (y1 :: ys')).Nodup := by
        rw [List.nodup_append]
        refine ⟨hndd, (List.nodup_cons.mp hnds).2, ?_⟩
        intro a ha b hb e
        exact hdy b hb (e ▸ ha)
      simpa using this
    · show d.size + s.size = (xs ++ y1 :: ys').length
      simp [hd.size, hs.size]
    · show Seg nx3 s.h [] s.h
      show upd _ s.h s.h s.h = s.h
      exact upd_same _ _ _
    · show Seg pv3 s.h [].reverse s.h
      show upd _ s.h s.h s.h = s.h
      exact upd_same _ _ _
    · intro a ha1 ha2
      refine ⟨nx3_o a (fun e => ha2 ?_) (fun e => ha1 (e ▸ hdl_mem)) (fun e => ha2 (by simp [e])),
        pv3_o a (fun e => ha2 (by simp [e])) (fun e => ha1 (by simp [e])) (fun e => ha2 (by simp [e]))⟩
      rw [e]; exact List.mem_cons_of_mem _ hyl_mem

/-- The fix-up of `cstl_dlist_swap`: a ring `ys` that used to hang on head `s`
and whose end links were copied into a new head node `t` is closed on `t`
(an empty ring is re-anchored on `t` itself).  Only `t` and the two end
nodes of `ys` are written. -/
theorem swapFix_rehead {m m' : M2} {s : Hd} {ys : List Nat} {t : Nat}
    (hs : IsDL m s ys) (ht : t ∉ s.h :: ys) (htz : t ≠ 0)
    (hn : m'.nx t = m.nx s.h) (hp : m'.pv t = m.pv s.h)
    (hon : ∀ a ∈ ys, m'.nx a = m.nx a) (hop : ∀ a ∈ ys, m'.pv a = m.pv a) :
    let r := swapFix m' { h := t, size := ys.length }
    IsDL r { h := t, size := ys.length } ys
    ∧ (∀ a, a ∉ t :: ys → r.nx a = m'.nx a ∧ r.pv a = m'.pv a) := by
  have hty : t ∉ ys := fun hm => ht (by simp [hm])
  cases ys with
  | nil =>
    simp only [swapFix, List.length_nil, if_true]
    refine ⟨⟨by simp, by simp, by simp, htz, rfl⟩, ?_⟩
    intro a ha
    have : a ≠ t := by simpa using ha
    exact ⟨upd_other _ _ _ _ this, upd_other _ _ _ _ this⟩
  | cons y1 ys' =>
    obtain ⟨yl, hyl⟩ : ∃ z, z = lastOr y1 ys' := ⟨_, rfl⟩
    have hyl_mem : yl ∈ y1 :: ys' := hyl ▸ lastOr_mem _ _
    have hnds := hs.nodup
    have hnd1 : (y1 :: ys').Nodup := (List.nodup_cons.mp hnds).2
    have hsn : m.nx s.h = y1 := hs.fwd.1
    have hsp : m.pv s.h = yl := by rw [hyl]; exact hs.head_links.2
    have hty1 : t ≠ y1 := fun e => hty (by simp [e])
    have htyl : t ≠ yl := fun e => hty (e ▸ hyl_mem)
    have e : swapFix m' { h := t, size := (y1 :: ys').length }
        = { nx := upd m'.nx yl t, pv := upd m'.pv y1 t } := by
      have c1 : upd m'.pv (m'.nx t) t t = yl := by
        rw [hn, hsn, upd_other _ _ _ _ hty1, hp, hsp]
      simp only [swapFix, List.length_cons, Nat.add_one_ne_zero, if_false]
      rw [c1, hn, hsn]
    simp only [e]
    refine ⟨⟨?_, ?_, ?_, htz, rfl⟩, ?_⟩
    · show Seg (upd m'.nx yl t) t (y1 :: ys') t
      refine ⟨by rw [upd_other _ _ _ _ htyl, hn, hsn], Seg_nonzero hs.fwd y1 (by simp), ?_⟩
      have s1 := Seg_upd_last (v := t) hs.fwd.2.2 hnd1
      rw [← hyl] at s1
      refine Seg_transfer s1 ?_ ?_
      · by_cases h1 : y1 = yl
        · rw [h1, upd_same, upd_same]
        · rw [upd_other _ _ _ _ h1, upd_other _ _ _ _ h1]; exact hon y1 (by simp)
      · intro a ha
        by_cases h1 : a = yl
        · rw [h1, upd_same, upd_same]
        · rw [upd_other _ _ _ _ h1, upd_other _ _ _ _ h1]; exact hon a (by simp [ha])
    · show Seg (upd m'.pv y1 t) t (y1 :: ys').reverse t
      have s1 := Seg_upd_last (v := t) hs.bwd (nodup_reverse_cons hnds)
      rw [lastOr_reverse] at s1
      simp only [headOr_cons] at s1
      refine Seg_transfer s1 ?_ ?_
      · have hsy1 : s.h ≠ y1 := fun e => (List.nodup_cons.mp hnds).1 (by simp [e])
        rw [upd_other _ _ _ _ hty1, upd_other _ _ _ _ hsy1, hp]
      · intro a ha
        have ha' : a ∈ y1 :: ys' := by simp at ha ⊢; exact Or.symm ha
        by_cases h1 : a = y1
        · rw [h1]; simp
        · rw [upd_other _ _ _ _ h1, upd_other _ _ _ _ h1]; exact hop a ha'
    · exact List.nodup_cons.mpr ⟨hty, hnd1⟩
    · intro a ha
      refine ⟨upd_other _ _ _ _ (fun e => ha (by rw [e]; exact List.mem_cons_of_mem _ hyl_mem)),
        upd_other _ _ _ _ (fun e => ha (by simp [e]))⟩

/-- `swap` exchanges the two sequences (both directions); an empty result is
re-anchored on its own head node -/
theorem swap_spec {m : M2} {a b : Hd} {xs ys : List Nat}
    (ha : IsDL m a xs) (hb : IsDL m b ys) (hdis : Disjoint a xs b ys) :
    let r := swap m a b
    IsDL r.1 r.2.1 ys ∧ IsDL r.1 r.2.2 xs ∧ r.2.1.h = a.h ∧ r.2.2.h = b.h
    ∧ (∀ x, x ∉ a.h :: xs → x ∉ b.h :: ys → r.1.nx x = m.nx x ∧ r.1.pv x = m.pv x) := by
  have hab : a.h ≠ b.h := fun e => hdis a.h (by simp) (by simp [e])
  have hay : a.h ∉ b.h :: ys := hdis a.h (by simp)
  have hbx : b.h ∉ a.h :: xs := fun hm => hdis b.h hm (by simp)
  have hxb : ∀ x ∈ xs, x ≠ a.h ∧ x ≠ b.h ∧ x ∉ ys := by
    intro x hx
    refine ⟨fun e => ?_, fun e => hbx (by simp [← e, hx]), fun hm => hdis x (by simp [hx]) (by simp [hm])⟩
    have := ha.nodup; rw [← e] at this; exact (List.nodup_cons.mp this).1 hx
  have hya : ∀ y ∈ ys, y ≠ a.h ∧ y ≠ b.h ∧ y ∉ xs := by
    intro y hy
    refine ⟨fun e => hay (by simp [← e, hy]), fun e => ?_, fun hm => hdis y (by simp [hm]) (by simp [hy])⟩
    have := hb.nodup; rw [← e] at this; exact (List.nodup_cons.mp this).1 hy
  let m1 : M2 := { nx := upd (upd m.nx a.h (m.nx b.h)) b.h (m.nx a.h),
                   pv := upd (upd m.pv a.h (m.pv b.h)) b.h (m.pv a.h) }
  have m1_o : ∀ x, x ≠ a.h → x ≠ b.h → m1.nx x = m.nx x ∧ m1.pv x = m.pv x := by
    intro x h1 h2
    exact ⟨by show upd (upd m.nx a.h _) b.h _ x = _; rw [upd_other _ _ _ _ h2, upd_other _ _ _ _ h1],
           by show upd (upd m.pv a.h _) b.h _ x = _; rw [upd_other _ _ _ _ h2, upd_other _ _ _ _ h1]⟩
  have m1_a : m1.nx a.h = m.nx b.h ∧ m1.pv a.h = m.pv b.h :=
    ⟨by show upd (upd m.nx a.h _) b.h _ a.h = _; rw [upd_other _ _ _ _ hab, upd_same],
     by show upd (upd m.pv a.h _) b.h _ a.h = _; rw [upd_other _ _ _ _ hab, upd_same]⟩
  have m1_b : m1.nx b.h = m.nx a.h ∧ m1.pv b.h = m.pv a.h := ⟨upd_same _ _ _, upd_same _ _ _⟩
  -- first fix-up: list a now carries ys
  obtain ⟨f1, f1o⟩ := swapFix_rehead (m' := m1) (t := a.h) hb hay ha.hnz m1_a.1 m1_a.2
    (fun y hy => (m1_o y (hya y hy).1 (hya y hy).2.1).1) (fun y hy => (m1_o y (hya y hy).1 (hya y hy).2.1).2)
  let m2 := swapFix m1 { h := a.h, size := ys.length }
  have m2_b : m2.nx b.h = m.nx a.h ∧ m2.pv b.h = m.pv a.h := by
    have := f1o b.h (fun hm => by
      rcases List.mem_cons.mp hm with h1 | h1
      · exact hab h1.symm
      · exact (hya _ h1).2.1 rfl)
    exact ⟨this.1.trans m1_b.1, this.2.trans m1_b.2⟩
  have m2_x : ∀ x ∈ xs, m2.nx x = m.nx x ∧ m2.pv x = m.pv x := by
    intro x hx
    have := f1o x (fun hm => by
      rcases List.mem_cons.mp hm with h1 | h1
      · exact (hxb x hx).1 h1
      · exact (hxb x hx).2.2 h1)
    have o := m1_o x (hxb x hx).1 (hxb x hx).2.1
    exact ⟨this.1.trans o.1, this.2.trans o.2⟩
  -- second fix-up: list b now carries xs
  obtain ⟨f2, f2o⟩ := swapFix_rehead (m' := m2) (t := b.h) ha hbx hb.hnz m2_b.1 m2_b.2
    (fun x hx => (m2_x x hx).1) (fun x hx => (m2_x x hx).2)
  have e : swap m a b = (swapFix m2 { h := b.h, size := xs.length },
      { h := a.h, size := ys.length }, { h := b.h, size := xs.length }) := by
    simp only [swap, hb.size, ha.size]; rfl
  simp only [e]
  refine ⟨?_, f2, by first | rfl | trivial, by first | rfl | trivial, ?_⟩
  · refine IsDL.transfer f1 ?_ ?_
    · intro x hx
      exact (f2o x (fun hm => by
        have hx' : x ∈ a.h :: ys := hx
        rcases List.mem_cons.mp hx' with h1 | h1
        · rw [h1] at hm
          rcases List.mem_cons.mp hm with h2 | h2
          · exact hab h2
          · exact (hxb _ h2).1 rfl
        · rcases List.mem_cons.mp hm with h2 | h2
          · exact (hya x h1).2.1 h2
          · exact (hya x h1).2.2 h2)).1
    · intro x hx
      exact (f2o x (fun hm => by
        have hx' : x ∈ a.h :: ys := hx
        rcases List.mem_cons.mp hx' with h1 | h1
        · rw [h1] at hm
          rcases List.mem_cons.mp hm with h2 | h2
          · exact hab h2
          · exact (hxb _ h2).1 rfl
        · rcases List.mem_cons.mp hm with h2 | h2
          · exact (hya x h1).2.1 h2
          · exact (hya x h1).2.2 h2)).2
  · intro x hx1 hx2
    have hxa : x ≠ a.h := fun e => hx1 (by simp [e])
    have hxbh : x ≠ b.h := fun e => hx2 (by simp [e])
    have o2 := f2o x (fun hm => by
      rcases List.mem_cons.mp hm with h1 | h1
      · exact hxbh h1
      · exact hx1 (by simp [h1]))
    have o1 := f1o x (fun hm => by
      rcases List.mem_cons.mp hm with h1 | h1
      · exact hxa h1
      · exact hx2 (by simp [h1]))
    have o0 := m1_o x hxa hxbh
    exact ⟨o2.1.trans (o1.1.trans o0.1), o2.2.trans (o1.2.trans o0.2)⟩

/-! ### reverse -/

/-- the body of the main loop of `cstl_dlist_reverse` (same term as in `revLoop`) -/
def revBody (m : M2) (i j : Nat) : M2 :=
  let nx1 := upd m.nx (m.pv i) j
  let pv1 := upd m.pv (nx1 i) j
  let pv2 := upd pv1 (nx1 j) i
  let nx2 := upd nx1 (pv2 j) i
  swapNodes { nx := nx2, pv := pv2 } i j

theorem revLoop_step (f : Nat) (m : M2) (i j : Nat) (hc : i ≠ j ∧ m.nx i ≠ j) :
    revLoop (f + 1) m i j = revLoop f (revBody m i j) ((revBody m i j).nx j) ((revBody m i j).pv i) := by
  rw [revLoop, if_pos hc]; rfl

theorem revLoop_exit (f : Nat) (m : M2) (i j : Nat) (hc : ¬ (i ≠ j ∧ m.nx i ≠ j)) :
    revLoop f m i j = some (m, i, j) := by
  cases f <;> simp only [revLoop, hc, if_false]

/-- one iteration exchanges the two (non-adjacent) end nodes `i`, `j` of the
still unreversed middle part, in both directions -/
theorem revBody_spec {m : M2} {l : Hd} {A M B : List Nat} {i j : Nat}
    (h : IsDL m l (A ++ i :: (M ++ j :: B))) (hM : M ≠ []) :
    IsDL (revBody m i j) l (A ++ j :: (M ++ i :: B))
    ∧ (revBody m i j).nx j = headOr j M ∧ (revBody m i j).pv i = lastOr i M
    ∧ (∀ x, x ∉ l.h :: (A ++ i :: (M ++ j :: B)) →
        (revBody m i j).nx x = m.nx x ∧ (revBody m i j).pv x = m.pv x) := by
  obtain ⟨a, ha⟩ : ∃ a, a = lastOr l.h A := ⟨_, rfl⟩
  obtain ⟨b, hb⟩ : ∃ b, b = headOr j M := ⟨_, rfl⟩
  obtain ⟨c, hc⟩ : ∃ c, c = lastOr i M := ⟨_, rfl⟩
  obtain ⟨d, hd⟩ : ∃ d, d = headOr l.h B := ⟨_, rfl⟩
  have hnd := h.nodup
  have li := h.links
  have h2 : IsDL m l ((A ++ i :: M) ++ j :: B) := by simpa using h
  have lj := h2.links
  have e_pvi : m.pv i = a := by rw [li.2.1, ha]
  have e_nxi : m.nx i = b := by rw [li.1, headOr_append_cons, hb]
  have e_nxj : m.nx j = d := by rw [lj.1, hd]
  have e_pvj : m.pv j = c := by rw [lj.2.1, lastOr_append_cons, hc]
  have ma : a ∈ l.h :: A := ha ▸ lastOr_mem _ _
  have mb : b ∈ M := by
    obtain ⟨x, M', rfl⟩ := List.exists_cons_of_ne_nil hM
    simp [hb]
  have mc : c ∈ M := by
    obtain ⟨x, M', rfl⟩ := List.exists_cons_of_ne_nil hM
    rw [hc]; simpa using lastOr_mem x M'
  have md : d ∈ l.h :: B := hd ▸ headOr_mem _ _
  -- closed forms of the two link fields after the body
  have e_nx : (revBody m i j).nx = upd (upd (upd (upd m.nx a j) c i) i d) j b := by
    have i_a : i ≠ a := by grind
    have j_a : j ≠ a := by grind
    have j_b : j ≠ b := by grind
    have j_d : j ≠ d := by grind
    have i_c : i ≠ c := by grind
    have j_c : j ≠ c := by grind
    simp only [revBody, swapNodes, e_pvi]
    have c1 : upd m.nx a j i = b := by rw [upd_other _ _ _ _ i_a, e_nxi]
    have c2 : upd m.nx a j j = d := by rw [upd_other _ _ _ _ j_a, e_nxj]
    rw [c1, c2]
    have c3 : upd (upd m.pv b j) d i j = c := by
      rw [upd_other _ _ _ _ j_d, upd_other _ _ _ _ j_b, e_pvj]
    rw [c3]
    have c4 : upd (upd m.nx a j) c i j = d := by rw [upd_other _ _ _ _ j_c, c2]
    have c5 : upd (upd m.nx a j) c i i = b := by rw [upd_other _ _ _ _ i_c, c1]
    rw [c4, c5]
  have e_pv : (revBody m i j).pv = upd (upd (upd (upd m.pv b j) d i) i c) j a := by
    have i_a : i ≠ a := by grind
    have j_a : j ≠ a := by grind
    have j_b : j ≠ b := by grind
    have j_d : j ≠ d := by grind
    have i_b : i ≠ b := by grind
    have i_d : i ≠ d := by grind
    simp only [revBody, swapNodes, e_pvi]
    have c1 : upd m.nx a j i = b := by rw [upd_other _ _ _ _ i_a, e_nxi]
    have c2 : upd m.nx a j j = d := by rw [upd_other _ _ _ _ j_a, e_nxj]
    rw [c1, c2]
    have c3 : upd (upd m.pv b j) d i j = c := by
      rw [upd_other _ _ _ _ j_d, upd_other _ _ _ _ j_b, e_pvj]
    have c6 : upd (upd m.pv b j) d i i = a := by
      rw [upd_other _ _ _ _ i_d, upd_other _ _ _ _ i_b, e_pvi]
    rw [c3, c6]
  refine ⟨⟨?_, ?_, ?_, h.hnz, ?_⟩, ?_, ?_, ?_⟩
  · -- forward
    refine Seg_swap_nonadj (f' := (revBody m i j).nx) h.fwd hnd hM ?_ ?_ ?_ ?_ ?_
    · rw [e_nx, ← ha]; simp only [upd]; grind
    · rw [e_nx, ← hb]; simp only [upd]; grind
    · rw [e_nx, ← hc]; simp only [upd]; grind
    · rw [e_nx, ← hd]; simp only [upd]; grind
    · intro x hx h1 h2 h3 h4
      rw [e_nx, ← ha] at *; rw [← hc] at h3
      simp only [upd]; grind
  · -- backward
    have hb' : Seg m.pv l.h (B.reverse ++ j :: (M.reverse ++ i :: A.reverse)) l.h := by
      have := h.bwd; simpa using this
    have hnd' : (l.h :: (B.reverse ++ j :: (M.reverse ++ i :: A.reverse))).Nodup := by
      have := nodup_reverse_cons hnd; simpa using this
    have := Seg_swap_nonadj (f' := (revBody m i j).pv) hb' hnd' (by simpa using hM) ?_ ?_ ?_ ?_ ?_
    · show Seg (revBody m i j).pv l.h (A ++ j :: (M ++ i :: B)).reverse l.h
      simpa using this
    · rw [lastOr_reverse, ← hd, e_pv]; simp only [upd]; grind
    · rw [headOr_reverse, ← hc, e_pv]; simp only [upd]; grind
    · rw [lastOr_reverse, ← hb, e_pv]; simp only [upd]; grind
    · rw [headOr_reverse, ← ha, e_pv]; simp only [upd]; grind
    · intro x hx h1 h2 h3 h4
      rw [lastOr_reverse, ← hd] at h1
      rw [lastOr_reverse, ← hb] at h3
      rw [e_pv]
      simp only [upd]; grind
  · -- nodup of the new sequence
    have hp : (l.h :: (A ++ j :: (M ++ i :: B))).Perm (l.h :: (A ++ i :: (M ++ j :: B))) := by
      refine List.Perm.cons _ (List.Perm.append_left _ ?_)
      have p1 : (j :: (M ++ i :: B)).Perm (j :: i :: (M ++ B)) := (List.perm_middle).cons j
      have p2 : (i :: (M ++ j :: B)).Perm (i :: j :: (M ++ B)) := (List.perm_middle).cons i
      exact p1.trans ((List.Perm.swap i j _).trans p2.symm)
    exact hp.nodup_iff.mpr hnd
  · have := h.size; simp at this ⊢; omega
  · rw [e_nx, ← hb]; simp only [upd]; grind
  · rw [e_pv, ← hc]; simp only [upd]; grind
  · intro x hx
    have x_a : x ≠ a := by grind
    have x_b : x ≠ b := by grind
    have x_c : x ≠ c := by grind
    have x_d : x ≠ d := by grind
    have x_i : x ≠ i := by grind
    have x_j : x ≠ j := by grind
    rw [e_nx, e_pv]
    simp only [upd]; grind

theorem exists_concat_of_ne_nil {α : Type} (l : List α) (h : l ≠ []) : ∃ L b, l = L ++ [b] := by
  induction l with
  | nil => exact absurd rfl h
  | cons x xs ih =>
    cases xs with
    | nil => exact ⟨[], x, rfl⟩
    | cons y ys =>
      obtain ⟨L, b, e⟩ := ih (by simp)
      exact ⟨x :: L, b, by rw [e]; rfl⟩

/-- main loop of `reverse`: with the ring standing as `A ++ X ++ B` and `i`,
`j` the first and last node of the non-empty middle part `X`, the loop ends
with a middle part of at most two nodes, and reversing that remaining middle
part yields `A ++ X.reverse ++ B`. -/
theorem revLoop_spec {l : Hd} (fuel : Nat) {m : M2} {A X B : List Nat}
    (h : IsDL m l (A ++ X ++ B)) (hX : X ≠ []) (hf : X.length ≤ fuel + 1) :
    ∃ m' A' X' B', revLoop fuel m (headOr 0 X) (lastOr 0 X) = some (m', headOr 0 X', lastOr 0 X')
      ∧ IsDL m' l (A' ++ X' ++ B') ∧ X' ≠ [] ∧ X'.length ≤ 2
      ∧ A' ++ X'.reverse ++ B' = A ++ X.reverse ++ B
      ∧ (∀ x, x ∉ l.h :: (A ++ X ++ B) → m'.nx x = m.nx x ∧ m'.pv x = m.pv x) := by
  induction fuel generalizing m A X B with
  | zero =>
    match X, hX, hf with
    | [i], _, _ =>
      exact ⟨m, A, [i], B, revLoop_exit _ _ _ _ (by simp), h, by simp, by simp, rfl, fun _ _ => ⟨rfl, rfl⟩⟩
  | succ f ih =>
    match X, hX with
    | [i], _ =>
      exact ⟨m, A, [i], B, revLoop_exit _ _ _ _ (by simp), h, by simp, by simp, rfl, fun _ _ => ⟨rfl, rfl⟩⟩
    | [i, j], _ =>
      have h' : IsDL m l (A ++ i :: j :: B) := by simpa using h
      have : m.nx i = j := by have := h'.links.1; simpa using this
      exact ⟨m, A, [i, j], B, revLoop_exit _ _ _ _ (by simp [this]), h, by simp, by simp, rfl,
        fun _ _ => ⟨rfl, rfl⟩⟩
    | i :: y :: z :: R, _ =>
      obtain ⟨M, j, e⟩ := exists_concat_of_ne_nil (y :: z :: R) (by simp)
      have hM : M ≠ [] := by
        intro e2; rw [e2] at e; simp at e
      rw [e] at h hf ⊢
      have h' : IsDL m l (A ++ i :: (M ++ j :: B)) := by simpa using h
      have hnd := h'.nodup
      have hij : i ≠ j := by grind
      have hnx : m.nx i ≠ j := by
        have := h'.links.1
        rw [headOr_append_cons] at this
        rw [this]
        obtain ⟨b, M', rfl⟩ := List.exists_cons_of_ne_nil hM
        simp only [headOr_cons]
        grind
      obtain ⟨s1, s2, s3, s4⟩ := revBody_spec h' hM
      have hfirst : headOr 0 (i :: (M ++ [j])) = i := rfl
      have hlast : lastOr 0 (i :: (M ++ [j])) = j := by simp [lastOr_append_singleton]
      have hfirstM : headOr j M = headOr 0 M := by
        obtain ⟨b, M', rfl⟩ := List.exists_cons_of_ne_nil hM; rfl
      have hlastM : lastOr i M = lastOr 0 M := by
        obtain ⟨b, M', rfl⟩ := List.exists_cons_of_ne_nil hM; rfl
      have s1' : IsDL (revBody m i j) l ((A ++ [j]) ++ M ++ (i :: B)) := by simpa using s1
      obtain ⟨m', A', X', B', r1, r2, r3, r4, r5, r6⟩ := ih (m := revBody m i j) (A := A ++ [j]) (X := M) (B := i :: B)
        s1' hM (by simp at hf; omega)
      refine ⟨m', A', X', B', ?_, r2, r3, r4, ?_, ?_⟩
      · rw [hfirst, hlast, revLoop_step f m i j ⟨hij, hnx⟩, s2, s3, hfirstM, hlastM]
        exact r1
      · rw [r5]; simp
      · intro x hx
        have hx1 : x ∉ l.h :: (A ++ [j] ++ M ++ i :: B) := by
          intro hm; apply hx
          simp only [List.mem_cons, List.mem_append, List.not_mem_nil, or_false] at hm ⊢
          grind
        have hx2 : x ∉ l.h :: (A ++ i :: (M ++ j :: B)) := by
          intro hm; apply hx
          simp only [List.mem_cons, List.mem_append, List.not_mem_nil, or_false] at hm ⊢
          grind
        exact ⟨(r6 x hx1).1.trans (s4 x hx2).1, (r6 x hx1).2.trans (s4 x hx2).2⟩

/-- memory after the adjacent-pair epilogue of `reverse` (same term as in `reverse`) -/
def revTailMem (m : M2) (i j : Nat) : M2 :=
  let nx1 := upd m.nx (m.pv i) j
  let pv1 := upd m.pv (nx1 j) i
  let nx2 := upd nx1 i (nx1 j)
  let nx3 := upd nx2 j i
  let pv2 := upd pv1 j (pv1 i)
  let pv3 := upd pv2 i j
  { nx := nx3, pv := pv3 }

/-- the adjacent-pair epilogue of `reverse` -/
theorem revTail_adj {m : M2} {l : Hd} {A B : List Nat} {i j : Nat} (h : IsDL m l (A ++ i :: j :: B)) :
    let nx1 := upd m.nx (m.pv i) j
    let pv1 := upd m.pv (nx1 j) i
    let nx2 := upd nx1 i (nx1 j)
    let nx3 := upd nx2 j i
    let pv2 := upd pv1 j (pv1 i)
    let pv3 := upd pv2 i j
    IsDL { nx := nx3, pv := pv3 } l (A ++ j :: i :: B)
    ∧ (∀ x, x ∉ l.h :: (A ++ i :: j :: B) → nx3 x = m.nx x ∧ pv3 x = m.pv x) := by
  intro nx1 pv1 nx2 nx3 pv2 pv3
  obtain ⟨a, ha⟩ : ∃ a, a = lastOr l.h A := ⟨_, rfl⟩
  obtain ⟨d, hd⟩ : ∃ d, d = headOr l.h B := ⟨_, rfl⟩
  have hnd := h.nodup
  have li := h.links
  have h2 : IsDL m l ((A ++ [i]) ++ j :: B) := by simpa using h
  have lj := h2.links
  have e_pvi : m.pv i = a := by rw [li.2.1, ha]
  have e_nxj : m.nx j = d := by rw [lj.1, hd]
  have ma : a ∈ l.h :: A := ha ▸ lastOr_mem _ _
  have md : d ∈ l.h :: B := hd ▸ headOr_mem _ _
  have i_a : i ≠ a := by grind
  have j_a : j ≠ a := by grind
  have i_d : i ≠ d := by grind
  have j_d : j ≠ d := by grind
  have i_j : i ≠ j := by grind
  have e_nx : nx3 = upd (upd (upd m.nx a j) i d) j i := by
    show upd (upd (upd m.nx (m.pv i) j) i (upd m.nx (m.pv i) j j)) j i = _
    rw [e_pvi, upd_other _ _ _ _ j_a, e_nxj]
  have e_pv : pv3 = upd (upd (upd m.pv d i) j a) i j := by
    show upd (upd (upd m.pv (upd m.nx (m.pv i) j j) i) j (upd m.pv (upd m.nx (m.pv i) j j) i i)) i j = _
    rw [e_pvi, upd_other _ _ _ _ j_a, e_nxj, upd_other _ _ _ _ i_d, e_pvi]
  refine ⟨⟨?_, ?_, ?_, h.hnz, ?_⟩, ?_⟩
  · refine Seg_swap_adj (f' := nx3) h.fwd hnd ?_ ?_ ?_ ?_
    · rw [e_nx, ← ha]; simp only [upd]; grind
    · rw [e_nx]; simp only [upd]; grind
    · rw [e_nx, ← hd]; simp only [upd]; grind
    · intro x hx h1 h2 h3
      rw [← ha] at h1
      rw [e_nx]; simp only [upd]; grind
  · have hb' : Seg m.pv l.h (B.reverse ++ j :: i :: A.reverse) l.h := by
      have := h.bwd; simpa using this
    have hnd' : (l.h :: (B.reverse ++ j :: i :: A.reverse)).Nodup := by
      have := nodup_reverse_cons hnd; simpa using this
    have := Seg_swap_adj (f' := pv3) hb' hnd' ?_ ?_ ?_ ?_
    · show Seg pv3 l.h (A ++ j :: i :: B).reverse l.h
      simpa using this
    · rw [lastOr_reverse, ← hd, e_pv]; simp only [upd]; grind
    · rw [e_pv]; simp only [upd]; grind
    · rw [headOr_reverse, ← ha, e_pv]; simp only [upd]; grind
    · intro x hx h1 h2 h3
      rw [lastOr_reverse, ← hd] at h1
      rw [e_pv]; simp only [upd]; grind
  · have hp : (l.h :: (A ++ j :: i :: B)).Perm (l.h :: (A ++ i :: j :: B)) :=
      List.Perm.cons _ (List.Perm.append_left _ (List.Perm.swap i j B))
    exact hp.nodup_iff.mpr hnd
  · have := h.size; simp at this ⊢; omega
  · intro x hx
    have x_a : x ≠ a := by grind
    have x_d : x ≠ d := by grind
    have x_i : x ≠ i := by grind
    have x_j : x ≠ j := by grind
    rw [e_nx, e_pv]; simp only [upd]; grind

/-- **reverse**: the loop finishes (never `none`), and afterwards the forward
traversal is the mirror image of the old one and the backward traversal the
old forward one; nothing outside the list is written. -/
theorem reverse_spec {m : M2} {l : Hd} {xs : List Nat} (h : IsDL m l xs) :
    ∃ m', reverse m l = some m' ∧ IsDL m' l xs.reverse
      ∧ (∀ x, x ∉ l.h :: xs → m'.nx x = m.nx x ∧ m'.pv x = m.pv x) := by
  by_cases hx : xs = []
  · subst hx
    have hn : m.nx l.h = l.h := h.fwd
    have hp : m.pv l.h = l.h := by simpa using h.bwd
    have e1 : revLoop (l.size + 1) m (m.nx l.h) (m.pv l.h) = some (m, l.h, l.h) := by
      rw [hn, hp]; exact revLoop_exit _ _ _ _ (by simp)
    refine ⟨_, by simp only [reverse, e1]; rw [if_pos hn], ⟨?_, ?_, by simp, h.hnz, h.size⟩, ?_⟩
    · show upd _ l.h l.h l.h = l.h
      exact upd_same _ _ _
    · show upd _ l.h l.h l.h = l.h
      exact upd_same _ _ _
    · intro x hx
      have hxh : x ≠ l.h := by simpa using hx
      simp only [hp, upd_same]
      constructor
      · rw [upd_other _ _ _ _ hxh, upd_other _ _ _ _ hxh, upd_other _ _ _ _ hxh]
      · rw [upd_other _ _ _ _ hxh, upd_other _ _ _ _ hxh, upd_other _ _ _ _ hxh]
  · have hn : m.nx l.h = headOr 0 xs := by
      rw [h.head_links.1]; obtain ⟨b, M', rfl⟩ := List.exists_cons_of_ne_nil hx; rfl
    have hp : m.pv l.h = lastOr 0 xs := by
      rw [h.head_links.2]; obtain ⟨b, M', rfl⟩ := List.exists_cons_of_ne_nil hx; rfl
    obtain ⟨m', A', X', B', r1, r2, r3, r4, r5, r6⟩ :=
      revLoop_spec (l := l) (l.size + 1) (A := []) (X := xs) (B := []) (by simpa using h) hx
        (by rw [h.size]; omega)
    have r5' : A' ++ X'.reverse ++ B' = xs.reverse := by simpa using r5
    have r6' : ∀ x, x ∉ l.h :: xs → m'.nx x = m.nx x ∧ m'.pv x = m.pv x := by
      intro x hx; exact r6 x (by simpa using hx)
    match X', r3, r4 with
    | [i], _, _ =>
      have h' : IsDL m' l (A' ++ i :: B') := by simpa using r2
      have hne : m'.nx i ≠ i := by
        have := h'.links.1
        rw [this]
        have hm := headOr_mem l.h B'
        have hnd := h'.nodup
        grind
      refine ⟨m', ?_, ?_, r6'⟩
      · simp only [reverse, hn, hp, r1]
        simp [hne]
      · rw [← r5']; simpa using r2
    | [i, j], _, _ =>
      have h' : IsDL m' l (A' ++ i :: j :: B') := by simpa using r2
      have he : m'.nx i = j := by have := h'.links.1; simpa using this
      obtain ⟨t1, t2⟩ := revTail_adj h'
      refine ⟨revTailMem m' i j, ?_, ?_, ?_⟩
      · simp only [reverse, hn, hp, r1]
        simp only [headOr_cons, lastOr_cons, lastOr_nil, he, if_true]
        rfl
      · rw [← r5']
        have t1' : IsDL (revTailMem m' i j) l (A' ++ j :: i :: B') := t1
        simpa using t1'
      · intro x hx
        have hx2 : x ∉ l.h :: (A' ++ i :: j :: B') := by
          intro hm; apply hx
          have : x ∈ l.h :: xs.reverse := by
            rw [← r5']
            simp only [List.mem_cons, List.mem_append, List.reverse_cons, List.reverse_nil, List.nil_append,
              List.not_mem_nil, or_false] at hm ⊢
            grind
          simpa using this
        exact ⟨(t2 x hx2).1.trans (r6' x hx).1, (t2 x hx2).2.trans (r6' x hx).2⟩

/-! ## Histories: any operation sequence over any number of lists -/

structure Abs (n : Nat) (ha : Nat → Nat) (s : St) (q : Nat → List Nat) : Prop where
  sl : ∀ i, i < n → IsDL s.m (s.hd i) (q i)
  hh : ∀ i, i < n → (s.hd i).h = ha i
  dis : ∀ i j, i < n → j < n → i ≠ j → ∀ x ∈ ha i :: q i, x ∉ ha j :: q j

theorem insAfterL_spec (b e : Nat) (pre post : List Nat) (hb : b ∉ pre) :
    insAfterL b e (pre ++ b :: post) = pre ++ b :: e :: post := by
  induction pre with
  | nil => simp [insAfterL]
  | cons x pre ih =>
    have hx : x ≠ b := fun e => hb (by simp [e])
    simp [insAfterL, hx, ih (fun h => hb (by simp [h]))]

theorem erase_mid (e : Nat) (pre post : List Nat) (hb : e ∉ pre) :
    (pre ++ e :: post).erase e = pre ++ post := by
  induction pre with
  | nil => simp
  | cons x pre ih =>
    have hx : x ≠ e := fun h => hb (by simp [h])
    have := ih (fun h => hb (by simp [h]))
    simp [hx, this]

theorem Abs.update1 {n : Nat} {ha : Nat → Nat} {s : St} {q : Nat → List Nat} (A : Abs n ha s q)
    {l : Nat} (hl : l < n) {m' : M2} {h' : Hd} {xs' : List Nat}
    (hsl : IsDL m' h' xs') (hh : h'.h = ha l)
    (hfr : ∀ j, j < n → j ≠ l → ∀ a ∈ ha j :: q j, m'.nx a = s.m.nx a ∧ m'.pv a = s.m.pv a)
    (hdis : ∀ j, j < n → j ≠ l → ∀ x ∈ xs', x ∉ ha j :: q j) :
    Abs n ha { m := m', hd := setHd s.hd l h' } (setSeq q l xs') := by
  refine ⟨?_, ?_, ?_⟩
  · intro i hi
    by_cases e : i = l
    · subst e; simpa [setHd, setSeq] using hsl
    · simp only [setHd, setSeq, e, if_false]
      refine (A.sl i hi).transfer ?_ ?_
      · intro a ha'; rw [A.hh i hi] at ha'; exact (hfr i hi e a ha').1
      · intro a ha'; rw [A.hh i hi] at ha'; exact (hfr i hi e a ha').2
  · intro i hi
    by_cases e : i = l
    · subst e; simpa [setHd] using hh
    · simpa [setHd, e] using A.hh i hi
  · intro i j hi hj hij x hx
    by_cases ei : i = l
    · subst ei
      have ej : j ≠ i := fun e => hij e.symm
      simp only [setSeq, if_true, ej, if_false] at hx ⊢
      rcases List.mem_cons.mp hx with rfl | hx
      · exact A.dis i j hi hj hij _ (by simp)
      · exact hdis j hj ej x hx
    · by_cases ej : j = l
      · subst ej
        simp only [setSeq, ei, if_false, if_true] at hx ⊢
        intro hm
        rcases List.mem_cons.mp hm with rfl | hm
        · exact A.dis i j hi hj hij _ hx (by simp)
        · exact hdis i hi ei x hm hx
      · simp only [setSeq, ei, ej, if_false] at hx ⊢
        exact A.dis i j hi hj hij x hx

theorem Abs.update2 {n : Nat} {ha : Nat → Nat} {s : St} {q : Nat → List Nat} (A : Abs n ha s q)
    {a b : Nat} (hla : a < n) (hlb : b < n) (hab : a ≠ b) {m' : M2} {ha' hb' : Hd} {xs' ys' : List Nat}
    (hsa : IsDL m' ha' xs') (hsb : IsDL m' hb' ys') (hha : ha'.h = ha a) (hhb : hb'.h = ha b)
    (hfr : ∀ j, j < n → j ≠ a → j ≠ b → ∀ x ∈ ha j :: q j, m'.nx x = s.m.nx x ∧ m'.pv x = s.m.pv x)
    (hsub : ∀ x, x ∈ xs' ++ ys' → x ∈ q a ++ q b)
    (hxy : ∀ x ∈ xs', x ∉ ys') :
    Abs n ha { m := m', hd := setHd (setHd s.hd a ha') b hb' } (setSeq (setSeq q a xs') b ys') := by
  refine ⟨?_, ?_, ?_⟩
  · intro i hi
    by_cases eb : i = b
    · subst eb; simpa [setHd, setSeq] using hsb
    · by_cases ea : i = a
      · subst ea; simpa [setHd, setSeq, eb] using hsa
      · simp only [setHd, setSeq, ea, eb, if_false]
        refine (A.sl i hi).transfer ?_ ?_
        · intro x hx; rw [A.hh i hi] at hx; exact (hfr i hi ea eb x hx).1
        · intro x hx; rw [A.hh i hi] at hx; exact (hfr i hi ea eb x hx).2
  · intro i hi
    by_cases eb : i = b
    · subst eb; simpa [setHd] using hhb
    · by_cases ea : i = a
      · subst ea; simpa [setHd, eb] using hha
      · simpa [setHd, ea, eb] using A.hh i hi
  · have key : ∀ i, i < n → ∀ x ∈ ha i :: (setSeq (setSeq q a xs') b ys') i,
        (x = ha i) ∨ (i = a ∧ x ∈ xs') ∨ (i = b ∧ x ∈ ys') ∨ (i ≠ a ∧ i ≠ b ∧ x ∈ q i) := by
      intro i hi x hx
      rcases List.mem_cons.mp hx with h | h
      · exact Or.inl h
      · by_cases eb : i = b
        · subst eb; simp only [setSeq, if_true] at h; exact Or.inr (Or.inr (Or.inl ⟨rfl, h⟩))
        · by_cases ea : i = a
          · subst ea; simp only [setSeq, eb, if_false, if_true] at h; exact Or.inr (Or.inl ⟨rfl, h⟩)
          · simp only [setSeq, ea, eb, if_false] at h; exact Or.inr (Or.inr (Or.inr ⟨ea, eb, h⟩))
    have D1 : ∀ i j, i < n → j < n → i ≠ j → ha i ≠ ha j :=
      fun i j hi hj hij e => A.dis i j hi hj hij (ha i) (by simp) (by simp [e])
    have D2 : ∀ i j, i < n → j < n → i ≠ j → ∀ x, x ∈ q i → x ≠ ha j :=
      fun i j hi hj hij x hx e => A.dis i j hi hj hij x (by simp [hx]) (by simp [e])
    have D3 : ∀ i j, i < n → j < n → i ≠ j → ∀ x, x ∈ q i → x ∉ q j :=
      fun i j hi hj hij x hx hm => A.dis i j hi hj hij x (by simp [hx]) (by simp [hm])
    have D4 : ∀ i, i < n → ha i ∉ q i := by
      intro i hi
      have := (A.sl i hi).nodup; rw [A.hh i hi] at this
      exact (List.nodup_cons.mp this).1
    have S : ∀ x, (x ∈ xs' ∨ x ∈ ys') → (x ∈ q a ∨ x ∈ q b) := by
      intro x hx
      exact List.mem_append.mp (hsub x (List.mem_append.mpr hx))
    intro i j hi hj hij x hx hm
    rcases key i hi x hx with h1 | ⟨ea, h1⟩ | ⟨eb, h1⟩ | ⟨ia, ib, h1⟩ <;>
      rcases key j hj x hm with h2 | ⟨ea2, h2⟩ | ⟨eb2, h2⟩ | ⟨ja, jb, h2⟩ <;> grind

theorem mem_split_nodup {b : Nat} {xs : List Nat} (hb : b ∈ xs) (hnd : xs.Nodup) :
    ∃ pre post, xs = pre ++ b :: post ∧ b ∉ pre := by
  obtain ⟨pre, post, hq⟩ := List.append_of_mem hb
  refine ⟨pre, post, hq, ?_⟩
  rw [hq] at hnd
  intro hm
  exact (List.nodup_append.mp hnd).2.2 b hm b (by simp) rfl

/-- every operation inside its documented domain refines the reference step -/
theorem step_refines {n : Nat} {ha : Nat → Nat} {s : St} {q : Nat → List Nat} (A : Abs n ha s q)
    (op : Op) (hen : Enabled n ha q op) :
    ∃ s', step s op = some (s', (refStep q op).2) ∧ Abs n ha s' (refStep q op).1 := by
  -- frame for a list j other than l: nodes of j are not nodes of l
  have other : ∀ {l j : Nat}, l < n → j < n → j ≠ l → ∀ a ∈ ha j :: q j, a ∉ ha l :: q l :=
    fun hl hj hjl a ham => A.dis _ _ hj hl hjl a ham
  have fresh_notin : ∀ {e : Nat}, (∀ j, j < n → e ≠ ha j ∧ e ∉ q j) → ∀ j, j < n → e ∉ ha j :: q j := by
    intro e hf j hj hm
    rcases List.mem_cons.mp hm with h | h
    · exact (hf j hj).1 h
    · exact (hf j hj).2 h
  cases op with
  | pushFront l e =>
    obtain ⟨hl, hez, hfresh⟩ := hen
    have hsl := A.sl l hl
    have he : e ∉ (s.hd l).h :: q l := by rw [A.hh l hl]; exact fresh_notin hfresh l hl
    obtain ⟨h1, h2, h3⟩ := pushFront_spec hsl he hez
    refine ⟨_, rfl, A.update1 hl h1 (A.hh l hl) ?_ ?_⟩
    · intro j hj hjl a ham
      have hn := other hl hj hjl a ham
      have hae : a ≠ e := fun e2 => fresh_notin hfresh j hj (e2 ▸ ham)
      refine ⟨h2 a (fun e2 => hn (by rw [e2, A.hh l hl]; simp)) hae, h3 a (fun e2 => hn ?_) hae⟩
      rw [e2, A.hh l hl]; exact headOr_mem _ _
    · intro j hj hjl x hx hm
      rcases List.mem_cons.mp hx with rfl | hx
      · exact fresh_notin hfresh j hj hm
      · exact A.dis l j hl hj (Ne.symm hjl) x (by simp [hx]) hm
  | pushBack l e =>
    obtain ⟨hl, hez, hfresh⟩ := hen
    have hsl := A.sl l hl
    have he : e ∉ (s.hd l).h :: q l := by rw [A.hh l hl]; exact fresh_notin hfresh l hl
    obtain ⟨h1, h2, h3⟩ := pushBack_spec hsl he hez
    refine ⟨_, rfl, A.update1 hl h1 (A.hh l hl) ?_ ?_⟩
    · intro j hj hjl a ham
      have hn := other hl hj hjl a ham
      have hae : a ≠ e := fun e2 => fresh_notin hfresh j hj (e2 ▸ ham)
      refine ⟨h2 a (fun e2 => hn ?_) hae, h3 a (fun e2 => hn (by rw [e2, A.hh l hl]; simp)) hae⟩
      rw [e2, A.hh l hl]; exact lastOr_mem _ _
    · intro j hj hjl x hx hm
      rcases List.mem_append.mp hx with hx | hx
      · exact A.dis l j hl hj (Ne.symm hjl) x (by simp [hx]) hm
      · have : x = e := by simpa using hx
        subst this
        exact fresh_notin hfresh j hj hm
  | insert l b e =>
    obtain ⟨hl, hb, hez, hfresh⟩ := hen
    have hsl := A.sl l hl
    obtain ⟨pre, post, hq, hbpre⟩ := mem_split_nodup hb (List.nodup_cons.mp hsl.nodup).2
    have he : e ∉ (s.hd l).h :: ((pre ++ [b]) ++ post) := by
      rw [A.hh l hl]
      have := fresh_notin hfresh l hl
      rw [hq] at this; simpa using this
    have hsl' : IsDL s.m (s.hd l) ((pre ++ [b]) ++ post) := by simpa [hq] using hsl
    obtain ⟨h1, h2, h3⟩ := insert_spec (p := b) hsl' (by rw [lastOr_append_singleton]) he hez
    have href : (refStep q (Op.insert l b e)) = (setSeq q l ((pre ++ [b]) ++ e :: post), Res.unit) := by
      simp [refStep, hq, insAfterL_spec b e pre post hbpre]
    rw [href]
    refine ⟨_, rfl, A.update1 hl h1 (A.hh l hl) ?_ ?_⟩
    · intro j hj hjl a ham
      have hn := other hl hj hjl a ham
      have hae : a ≠ e := fun e2 => fresh_notin hfresh j hj (e2 ▸ ham)
      refine ⟨h2 a (fun e2 => hn (by rw [e2]; exact List.mem_cons_of_mem _ hb)) hae, h3 a (fun e2 => hn ?_) hae⟩
      rw [e2, A.hh l hl]
      have := headOr_mem (ha l) post
      rw [hq]
      rcases List.mem_cons.mp this with h4 | h4
      · simp [h4]
      · simp [h4]
    · intro j hj hjl x hx hm
      have : x = e ∨ x ∈ q l := by
        rw [hq]; simp only [List.mem_append, List.mem_cons, List.not_mem_nil, or_false] at hx ⊢
        grind
      rcases this with rfl | hx
      · exact fresh_notin hfresh j hj hm
      · exact A.dis l j hl hj (Ne.symm hjl) x (by simp [hx]) hm
  | erase l e =>
    obtain ⟨hl, he⟩ := hen
    have hsl := A.sl l hl
    obtain ⟨pre, post, hq, hepre⟩ := mem_split_nodup he (List.nodup_cons.mp hsl.nodup).2
    have hsl' : IsDL s.m (s.hd l) (pre ++ e :: post) := by simpa [hq] using hsl
    obtain ⟨h1, h2, h3⟩ := erase_spec hsl'
    have href : (refStep q (Op.erase l e)) = (setSeq q l (pre ++ post), Res.unit) := by
      simp [refStep, hq, erase_mid e pre post hepre]
    rw [href]
    refine ⟨_, rfl, A.update1 hl h1 (A.hh l hl) ?_ ?_⟩
    · intro j hj hjl a ham
      have hn := other hl hj hjl a ham
      refine ⟨h2 a (fun e2 => hn ?_), h3 a (fun e2 => hn ?_)⟩
      · rw [e2, A.hh l hl, hq]
        have := lastOr_mem (ha l) pre
        rcases List.mem_cons.mp this with h4 | h4
        · simp [h4]
        · simp [h4]
      · rw [e2, A.hh l hl, hq]
        have := headOr_mem (ha l) post
        rcases List.mem_cons.mp this with h4 | h4
        · simp [h4]
        · simp [h4]
    · intro j hj hjl y hy hm
      have : y ∈ q l := by rw [hq]; simp at hy ⊢; grind
      exact A.dis l j hl hj (Ne.symm hjl) y (by simp [this]) hm
  | popFront l =>
    have hl : l < n := hen
    have hsl := A.sl l hl
    cases hq : q l with
    | nil =>
      rw [hq] at hsl
      have href : refStep q (Op.popFront l) = (q, Res.ptr none) := by simp [refStep, hq]
      rw [href]
      refine ⟨{ m := s.m, hd := setHd s.hd l (s.hd l) }, by simp [step, (pop_empty hsl).1], ?_⟩
      have : setHd s.hd l (s.hd l) = s.hd := by funext j; simp [setHd]; intro e; rw [e]
      rw [this]; exact A
    | cons x xs =>
      rw [hq] at hsl
      obtain ⟨h0, h1⟩ := popFront_spec hsl
      obtain ⟨_, h2, h3⟩ := erase_spec (pre := []) (post := xs) hsl
      have href : refStep q (Op.popFront l) = (setSeq q l xs, Res.ptr (some x)) := by simp [refStep, hq]
      rw [href]
      refine ⟨_, by simp [step, h0], A.update1 hl h1 (A.hh l hl) ?_ ?_⟩
      · intro j hj hjl a ham
        have hn := other hl hj hjl a ham
        refine ⟨h2 a (fun e2 => hn (by rw [e2, A.hh l hl]; simp)), h3 a (fun e2 => hn ?_)⟩
        rw [e2, A.hh l hl, hq]
        have := headOr_mem (ha l) xs
        rcases List.mem_cons.mp this with h4 | h4
        · simp [h4]
        · simp [h4]
      · intro j hj hjl y hy hm
        exact A.dis l j hl hj (Ne.symm hjl) y (by simp [hq, hy]) hm
  | popBack l =>
    have hl : l < n := hen
    have hsl := A.sl l hl
    by_cases hq : q l = []
    · rw [hq] at hsl
      have href : refStep q (Op.popBack l) = (q, Res.ptr none) := by simp [refStep, hq]
      rw [href]
      refine ⟨{ m := s.m, hd := setHd s.hd l (s.hd l) }, by simp [step, (pop_empty hsl).2], ?_⟩
      have : setHd s.hd l (s.hd l) = s.hd := by funext j; simp [setHd]; intro e; rw [e]
      rw [this]; exact A
    · obtain ⟨ini, y, hq'⟩ := exists_concat_of_ne_nil (q l) hq
      rw [hq'] at hsl
      obtain ⟨h0, h1⟩ := popBack_spec hsl
      obtain ⟨_, h2, h3⟩ := erase_spec (pre := ini) (post := []) hsl
      have href : refStep q (Op.popBack l) = (setSeq q l ini, Res.ptr (some y)) := by simp [refStep, hq']
      rw [href]
      refine ⟨_, by simp [step, h0], A.update1 hl h1 (A.hh l hl) ?_ ?_⟩
      · intro j hj hjl a ham
        have hn := other hl hj hjl a ham
        refine ⟨h2 a (fun e2 => hn ?_), h3 a (fun e2 => hn (by rw [e2, A.hh l hl]; simp))⟩
        rw [e2, A.hh l hl, hq']
        have := lastOr_mem (ha l) ini
        rcases List.mem_cons.mp this with h4 | h4
        · simp [h4]
        · simp [h4]
      · intro j hj hjl z hz hm
        exact A.dis l j hl hj (Ne.symm hjl) z (by simp [hq', hz]) hm
  | reverse l =>
    have hl : l < n := hen
    have hsl := A.sl l hl
    obtain ⟨m', h0, h1, h2⟩ := reverse_spec hsl
    have hhd : setHd s.hd l (s.hd l) = s.hd := by funext j; simp [setHd]; intro e; rw [e]
    have := A.update1 hl h1 (A.hh l hl) (m' := m') ?_ ?_
    · rw [hhd] at this
      exact ⟨_, by simp [step, h0, refStep], this⟩
    · intro j hj hjl a ham
      have hn := other hl hj hjl a ham
      exact h2 a (by rw [A.hh l hl]; exact hn)
    · intro j hj hjl y hy hm
      exact A.dis l j hl hj (Ne.symm hjl) y (by simp at hy; simp [hy]) hm
  | sort l key =>
    have hl : l < n := hen
    have hsl := A.sl l hl
    obtain ⟨h1, hperm, _, h2⟩ := sort_spec hsl key
    have hcount : (s.hd l).size = (q l).length := hsl.size
    have href : refStep q (Op.sort l key)
        = (setSeq q l (if (s.hd l).size > 1 then msort key (q l).length (q l) else q l), Res.unit) := by
      simp [refStep, hcount]
    rw [href]
    have hh : (sort s.m (s.hd l) key).2.h = ha l := by
      simp only [sort]; split <;> simpa using A.hh l hl
    refine ⟨_, rfl, A.update1 hl h1 hh ?_ ?_⟩
    · intro j hj hjl a ham
      have hn := other hl hj hjl a ham
      exact h2 a (by rw [A.hh l hl]; exact hn)
    · intro j hj hjl y hy hm
      exact A.dis l j hl hj (Ne.symm hjl) y (by simp [hperm.mem_iff.mp hy]) hm
  | concat d sr =>
    obtain ⟨hd, hs, hne⟩ := hen
    have hdis : Disjoint (s.hd d) (q d) (s.hd sr) (q sr) := by
      intro x hx
      rw [A.hh d hd] at hx; rw [A.hh sr hs]
      exact A.dis d sr hd hs hne x hx
    obtain ⟨h1, h2, hh1, hh2, h3⟩ := concat_spec (A.sl d hd) (A.sl sr hs) hdis
    refine ⟨_, rfl, A.update2 hd hs hne h1 h2 (hh1.trans (A.hh d hd)) (hh2.trans (A.hh sr hs)) ?_
      (by intro x hx; simpa using hx) (by simp)⟩
    intro j hj jd js x hx
    exact h3 x (by rw [A.hh d hd]; exact A.dis j d hj hd jd x hx)
      (by rw [A.hh sr hs]; exact A.dis j sr hj hs js x hx)
  | swap a b =>
    obtain ⟨hla, hlb, hne⟩ := hen
    have hdis : Disjoint (s.hd a) (q a) (s.hd b) (q b) := by
      intro x hx
      rw [A.hh a hla] at hx; rw [A.hh b hlb]
      exact A.dis a b hla hlb hne x hx
    obtain ⟨h1, h2, hh1, hh2, h3⟩ := swap_spec (A.sl a hla) (A.sl b hlb) hdis
    refine ⟨_, rfl, A.update2 hla hlb hne h1 h2 (hh1.trans (A.hh a hla)) (hh2.trans (A.hh b hlb)) ?_ ?_ ?_⟩
    · intro j hj ja jb x hx
      exact h3 x (by rw [A.hh a hla]; exact A.dis j a hj hla ja x hx)
        (by rw [A.hh b hlb]; exact A.dis j b hj hlb jb x hx)
    · intro x hx
      rcases List.mem_append.mp hx with h | h
      · exact List.mem_append_right _ h
      · exact List.mem_append_left _ h
    · intro x hx hm
      exact A.dis a b hla hlb hne x (by simp [hm]) (by simp [hx])
  | clear l poison =>
    have hl : l < n := hen
    have hsl := A.sl l hl
    obtain ⟨h0, h1, hh, _, h3⟩ := clear_spec hsl poison
    refine ⟨_, by simp [step, refStep, h0], A.update1 hl h1 (hh.trans (A.hh l hl)) ?_ (by simp)⟩
    intro j hj hjl a ham
    have hn := other hl hj hjl a ham
    exact h3 a (by rw [A.hh l hl]; exact hn)
  | front l =>
    have hl : l < n := hen
    exact ⟨s, by simp [step, refStep, front_spec (A.sl l hl)], A⟩
  | back l =>
    have hl : l < n := hen
    exact ⟨s, by simp [step, refStep, back_spec (A.sl l hl)], A⟩
  | foreach l fwd visit poison =>
    have hl : l < n := hen
    have hsl := A.sl l hl
    obtain ⟨f1, f2, f3, f4, f5⟩ := foreach_spec hsl fwd visit poison
    refine ⟨_, by simp [step, refStep, f1, f2], A.update1 hl f3 (f4.trans (A.hh l hl)) ?_ ?_⟩
    · intro j hj hjl a ham
      have hn := other hl hj hjl a ham
      exact f5 a (by rw [A.hh l hl]; exact hn)
    · intro j hj hjl y hy hm
      have : y ∈ q l := by
        cases fwd with
        | true => exact refForeach_sub visit _ 0 y (by simpa using hy)
        | false =>
          have := refForeach_sub visit _ 0 y (by simpa using hy)
          simpa using this
      exact A.dis l j hl hj (Ne.symm hjl) y (by simp [this]) hm
  | find l fwd key probe =>
    have hl : l < n := hen
    exact ⟨s, by simp [step, refStep, find_spec (A.sl l hl)], A⟩

/-- **C12, history form.**  Any operation sequence inside the documented
domain over any number of lists: the link-level model returns exactly the
reference results and ends in a state in which every list, read forward, is its
reference sequence and, read backward, the mirror image. -/
theorem run_refines {n : Nat} {ha : Nat → Nat} (ops : List Op) {s : St} {q : Nat → List Nat}
    (A : Abs n ha s q) (hen : EnabledRun n ha q ops) :
    ∃ s', run s ops = some (s', (refRun q ops).2) ∧ Abs n ha s' (refRun q ops).1 := by
  induction ops generalizing s q with
  | nil => exact ⟨s, rfl, A⟩
  | cons op ops ih =>
    obtain ⟨h1, h2⟩ := hen
    obtain ⟨s1, e1, A1⟩ := step_refines A op h1
    obtain ⟨s2, e2, A2⟩ := ih A1 h2
    exact ⟨s2, by simp [run, e1, e2, refRun], A2⟩

theorem Abs_init (n : Nat) (ha : Nat → Nat) (hnz : ∀ i, i < n → ha i ≠ 0)
    (hinj : ∀ i j, i < n → j < n → i ≠ j → ha i ≠ ha j) :
    Abs n ha { m := { nx := fun a => a, pv := fun a => a }, hd := fun i => { h := ha i, size := 0 } }
      (fun _ => []) :=
  ⟨fun i hi => ⟨rfl, rfl, by simp, hnz i hi, rfl⟩, fun _ _ => rfl,
   fun i j hi hj hij x hx hm => by
     simp only [List.mem_cons, List.not_mem_nil, or_false] at hx hm
     exact hinj i j hi hj hij (hx ▸ hm)⟩

/-! Non-vacuity: a concrete three-element list satisfies `IsDL`. -/
example :
    let s0 := init { nx := fun _ => 0, pv := fun _ => 0 } 1
    let s1 := pushBack s0.1 s0.2 10
    let s2 := pushBack s1.1 s1.2 11
    let s3 := pushFront s2.1 s2.2 12
    IsDL s3.1 s3.2 [12, 10, 11] := by
  intro s0 s1 s2 s3
  have h0 : IsDL s0.1 s0.2 [] := IsDL_init _ 1 (by decide)
  have h1 : IsDL s1.1 s1.2 [10] := (pushBack_spec h0 (by simp [s0, init]) (by decide)).1
  have h2 : IsDL s2.1 s2.2 [10, 11] := (pushBack_spec h1 (by simp [s1, s0, init, pushBack, insert]) (by decide)).1
  exact (pushFront_spec h2 (by simp [s2, s1, s0, init, pushBack, insert]) (by decide)).1

end Cstl.DList
