import Cstl.Gen.DListC
import Cstl.DList.Model
/-
Translator tie for dlist: `Cstl/Gen/DListC.lean` is regenerated from /repo's
src/dlist.c by tools/c2lean.py on every check run; these fixed theorems state
that the hand-written model functions are exactly those translations.
-/
namespace Cstl.DList.Tie
open Cstl.SList (Mem upd)
open Cstl.DList Cstl.Gen.DListC

theorem insert_tie (m : M2) (l : Hd) (p n : Nat) :
    c_priv_cstl_dlist_insert m.nx m.pv l p n = ((insert m l p n).1.nx, (insert m l p n).1.pv, (insert m l p n).2) := rfl

theorem erase_tie (m : M2) (l : Hd) (n : Nat) :
    c_priv_cstl_dlist_erase m.nx m.pv l n = ((erase m l n).1.nx, (erase m l n).1.pv, (erase m l n).2, n) := rfl

theorem insert_public_tie (m : M2) (l : Hd) (p n : Nat) :
    c_cstl_dlist_insert m.nx m.pv l p n = ((insert m l p n).1.nx, (insert m l p n).1.pv, (insert m l p n).2) := rfl

theorem erase_public_tie (m : M2) (l : Hd) (n : Nat) :
    c_cstl_dlist_erase m.nx m.pv l n = ((erase m l n).1.nx, (erase m l n).1.pv, (erase m l n).2) := rfl

theorem front_tie (m : M2) (l : Hd) :
    front m l = if l.size > 0 then some (c_cstl_dlist_front m.nx m.pv l).2.2.2 else none := by
  simp only [front, c_cstl_dlist_front]; split <;> rfl

theorem back_tie (m : M2) (l : Hd) :
    back m l = if l.size > 0 then some (c_cstl_dlist_back m.nx m.pv l).2.2.2 else none := by
  simp only [back, c_cstl_dlist_back]; split <;> rfl

theorem pushFront_tie (m : M2) (l : Hd) (e : Nat) :
    c_cstl_dlist_push_front m.nx m.pv l e
      = ((pushFront m l e).1.nx, (pushFront m l e).1.pv, (pushFront m l e).2) := rfl

theorem pushBack_tie (m : M2) (l : Hd) (e : Nat) :
    c_cstl_dlist_push_back m.nx m.pv l e
      = ((pushBack m l e).1.nx, (pushBack m l e).1.pv, (pushBack m l e).2) := rfl

theorem popFront_tie (m : M2) (l : Hd) :
    c_cstl_dlist_pop_front m.nx m.pv l
      = ((popFront m l).1.nx, (popFront m l).1.pv, (popFront m l).2.1, ((popFront m l).2.2).getD 0) := by
  simp only [c_cstl_dlist_pop_front, popFront]; split <;> rfl

theorem popBack_tie (m : M2) (l : Hd) :
    c_cstl_dlist_pop_back m.nx m.pv l
      = ((popBack m l).1.nx, (popBack m l).1.pv, (popBack m l).2.1, ((popBack m l).2.2).getD 0) := by
  simp only [c_cstl_dlist_pop_back, popBack]; split <;> rfl

theorem pop_none_iff (m : M2) (l : Hd) :
    ((popFront m l).2.2 = none ↔ ¬ l.size > 0) ∧ ((popBack m l).2.2 = none ↔ ¬ l.size > 0) := by
  simp only [popFront, popBack]; constructor <;> split <;> simp_all

theorem concat_tie (m : M2) (d s : Hd) :
    c_cstl_dlist_concat m.nx m.pv d s
      = ((concat m d s).1.nx, (concat m d s).1.pv, (concat m d s).2.1, (concat m d s).2.2) := by
  simp only [c_cstl_dlist_concat, concat]
  split <;> split <;> simp_all

end Cstl.DList.Tie
