import Cstl.Gen.DListC
import Cstl.DList.Model
/-
Translator tie for dlist: `Cstl/Gen/DListC.lean` is regenerated from /repo's
src/dlist.c by tools/c2lean.py on every check run; these fixed theorems state
that the hand-written model functions are exactly those translations.
-/
namespace Cstl.DList.Tie
open Cstl.SList (Mem upd)
open Cstl.DList Cstl.Gen.DListC

theorem insert_tie (m : M2) (l : Hd) (p n : Nat) :
    c_priv_cstl_dlist_insert m.nx m.pv l p n = ((insert m l p n).1.nx, (insert m l p n).1.pv, (insert m l p n).2) := rfl

theorem erase_tie (m : M2) (l : Hd) (n : Nat) :
    c_priv_cstl_dlist_erase m.nx m.pv l n = ((erase m l n).1.nx, (erase m l n).1.pv, (erase m l n).2, n) := rfl

theorem insert_public_tie (m : M2) (l : Hd) (p n : Nat) :
    c_cstl_dlist_insert m.nx m.pv l p n = ((insert m l p n).1.nx, (insert m l p n).1.pv, (insert m l p n).2) := rfl

theorem erase_public_tie (m : M2) (l : Hd) (n : Nat) :
    c_cstl_dlist_erase m.nx m.pv l n = ((erase m l n).1.nx, (erase m l n).1.pv, (erase m l n).2) := rfl

theorem front_tie (m : M2) (l : Hd) :
    front m l = if l.size > 0 then some (c_cstl_dlist_front m.nx m.pv l).2.2.2 else none := by
  simp only [front, c_cstl_dlist_front]; split <;> rfl

theorem back_tie (m : M2) (l : Hd) :
    back m l = if l.size > 0 then some (c_cstl_dlist_back m.nx m.pv l).2.2.2 else none := by
  simp only [back, c_cstl_dlist_back]; split <;> rfl

theorem pushFront_tie (m : M2) (l : Hd) (e : Nat) :
    c_cstl_dlist_push_front m.nx m.pv l e
      = ((pushFront m l e).1.nx, (pushFront m l e).1.pv, (pushFront m l e).2) := rfl

theorem pushBack_tie (m : M2) (l : Hd) (e : Nat) :
    c_cstl_dlist_push_back m.nx m.pv l e
      = ((pushBack m l e).1.nx, (pushBack m l e).1.pv, (pushBack m l e).2) := rfl

theorem popFront_tie (m : M2) (l : Hd) :
    c_cstl_dlist_pop_front m.nx m.pv l
      = ((popFront m l).1.nx, (popFront m l).1.pv, (popFront m l).2.1, ((popFront m l).2.2).getD 0) := by
  simp only [c_cstl_dlist_pop_front, popFront]; split <;> rfl

theorem popBack_tie (m : M2) (l : Hd) :
    c_cstl_dlist_pop_back m.nx m.pv l
      = ((popBack m l).1.nx, (popBack m l).1.pv, (popBack m l).2.1, ((popBack m l).2.2).getD 0) := by
  simp only [c_cstl_dlist_pop_back, popBack]; split <;> rfl

theorem pop_none_iff (m : M2) (l : Hd) :
    ((popFront m l).2.2 = none ↔ ¬ l.size > 0) ∧ ((popBack m l).2.2 = none ↔ ¬ l.size > 0) := by
  simp only [popFront, popBack]; constructor <;> split <;> simp_all

theorem concat_tie (m : M2) (d s : Hd) :
    c_cstl_dlist_concat m.nx m.pv d s
      = ((concat m d s).1.nx, (concat m d s).1.pv, (concat m d s).2.1, (concat m d s).2.2) := by
  simp only [c_cstl_dlist_concat, concat]
  split <;> split <;> simp_all

/-- the loop body as one memory transformer (same term as in `revLoop`) -/
def revBodyM (m : M2) (i j : Nat) : M2 :=
  let nx1 := upd m.nx (m.pv i) j
  let pv1 := upd m.pv (nx1 i) j
  let pv2 := upd pv1 (nx1 j) i
  let nx2 := upd nx1 (pv2 j) i
  swapNodes { nx := nx2, pv := pv2 } i j

/-- the main loop of `cstl_dlist_reverse` (the scratch variable `k` is dropped) -/
theorem revLoop_tie (fuel : Nat) (m : M2) (l : Hd) (i j k : Nat) :
    (c_cstl_dlist_reverse_loop1 fuel m.nx m.pv l i j k).map (fun r => (r.1, r.2.1, r.2.2.1, r.2.2.2.1, r.2.2.2.2.1))
      = (revLoop fuel m i j).map (fun r => (r.1.nx, r.1.pv, l, r.2.1, r.2.2)) := by
  induction fuel generalizing m i j k with
  | zero =>
    simp only [c_cstl_dlist_reverse_loop1, revLoop]
    split <;> simp_all
  | succ f ih =>
    simp only [c_cstl_dlist_reverse_loop1, revLoop]
    split
    · have h := ih (revBodyM m i j) ((revBodyM m i j).nx j) ((revBodyM m i j).pv i) ((revBodyM m i j).pv i)
      simp only [revBodyM, swapNodes] at h
      exact h
    · simp_all

theorem reverse_tie (m : M2) (l : Hd) :
    c_cstl_dlist_reverse (l.size + 1) m.nx m.pv l = (reverse m l).map (fun m' => (m'.nx, m'.pv, l)) := by
  have h := revLoop_tie (l.size + 1) m l (m.nx l.h) (m.pv l.h) 0
  simp only [c_cstl_dlist_reverse, reverse]
  cases hg : c_cstl_dlist_reverse_loop1 (l.size + 1) m.nx m.pv l (m.nx l.h) (m.pv l.h) 0 with
  | none =>
    rw [hg] at h
    cases hr : revLoop (l.size + 1) m (m.nx l.h) (m.pv l.h) with
    | none => rfl
    | some r => rw [hr] at h; simp at h
  | some g =>
    rw [hg] at h
    cases hr : revLoop (l.size + 1) m (m.nx l.h) (m.pv l.h) with
    | none => rw [hr] at h; simp at h
    | some r =>
      rw [hr] at h
      obtain ⟨gnx, gpv, gl, gi, gj, gk⟩ := g
      obtain ⟨rm, ri, rj⟩ := r
      simp only [Option.map_some, Option.some.injEq, Prod.mk.injEq] at h
      obtain ⟨e1, e2, e3, e4, e5⟩ := h
      subst e1 e2 e3 e4 e5
      simp only
      split <;> rfl

/-- the loop of `cstl_dlist_clear` with a callback that overwrites both links -/
theorem clearLoop_tie (poison : Nat → Nat) (fuel : Nat) (m : M2) (l : Hd) (acc : List Nat)
    (r : Mem × Mem × Hd)
    (hr : c_cstl_dlist_clear_loop1 (fun nx pv c => (upd nx c (poison c), upd pv c (poison c))) fuel m.nx m.pv l = some r) :
    r.1 = (clearLoop poison fuel m l acc).1.nx ∧ r.2.1 = (clearLoop poison fuel m l acc).1.pv
    ∧ r.2.2 = (clearLoop poison fuel m l acc).2.1 := by
  induction fuel generalizing m l acc with
  | zero =>
    simp only [c_cstl_dlist_clear_loop1] at hr
    split at hr
    · cases hr
    · cases hr; simp [clearLoop]
  | succ f ih =>
    simp only [c_cstl_dlist_clear_loop1] at hr
    split at hr
    · rename_i hs
      have := ih ({ nx := upd (erase m l (m.nx l.h)).1.nx (m.nx l.h) (poison (m.nx l.h)),
                    pv := upd (erase m l (m.nx l.h)).1.pv (m.nx l.h) (poison (m.nx l.h)) })
        (erase m l (m.nx l.h)).2 (m.nx l.h :: acc) hr
      simpa [clearLoop, hs] using this
    · rename_i hs
      cases hr; simp [clearLoop, hs]

end Cstl.DList.Tie
