import Cstl.Base.Driver
import Cstl.DList.Model
/-
Driver for the dlist area.  Three lists with head nodes at addresses 1,2,3;
elements are addresses 10..; the clear callback overwrites both links of the
element with 100+address.  Same line protocol as harness/dlist.c.
-/
open Cstl Cstl.DList

structure DState where
  m : M2
  ls : Array Hd
  key : Nat → Int

def dinit : DState :=
  { m := { nx := fun a => if a ≤ 3 then a else 0, pv := fun a => if a ≤ 3 then a else 0 },
    ls := #[{ h := 1, size := 0 }, { h := 2, size := 0 }, { h := 3, size := 0 }],
    key := fun _ => 0 }

def dumpList (m : M2) (l : Hd) : String :=
  showList (walk m.nx l.h 64 l.h) ++ " r=" ++ showList (walk m.pv l.h 64 l.h) ++ " c=" ++ toString l.size

def ddump (s : DState) : String :=
  " | ".intercalate (s.ls.toList.map (dumpList s.m))

def optS : Option Nat → String
  | none => "0"
  | some n => toString n

def lcg (x : Nat) : Nat := (x * 1103515245 + 12345) % 2147483648

/-- LCG keys of the `bigsort` operation -/
def bigKeys : Nat → Nat → Nat → Array Int → Array Int
  | 0, _, _, acc => acc
  | n + 1, nkeys, x, acc =>
    let x' := lcg x
    bigKeys n nkeys x' (acc.push (Int.ofNat ((x' / 256) % nkeys)))

/-- `bigsort`: the sequence-level merge sort of the model (`msort`, to which the
link-level sort is proved equal) on `n` elements; checksum of the final order -/
def bigSortCk (n nkeys seed : Nat) : Nat :=
  let keys := bigKeys n nkeys (seed % 2147483648) #[]
  let ys := Cstl.SList.msort (fun a => keys[a]!) n (List.range n)
  ys.foldl (fun ck i => (ck * 1000003 + (i + 1) % 2147483647) % 2147483647) 7

def dstep (s : DState) (ws : List String) : DState × String :=
  let bad := (s, "STOP bad-op")
  let getL (a : String) : Option (Nat × Hd) := do
    let i ← a.toNat?
    if i ≥ 1 ∧ i ≤ 3 then some (i - 1, s.ls[i - 1]!) else none
  let fin (s' : DState) (r : String) : DState × String := (s', r ++ " | " ++ ddump s')
  let upd1 (i : Nat) (r : M2 × Hd) (res : String) : DState × String :=
    fin { s with m := r.1, ls := s.ls.set! i r.2 } res
  match ws with
  | "keys" :: ks =>
    let ksI := ks.filterMap parseInt?
    fin { s with key := fun a => (ksI[a - 10]?).getD 0 } "ok"
  | ["pushf", l, e] =>
    match getL l, e.toNat? with
    | some (i, hd), some e => upd1 i (pushFront s.m hd e) "ok"
    | _, _ => bad
  | ["pushb", l, e] =>
    match getL l, e.toNat? with
    | some (i, hd), some e => upd1 i (pushBack s.m hd e) "ok"
    | _, _ => bad
  | ["ins", l, b, e] =>
    match getL l, b.toNat?, e.toNat? with
    | some (i, hd), some b, some e => upd1 i (insert s.m hd b e) "ok"
    | _, _, _ => bad
  | ["erase", l, e] =>
    match getL l, e.toNat? with
    | some (i, hd), some e => upd1 i (erase s.m hd e) "ok"
    | _, _ => bad
  | ["popf", l] =>
    match getL l with
    | some (i, hd) => let r := popFront s.m hd; upd1 i (r.1, r.2.1) (optS r.2.2)
    | _ => bad
  | ["popb", l] =>
    match getL l with
    | some (i, hd) => let r := popBack s.m hd; upd1 i (r.1, r.2.1) (optS r.2.2)
    | _ => bad
  | ["front", l] =>
    match getL l with
    | some (_, hd) => fin s (optS (front s.m hd))
    | _ => bad
  | ["back", l] =>
    match getL l with
    | some (_, hd) => fin s (optS (back s.m hd))
    | _ => bad
  | ["rev", l] =>
    match getL l with
    | some (i, hd) =>
      match reverse s.m hd with
      | none => (s, "STOP hang")
      | some m' => upd1 i (m', hd) "ok"
    | _ => bad
  | ["bigsort", l, n, nk, sd] =>
    match getL l, n.toNat?, nk.toNat?, parseNat? sd with
    | some (_, hd), some n, some nk, some sd =>
      if hd.size ≠ 0 || n > 2000000 || nk = 0 then bad else fin s s!"ok ck={bigSortCk n nk sd}"
    | _, _, _, _ => bad
  | ["sort", l] =>
    match getL l with
    | some (i, hd) => upd1 i (sort s.m hd s.key) "ok"
    | _ => bad
  | ["concat", a, b] =>
    match getL a, getL b with
    | some (i, d), some (j, sr) =>
      if i = j then bad else
      let r := concat s.m d sr
      fin { s with m := r.1, ls := (s.ls.set! i r.2.1).set! j r.2.2 } "ok"
    | _, _ => bad
  | ["swap", a, b] =>
    match getL a, getL b with
    | some (i, x), some (j, y) =>
      if i = j then bad else
      let r := swap s.m x y
      fin { s with m := r.1, ls := (s.ls.set! i r.2.1).set! j r.2.2 } "ok"
    | _, _ => bad
  | ["foreach", l, dir, stopAt, mask] =>
    -- visit k e: result 7 on call number `stopAt` (0-based), else 0; the visit
    -- unlinks the visited element iff bit k of `mask` is set
    match getL l, parseInt? stopAt, mask.toNat? with
    | some (i, hd), some k, some mask =>
      let r := foreach s.m hd (dir == "f")
        (fun c _ => (if (c : Int) = k then stopValue k else 0, (mask >>> c) % 2 == 1)) (fun e => 100 + e)
      upd1 i (r.1, r.2.1) (toString r.2.2.2 ++ " " ++ showList r.2.2.1)
    | _, _, _ => bad
  | ["find", l, dir, k] =>
    match getL l, parseInt? k with
    | some (_, hd), some k => fin s (optS (find s.m hd (dir == "f") s.key k))
    | _, _ => bad
  | ["clear", l] =>
    match getL l with
    | some (i, hd) =>
      let r := clear s.m hd (fun e => 100 + e)
      let okp := r.2.2.all (fun e => r.1.nx e == 100 + e && r.1.pv e == 100 + e)
      upd1 i (r.1, r.2.1) (showList r.2.2 ++ " p=" ++ (if okp then "1" else "0"))
    | _ => bad
  | _ => bad

def main : IO Unit := runArea { init := dinit, step := dstep }
