import Cstl.SList.Model
/-
Link-level model of src/dlist.c (circular doubly-linked list with a sentinel
head node).  Memory is the pair of `n` and `p` fields of every node
(address ↦ address); a `struct cstl_dlist` is its head-node address `h` and
`size`.  One `upd` per C assignment, in the C order.  `sort` is modelled on
the sequence read from the links followed by a relink (temporary heads on the
C stack), as for slist.
-/
namespace Cstl.DList
open Cstl.SList (Mem upd)

structure M2 where
  nx : Mem
  pv : Mem

structure Hd where
  h : Nat
  size : Nat
deriving Repr, DecidableEq, Inhabited

/-- `cstl_dlist_init` -/
def init (m : M2) (h : Nat) : M2 × Hd :=
  ({ nx := upd m.nx h h, pv := upd m.pv h h }, { h := h, size := 0 })

/-- `__cstl_dlist_insert(l, p, n)` -/
def insert (m : M2) (l : Hd) (p n : Nat) : M2 × Hd :=
  let nx1 := upd m.nx n (m.nx p)          -- n->n = p->n
  let pv1 := upd m.pv n p                 -- n->p = p
  let pv2 := upd pv1 (nx1 n) n            -- n->n->p = n
  let nx2 := upd nx1 p n                  -- p->n = n
  ({ nx := nx2, pv := pv2 }, { l with size := l.size + 1 })

/-- `__cstl_dlist_erase(l, n)` -/
def erase (m : M2) (l : Hd) (n : Nat) : M2 × Hd :=
  let pv1 := upd m.pv (m.nx n) (m.pv n)   -- n->n->p = n->p
  let nx1 := upd m.nx (pv1 n) (m.nx n)    -- n->p->n = n->n
  ({ nx := nx1, pv := pv1 }, { l with size := l.size - 1 })

def front (m : M2) (l : Hd) : Option Nat := if l.size > 0 then some (m.nx l.h) else none
def back (m : M2) (l : Hd) : Option Nat := if l.size > 0 then some (m.pv l.h) else none
def pushFront (m : M2) (l : Hd) (e : Nat) : M2 × Hd := insert m l l.h e
def pushBack (m : M2) (l : Hd) (e : Nat) : M2 × Hd := insert m l (m.pv l.h) e

def popFront (m : M2) (l : Hd) : M2 × Hd × Option Nat :=
  if l.size > 0 then
    let n := m.nx l.h
    let r := erase m l n
    (r.1, r.2, some n)
  else (m, l, none)

def popBack (m : M2) (l : Hd) : M2 × Hd × Option Nat :=
  if l.size > 0 then
    let n := m.pv l.h
    let r := erase m l n
    (r.1, r.2, some n)
  else (m, l, none)

/-- what a visit function that removes the visited element does: unlink it
(`cstl_dlist_erase(l, c)`) and then do anything to it — it owns the element
now (`poison` overwrites both of its links, as a free or a reuse would) -/
def eraseP (poison : Nat → Nat) (m : M2) (l : Hd) (c : Nat) : M2 × Hd :=
  let r := erase m l c
  ({ nx := upd r.1.nx c (poison c), pv := upd r.1.pv c (poison c) }, r.2)

/-- `cstl_dlist_foreach`: `c = next(h), n = next(c)`; while `res == 0 && c != h`:
visit `c`; `c = n, n = next(c)`.  The visit function returns its result and
whether it removed the visited element (`eraseP`), which the loop tolerates
because the successor was saved first. -/
def foreachLoop (poison : Nat → Nat) (fwd : Bool) (visit : Nat → Nat → Int × Bool) :
    Nat → M2 → Hd → Nat → Nat → Nat → List Nat → M2 × Hd × List Nat × Int
  | 0, m, l, _, _, _, acc => (m, l, acc.reverse, 0)
  | fuel + 1, m, l, c, n, k, acc =>
    if c = l.h then (m, l, acc.reverse, 0)
    else
      let v := visit k c
      let ml := if v.2 then eraseP poison m l c else (m, l)
      if v.1 ≠ 0 then (ml.1, ml.2, (c :: acc).reverse, v.1)
      else
        let c' := n
        let n' := if fwd then ml.1.nx c' else ml.1.pv c'
        foreachLoop poison fwd visit fuel ml.1 ml.2 c' n' (k + 1) (c :: acc)

def foreach (m : M2) (l : Hd) (fwd : Bool) (visit : Nat → Nat → Int × Bool)
    (poison : Nat → Nat := fun _ => 0) : M2 × Hd × List Nat × Int :=
  let c := if fwd then m.nx l.h else m.pv l.h
  let n := if fwd then m.nx c else m.pv c
  foreachLoop poison fwd visit (l.size + 1) m l c n 0 []

/-- `cstl_dlist_find`: first element (in the direction) whose key compares equal -/
def find (m : M2) (l : Hd) (fwd : Bool) (key : Nat → Int) (probe : Int) : Option Nat :=
  let r := foreach m l fwd (fun _ e => (if key e = probe then 1 else 0, false))
  if r.2.2.2 > 0 then r.2.2.1.getLast? else none

/-- the fix-up macro of `cstl_dlist_swap` -/
def swapFix (m : M2) (l : Hd) : M2 :=
  if l.size = 0 then { nx := upd m.nx l.h l.h, pv := upd m.pv l.h l.h }
  else
    let pv1 := upd m.pv (m.nx l.h) l.h      -- L->h.n->p = &L->h   (right operand of the chain first)
    let nx1 := upd m.nx (pv1 l.h) l.h       -- L->h.p->n = &L->h
    { nx := nx1, pv := pv1 }

/-- `cstl_dlist_swap(a, b)`: struct contents exchanged, then both fixed up -/
def swap (m : M2) (a b : Hd) : M2 × Hd × Hd :=
  let an := m.nx a.h
  let ap := m.pv a.h
  let bn := m.nx b.h
  let bp := m.pv b.h
  let m1 : M2 := { nx := upd (upd m.nx a.h bn) b.h an, pv := upd (upd m.pv a.h bp) b.h ap }
  let a1 : Hd := { h := a.h, size := b.size }
  let b1 : Hd := { h := b.h, size := a.size }
  let m2 := swapFix m1 a1
  let m3 := swapFix m2 b1
  (m3, a1, b1)

/-- `cstl_dlist_clear`: unlink the first element, then hand it to the callback,
which may do anything to it (`poison` overwrites both of its links). -/
def clearLoop (poison : Nat → Nat) : Nat → M2 → Hd → List Nat → M2 × Hd × List Nat
  | 0, m, l, acc => (m, l, acc.reverse)
  | fuel + 1, m, l, acc =>
    if l.size > 0 then
      let n := m.nx l.h
      let r := erase m l n
      let m' : M2 := { nx := upd r.1.nx n (poison n), pv := upd r.1.pv n (poison n) }
      clearLoop poison fuel m' r.2 (n :: acc)
    else (m, l, acc.reverse)

def clear (m : M2) (l : Hd) (poison : Nat → Nat) : M2 × Hd × List Nat :=
  clearLoop poison l.size m l []

/-- exchange the contents (`n`,`p`) of nodes `i` and `j` (`cstl_swap`) -/
def swapNodes (m : M2) (i j : Nat) : M2 :=
  let inx := m.nx i
  let ipv := m.pv i
  { nx := upd (upd m.nx i (m.nx j)) j inx, pv := upd (upd m.pv i (m.pv j)) j ipv }

/-- the main loop of `cstl_dlist_reverse` -/
def revLoop : Nat → M2 → Nat → Nat → Option (M2 × Nat × Nat)
  | 0, m, i, j => if i ≠ j ∧ m.nx i ≠ j then none else some (m, i, j)
  | fuel + 1, m, i, j =>
    if i ≠ j ∧ m.nx i ≠ j then
      let nx1 := upd m.nx (m.pv i) j          -- i->p->n = j
      let pv1 := upd m.pv (nx1 i) j           -- i->n->p = j
      let pv2 := upd pv1 (nx1 j) i            -- j->n->p = i
      let nx2 := upd nx1 (pv2 j) i            -- j->p->n = i
      let m1 := swapNodes { nx := nx2, pv := pv2 } i j
      let k := m1.pv i                        -- k = i->p
      revLoop fuel m1 (m1.nx j) k             -- i = j->n, j = k
    else some (m, i, j)

def reverse (m : M2) (l : Hd) : Option M2 :=
  match revLoop (l.size + 1) m (m.nx l.h) (m.pv l.h) with
  | none => none
  | some (m, i, j) =>
    if m.nx i = j then
      let nx1 := upd m.nx (m.pv i) j          -- i->p->n = j
      let pv1 := upd m.pv (nx1 j) i           -- j->n->p = i
      let nx2 := upd nx1 i (nx1 j)            -- i->n = j->n
      let nx3 := upd nx2 j i                  -- j->n = i
      let pv2 := upd pv1 j (pv1 i)            -- j->p = i->p
      let pv3 := upd pv2 i j                  -- i->p = j
      some { nx := nx3, pv := pv3 }
    else some m

/-- `cstl_dlist_concat(d, s)` -/
def concat (m : M2) (d s : Hd) : M2 × Hd × Hd :=
  if d.h ≠ s.h ∧ s.size > 0 then
    let pv1 := upd m.pv (m.nx s.h) (m.pv d.h)     -- s->h.n->p = d->h.p
    let nx1 := upd m.nx (pv1 s.h) d.h             -- s->h.p->n = &d->h
    let nx2 := upd nx1 (pv1 d.h) (nx1 s.h)        -- d->h.p->n = s->h.n
    let pv2 := upd pv1 d.h (pv1 s.h)              -- d->h.p = s->h.p
    let r := init { nx := nx2, pv := pv2 } s.h
    (r.1, { d with size := d.size + s.size }, r.2)
  else (m, d, s)

def walk (f : Mem) (h : Nat) : Nat → Nat → List Nat
  | 0, _ => []
  | fuel + 1, a => if f a = h then [] else f a :: walk f h fuel (f a)

/-- write both link fields of the ring `h, xs…` -/
def relinkFrom (m : M2) (h : Nat) : Nat → List Nat → M2
  | a, [] => { nx := upd m.nx a h, pv := upd m.pv h a }
  | a, x :: xs => relinkFrom { nx := upd m.nx a x, pv := upd m.pv x a } h x xs

def sort (m : M2) (l : Hd) (key : Nat → Int) : M2 × Hd :=
  if l.size > 1 then
    let xs := walk m.nx l.h l.size l.h
    let ys := Cstl.SList.msort key xs.length xs
    (relinkFrom m l.h l.h ys, l)
  else (m, l)

end Cstl.DList
