import Cstl.DList.Model
/-
Histories over several doubly-linked lists in one memory, and the reference
semantics on plain sequences (property C12's "reference sequence").
-/
namespace Cstl.DList
open Cstl.SList (Mem upd msort)

structure St where
  m : M2
  hd : Nat → Hd

inductive Op where
  | pushFront (l e : Nat)
  | pushBack (l e : Nat)
  | insert (l b e : Nat)            -- insert e after b
  | erase (l e : Nat)
  | popFront (l : Nat)
  | popBack (l : Nat)
  | reverse (l : Nat)
  | sort (l : Nat) (key : Nat → Int)
  | concat (d s : Nat)
  | swap (a b : Nat)
  | clear (l : Nat) (poison : Nat → Nat)
  | front (l : Nat)
  | back (l : Nat)
  | foreach (l : Nat) (fwd : Bool) (visit : Nat → Nat → Int × Bool) (poison : Nat → Nat)
  | find (l : Nat) (fwd : Bool) (key : Nat → Int) (probe : Int)

inductive Res where
  | unit
  | ptr (p : Option Nat)
  | visited (v : List Nat) (r : Int)
  | cleared (cbs : List Nat)

def setHd (hd : Nat → Hd) (i : Nat) (v : Hd) : Nat → Hd := fun j => if j = i then v else hd j
def setSeq (q : Nat → List Nat) (i : Nat) (v : List Nat) : Nat → List Nat := fun j => if j = i then v else q j

/-- one operation on the link-level state (`none` = the reverse loop did not finish) -/
def step (s : St) : Op → Option (St × Res)
  | .pushFront l e =>
    let r := pushFront s.m (s.hd l) e
    some ({ m := r.1, hd := setHd s.hd l r.2 }, .unit)
  | .pushBack l e =>
    let r := pushBack s.m (s.hd l) e
    some ({ m := r.1, hd := setHd s.hd l r.2 }, .unit)
  | .insert l b e =>
    let r := insert s.m (s.hd l) b e
    some ({ m := r.1, hd := setHd s.hd l r.2 }, .unit)
  | .erase l e =>
    let r := erase s.m (s.hd l) e
    some ({ m := r.1, hd := setHd s.hd l r.2 }, .unit)
  | .popFront l =>
    let r := popFront s.m (s.hd l)
    some ({ m := r.1, hd := setHd s.hd l r.2.1 }, .ptr r.2.2)
  | .popBack l =>
    let r := popBack s.m (s.hd l)
    some ({ m := r.1, hd := setHd s.hd l r.2.1 }, .ptr r.2.2)
  | .reverse l =>
    match reverse s.m (s.hd l) with
    | none => none
    | some m' => some ({ m := m', hd := s.hd }, .unit)
  | .sort l key =>
    let r := sort s.m (s.hd l) key
    some ({ m := r.1, hd := setHd s.hd l r.2 }, .unit)
  | .concat d sr =>
    let r := concat s.m (s.hd d) (s.hd sr)
    some ({ m := r.1, hd := setHd (setHd s.hd d r.2.1) sr r.2.2 }, .unit)
  | .swap a b =>
    let r := swap s.m (s.hd a) (s.hd b)
    some ({ m := r.1, hd := setHd (setHd s.hd a r.2.1) b r.2.2 }, .unit)
  | .clear l poison =>
    let r := clear s.m (s.hd l) poison
    some ({ m := r.1, hd := setHd s.hd l r.2.1 }, .cleared r.2.2)
  | .front l => some (s, .ptr (front s.m (s.hd l)))
  | .back l => some (s, .ptr (back s.m (s.hd l)))
  | .foreach l fwd visit poison =>
    let r := foreach s.m (s.hd l) fwd visit poison
    some ({ m := r.1, hd := setHd s.hd l r.2.1 }, .visited r.2.2.1 r.2.2.2)
  | .find l fwd key probe => some (s, .ptr (find s.m (s.hd l) fwd key probe))

def run (s : St) : List Op → Option (St × List Res)
  | [] => some (s, [])
  | op :: ops =>
    match step s op with
    | none => none
    | some (s', r) =>
      match run s' ops with
      | none => none
      | some (s'', rs) => some (s'', r :: rs)

/-! ### reference semantics on sequences -/

def insAfterL (b e : Nat) : List Nat → List Nat
  | [] => []
  | x :: xs => if x = b then x :: e :: xs else x :: insAfterL b e xs

/-- reference traversal: (visited, result, remaining) -/
def refForeach (visit : Nat → Nat → Int × Bool) : List Nat → Nat → List Nat × Int × List Nat
  | [], _ => ([], 0, [])
  | x :: xs, k =>
    let v := visit k x
    if v.1 ≠ 0 then ([x], v.1, if v.2 then xs else x :: xs)
    else
      let r := refForeach visit xs (k + 1)
      (x :: r.1, r.2.1, if v.2 then r.2.2 else x :: r.2.2)

def refStep (q : Nat → List Nat) : Op → (Nat → List Nat) × Res
  | .pushFront l e => (setSeq q l (e :: q l), .unit)
  | .pushBack l e => (setSeq q l (q l ++ [e]), .unit)
  | .insert l b e => (setSeq q l (insAfterL b e (q l)), .unit)
  | .erase l e => (setSeq q l ((q l).erase e), .unit)
  | .popFront l =>
    match q l with
    | [] => (q, .ptr none)
    | x :: xs => (setSeq q l xs, .ptr (some x))
  | .popBack l =>
    match (q l).getLast? with
    | none => (q, .ptr none)
    | some y => (setSeq q l (q l).dropLast, .ptr (some y))
  | .reverse l => (setSeq q l (q l).reverse, .unit)
  | .sort l key => (setSeq q l (if (q l).length > 1 then msort key (q l).length (q l) else q l), .unit)
  | .concat d s => (setSeq (setSeq q d (q d ++ q s)) s [], .unit)
  | .swap a b => (setSeq (setSeq q a (q b)) b (q a), .unit)
  | .clear l _ => (setSeq q l [], .cleared (q l))
  | .front l => (q, .ptr (q l).head?)
  | .back l => (q, .ptr (q l).getLast?)
  | .foreach l fwd visit _ =>
    let r := refForeach visit (if fwd then q l else (q l).reverse) 0
    (setSeq q l (if fwd then r.2.2 else r.2.2.reverse), .visited r.1 r.2.1)
  | .find l fwd key probe => (q, .ptr ((if fwd then q l else (q l).reverse).find? (fun e => key e = probe)))

def refRun (q : Nat → List Nat) : List Op → (Nat → List Nat) × List Res
  | [] => (q, [])
  | op :: ops =>
    let r := refStep q op
    let rr := refRun r.1 ops
    (rr.1, r.2 :: rr.2)

/-- documented domain of each call -/
def Enabled (n : Nat) (ha : Nat → Nat) (q : Nat → List Nat) : Op → Prop
  | .pushFront l e | .pushBack l e =>
    l < n ∧ e ≠ 0 ∧ ∀ j, j < n → e ≠ ha j ∧ e ∉ q j
  | .insert l b e =>
    l < n ∧ b ∈ q l ∧ e ≠ 0 ∧ ∀ j, j < n → e ≠ ha j ∧ e ∉ q j
  | .erase l e => l < n ∧ e ∈ q l
  | .popFront l | .popBack l | .reverse l | .sort l _ | .clear l _ | .front l | .back l
  | .foreach l _ _ _ | .find l _ _ _ => l < n
  | .concat a b | .swap a b => a < n ∧ b < n ∧ a ≠ b

def EnabledRun (n : Nat) (ha : Nat → Nat) (q : Nat → List Nat) : List Op → Prop
  | [] => True
  | op :: ops => Enabled n ha q op ∧ EnabledRun n ha (refStep q op).1 ops

end Cstl.DList
