import Cstl.HashL.Model
/-
Vocabulary of the second hash translator (tools/c2lean_hash2.py), beyond what
`Cstl/HashL/Model.lean` already offers.  Hand-written and fixed; core Lean only.

* the bucket ARRAY pointer `h->bucket.at` has no field of its own in `LT`: it
  is NULL iff `cap = 0` (`LT`'s convention), `free` / `realloc` of it are an
  allocation event resp. an oracle step, a store to it adopts the new array;
* calls through the function-pointer members of the private structures the C
  code hands to its own callbacks (`struct cstl_hash_find_priv`,
  `cstl_hash_clear_priv`, `cstl_hash_foreach_visit_priv`): the client's function
  is a parameter, the call is recorded in the ghost log the model keeps
  (`FindP.offers`, `WalkP`).
-/
namespace Cstl.HashL
open Cstl.Hash (HashId Stop Tr Call AllocEv Node)

/-- `free(h->bucket.at)`; `free(NULL)` does nothing -/
def freeAt (s : LS) : LR Unit := if s.t.cap ≠ 0 then logEv .free else pure ()

/-- `realloc(h->bucket.at, bytes)` with `bsz = sizeof(struct cstl_hash_bucket)`: the oracle
decides; `some n` = an array with room for `n = bytes / bsz` buckets that holds the old
contents, `none` = NULL (the old array stays).  glibc's `realloc(p, 0)` frees `p` and
returns NULL — the table would keep a dangling pointer; the model stops there. -/
def reallocAt (oracle : Nat → Bool) (bsz : Nat) (_s : LS) (bytes : Nat) : LR (Option Nat) :=
  if bytes = 0 then stop .oob
  else do
    let ok := oracle bytes
    logEv (.realloc bytes ok)
    pure (if ok then some (bytes / bsz) else none)

/-- `h->bucket.at = at` -/
def LS.setAt (s : LS) : Option Nat → LS
  | none => { s with t := { s.t with cap := 0 } }
  | some n => s.realloc n

/-- `hfp->visit(e, hfp->p)` in `cstl_hash_find_visit`: the client's function is offered the
element; the offer is logged -/
def callAccept (s : LS) (p : FindP) (e : Nat) : LR (FindP × Int) :=
  match p.visit with
  | none => stop .nullDeref
  | some acc =>
    pure ({ p with offers := s.nodeOf e :: p.offers }, if acc p.offers.length (s.nodeOf e) then 1 else 0)

/-- `hcp->clr(e, hcp->priv)` in `cstl_hash_clear_visit`: the client's function gets the element;
the call is logged (the function returns nothing and cannot reach the table) -/
def callClr (s : LS) (p : WalkP) (e : Nat) : LR (WalkP × Int) :=
  pure ({ idx := p.idx + 1, seen := s.nodeOf e :: p.seen }, 0)

/-- `hfvp->visit(e, hfvp->priv)` in `cstl_hash_foreach_visit`: the client's `const` visit function
(`visit i n` = its answer to the `i`-th call, on node `n`); the call is logged -/
def callConstVisit (visit : Nat → Node → Int) (s : LS) (p : WalkP) (e : Nat) : LR (WalkP × Int) :=
  pure ({ idx := p.idx + 1, seen := s.nodeOf e :: p.seen }, visit p.idx (s.nodeOf e))

end Cstl.HashL
