import Cstl.HashL.Clean
/-
Refinement of the keyed operations: `cstl_hash_insert` (chain-head insertion),
`cstl_hash_find` (the walk offering nodes to the visit callback),
`cstl_hash_erase` (the pointer-to-pointer walk and the splice).
-/
namespace Cstl.HashL
open Cstl.SList (Mem upd upd_same upd_other)
open Cstl.Hash (HashId Stop Tr Call AllocEv Node HT Bucket R nodes wr rd mem_nodes wr_get SameGeom)

variable (hf : HashId → Nat → Nat → Nat)

/-! ### insert -/

/-- writing the `key` field of a node that is in no chain -/
theorem Rep.setKey {s : LS} {t : HT} (r : Rep s t) {e : Nat} (k : Nat) (hfresh : ¬ Owns t e) : Rep (s.setKey e k) t := by
  refine ⟨r.cap, r.count, r.hash, r.cst, r.rhHash, r.rhCount, r.clean, r.size, r.chain, r.bits, ?_, r.uniq⟩
  intro i b hb n hn
  have : n.id ≠ e := fun h => hfresh ⟨i, b, hb, mem_ids.mpr ⟨n, hn, h⟩⟩
  show upd s.keyOf e k n.id = n.key
  rw [upd_other _ _ _ _ this]
  exact r.keys i b hb n hn

/-- what an insertion did -/
structure Inserted (s : LS) (t : HT) (k e : Nat) (s' : LS) (t' : HT) : Prop where
  rep : Rep s' t'
  own : ∀ a, Owns t' a → a = e ∨ Owns t a
  len : (nodes t').length ≤ (nodes t).length + 1
  key : s'.keyOf = upd s.keyOf e k
  frame : ∀ a, a ≠ e → ¬ Owns t a → s'.nxt a = s.nxt a

/-- **`cstl_hash_insert`**: for a non-NULL element that is in no chain, the
pointer code (keyed lookup, write the key, link at the chain head, count)
finishes and represents `Hash.insert hf t k e` -/
theorem insert_sim {s : LS} {t : HT} (r : Rep s t) {fuel : Nat} (hfuel : (nodes t).length ≤ fuel) (k e : Nat)
    (he0 : e ≠ 0) (hfresh : ¬ Owns t e) :
    Sim (fun s' t' => Inserted s t k e s' t') (insert hf fuel s k e) (Hash.insert hf t k e) := by
  rw [Hash.insert_unfold]
  unfold insert
  refine Sim.bind (keyed_sim hf r hfuel k) ?_
  rintro ⟨s1, j⟩ ⟨t1, j'⟩ ⟨st, hj⟩ _
  simp only at st hj
  subst hj
  unfold insertTail
  have hfr1 : ¬ Owns t1 e := fun h => hfresh (st.own e h)
  have r1 : Rep (s1.setKey e k) t1 := st.rep.setKey k hfr1
  unfold Hash.pushHead
  rw [R_bind_assoc]
  refine Sim.bind (Sim.chk_rd r1 j) ?_
  intro _ b hb _
  rw [R_pure_bind]
  have hk : (s1.setKey e k).keyOf e = k := upd_same _ _ _
  have r2 := r1.pushHead (x := { key := k, id := e }) hb he0 hfr1 hk
  refine Sim.pure ⟨?_, ?_, ?_, ?_, ?_⟩
  · exact r2.scalars rfl rfl rfl r2.cap r2.count r2.hash r2.cst r2.rhHash r2.rhCount r2.clean
      (by show _ + 1 = _ + 1; rw [r2.size])
  · intro a ha
    have ha' : Owns (wr t1 j { b with chain := { key := k, id := e } :: b.chain }) a := (owns_congr rfl a).mp ha
    rcases (owns_pushHead hb _ a).mp ha' with h | h
    · exact Or.inl h
    · exact Or.inr (st.own a h)
  · have e1 := nodes_wr_len (b' := { b with chain := { key := k, id := e } :: b.chain }) hb
    have e2 := st.len
    simp at e1
    show (nodes (wr t1 j { b with chain := { key := k, id := e } :: b.chain })).length ≤ _
    omega
  · show upd s1.keyOf e k = _
    rw [st.key]
  · intro a hae hao
    show upd s1.nxt e _ a = _
    rw [upd_other _ _ _ _ hae]
    exact st.frame a hao

/-! ### find -/

theorem bucketForeach_null {π : Type} (visit : LS → π → Nat → LR (LS × π × Int)) (fuel : Nat) (s : LS) (p : π) :
    bucketForeach visit fuel s p 0 = pure (s, p, 0) := by
  cases fuel <;> simp [bucketForeach]

theorem bucketForeach_succ {π : Type} (visit : LS → π → Nat → LR (LS × π × Int)) (fuel : Nat) (s : LS) (p : π)
    {n : Nat} (hn : n ≠ 0) :
    bucketForeach visit (fuel + 1) s p n =
      (visit s p n >>= fun r => if r.2.2 ≠ 0 then pure r else bucketForeach visit fuel r.1 r.2.1 (s.nxt n)) := by
  simp [bucketForeach, hn]

/-- **the walk of `cstl_hash_find`** over the links of a chain: the memory is
untouched; the returned element and the offers made to the visit function are
those of `Hash.findWalk` on the chain -/
theorem findWalk_link (s : LS) (k : Nat) (acc : Option (Nat → Node → Bool)) :
    ∀ (c : List Node) (fuel : Nat) (n : Nat) (offers : List Node), Chain s.nxt n (ids c) →
      (∀ x ∈ c, s.nodeOf x.id = x) → c.length ≤ fuel →
      ∃ (p' : FindP) (res : Int),
        bucketForeach findVisit fuel s { k := k, visit := acc, e := 0, offers := offers } n = pure (s, p', res) ∧
        ((if p'.e = 0 then none else some (s.nodeOf p'.e)), p'.offers.reverse) = Hash.findWalk k acc c offers
  | [], fuel, n, offers, hc, _, _ => by
    have hn : n = 0 := hc
    subst hn
    exact ⟨_, _, bucketForeach_null _ _ _ _, by simp [Hash.findWalk]⟩
  | x :: c, 0, _, _, _, _, hl => by simp at hl
  | x :: c, fuel + 1, n, offers, hc, hk, hl => by
    obtain ⟨hn, hx0, hc'⟩ := hc
    subst hn
    have hkx : s.nodeOf x.id = x := hk x (by simp)
    have hkey : s.keyOf x.id = x.key := by rw [← hkx]; rfl
    have hl' : c.length ≤ fuel := by simp at hl; omega
    have hk' : ∀ y ∈ c, s.nodeOf y.id = y := fun y hy => hk y (by simp [hy])
    rw [bucketForeach_succ _ _ _ _ hx0]
    by_cases hxk : x.key = k
    · cases acc with
      | none =>
        refine ⟨{ k := k, visit := none, e := x.id, offers := offers }, 1, ?_, ?_⟩
        · simp [findVisit, hkey, hxk]
        · simp [Hash.findWalk, hxk, hx0, hkx]
      | some f =>
        by_cases hacc : f offers.length x = true
        · refine ⟨{ k := k, visit := some f, e := x.id, offers := x :: offers }, 1, ?_, ?_⟩
          · simp [findVisit, hkey, hxk, hkx, hacc]
          · simp [Hash.findWalk, hxk, hx0, hkx, hacc]
        · obtain ⟨p', res, h1, h2⟩ := findWalk_link s k (some f) c fuel (s.nxt x.id) (x :: offers) hc' hk' hl'
          refine ⟨p', res, ?_, ?_⟩
          · simp [findVisit, hkey, hxk, hkx, hacc, h1]
          · rw [h2]; simp [Hash.findWalk, hxk, hacc]
    · obtain ⟨p', res, h1, h2⟩ := findWalk_link s k acc c fuel (s.nxt x.id) offers hc' hk' hl'
      refine ⟨p', res, ?_, ?_⟩
      · simp [findVisit, hkey, hxk, h1]
      · rw [h2]; simp [Hash.findWalk, hxk]

/-- **`cstl_hash_find`**: same answer, same offers to the visit function, in the same order -/
theorem find_sim {s : LS} {t : HT} (r : Rep s t) {fuel : Nat} (hfuel : (nodes t).length ≤ fuel) (k : Nat)
    (acc : Option (Nat → Node → Bool)) :
    Sim (fun x y => Step s t x.1 y.1 ∧ x.2 = y.2) (find hf fuel s k acc) (Hash.find hf t k acc) := by
  rw [Hash.find_unfold]
  unfold find
  refine Sim.bind (keyed_sim hf r hfuel k) ?_
  rintro ⟨s1, j⟩ ⟨t1, j'⟩ ⟨st, hj⟩ _
  simp only at st hj
  subst hj
  refine Sim.bind (Sim.chk_rd st.rep j) ?_
  intro _ b hb _
  have hlen : b.chain.length ≤ fuel := Nat.le_trans (chain_le_nodes hb) (Nat.le_trans st.len hfuel)
  obtain ⟨p', res, h1, h2⟩ := findWalk_link s1 k acc b.chain fuel (s1.t.head j) [] (st.rep.chain j b hb)
    (fun x hx => st.rep.node_eq hb hx) hlen
  simp only [h1, pure_bind]
  exact Sim.pure ⟨st, h2⟩

/-! ### erase -/

/-- the pointer-to-pointer is the address of a bucket head, or of the `next` of a node outside the chain -/
def LocOK (loc : Loc) (c : List Node) : Prop :=
  match loc with
  | .head _ => True
  | .next y => y ∉ ids c

theorem rdLoc_wrLoc_same (s : LS) (loc : Loc) (v : Nat) : (s.wrLoc loc v).rdLoc loc = v := by
  cases loc <;> simp [LS.wrLoc, LS.rdLoc, LS.setHead, LS.setNxt]

theorem wrLoc_keyOf (s : LS) (loc : Loc) (v : Nat) : (s.wrLoc loc v).keyOf = s.keyOf := by
  cases loc <;> rfl

theorem wrLoc_form (s : LS) (loc : Loc) (v : Nat) :
    s.wrLoc loc v = { nxt := (s.wrLoc loc v).nxt, keyOf := s.keyOf,
                      t := { s.t with head := (s.wrLoc loc v).t.head, bcst := s.t.bcst } } := by
  cases loc <;> rfl

/-- result of the erase walk and splice on one chain -/
structure Spliced (s : LS) (e : Nat) (loc : Loc) (c c' : List Node) (loc' : Loc) : Prop where
  at_e : s.rdLoc loc' = e
  e_ne : e ≠ 0
  chain : Chain (s.wrLoc loc' (s.nxt e)).nxt ((s.wrLoc loc' (s.nxt e)).rdLoc loc) (ids c')
  where_ : loc' = loc ∨ ∃ z ∈ ids c, loc' = .next z

/-- **the walk of `cstl_hash_erase`** with `cstl_hash_erase_visit`, and the
splice `*hep.n = (*hep.n)->next`: started with the pointer-to-pointer at `loc`
(whose target is the first node of the chain `c`), the walk leaves the memory
untouched; it returns 0 iff `Hash.unlink` finds no node with identity `e`;
otherwise it returns 1 with the pointer-to-pointer at the link that points to
`e`, and overwriting that link with `e->next` leaves exactly the chain
`Hash.unlink` computes. -/
theorem eraseWalk_link (s : LS) (e : Nat) :
    ∀ (c : List Node) (fuel : Nat) (loc : Loc), Chain s.nxt (s.rdLoc loc) (ids c) → c.length ≤ fuel → LocOK loc c →
      match Hash.unlink e c with
      | none => ∃ loc', bucketForeach eraseVisit fuel s { n := loc, e := e } (s.rdLoc loc) =
                  pure (s, { n := loc', e := e }, 0)
      | some c' => ∃ loc', bucketForeach eraseVisit fuel s { n := loc, e := e } (s.rdLoc loc) =
                  pure (s, { n := loc', e := e }, 1) ∧ Spliced s e loc c c' loc'
  | [], fuel, loc, hc, _, _ => by
    have hn : s.rdLoc loc = 0 := hc
    rw [hn]
    exact ⟨loc, bucketForeach_null _ _ _ _⟩
  | x :: c, 0, _, _, hl, _ => by simp at hl
  | x :: c, fuel + 1, loc, hc, hl, hok => by
    have hc0 : Chain s.nxt (s.rdLoc loc) (x.id :: ids c) := hc
    obtain ⟨hn, hx0, hc'⟩ := hc0
    have hnd : (x.id :: ids c).Nodup := Chain.nodup (nxt := s.nxt) (a := x.id) ⟨rfl, hx0, hc'⟩
    rw [hn, bucketForeach_succ _ _ _ _ hx0]
    by_cases hxe : x.id = e
    · -- found at the front
      have hu : Hash.unlink e (x :: c) = some c := by simp [Hash.unlink, hxe]
      rw [hu]
      refine ⟨loc, by simp [eraseVisit, hxe], by rw [hn, hxe], hxe ▸ hx0, ?_, Or.inl rfl⟩
      rw [rdLoc_wrLoc_same]
      rw [← hxe]
      refine hc'.transfer ?_
      intro a ha
      cases loc with
      | head i => rfl
      | next y =>
        have : a ≠ y := fun h => hok (show y ∈ x.id :: ids c from h ▸ List.mem_cons_of_mem _ ha)
        exact upd_other _ _ _ _ this
    · have hl' : c.length ≤ fuel := by simp at hl; omega
      have hok' : LocOK (.next x.id) c := (List.nodup_cons.mp hnd).1
      have ih := eraseWalk_link s e c fuel (.next x.id) hc' hl' hok'
      have hstep : (eraseVisit s { n := loc, e := e } x.id >>= fun r =>
            if r.2.2 ≠ 0 then pure r else bucketForeach eraseVisit fuel r.1 r.2.1 (s.nxt x.id)) =
          bucketForeach eraseVisit fuel s { n := .next x.id, e := e } (s.rdLoc (.next x.id)) := by
        have hv : eraseVisit s { n := loc, e := e } x.id = pure (s, { n := .next x.id, e := e }, 0) := by
          simp [eraseVisit, Ne.symm hxe, hn]
        rw [hv, pure_bind]
        rfl
      rw [hstep]
      cases hu : Hash.unlink e c with
      | none =>
        have hu' : Hash.unlink e (x :: c) = none := by simp [Hash.unlink, hxe, hu]
        rw [hu'] ; rw [hu] at ih
        exact ih
      | some c1 =>
        have hu' : Hash.unlink e (x :: c) = some (x :: c1) := by simp [Hash.unlink, hxe, hu]
        rw [hu']; rw [hu] at ih
        obtain ⟨loc', h1, sp⟩ := ih
        refine ⟨loc', h1, sp.at_e, sp.e_ne, ?_, ?_⟩
        · -- the write goes to the `next` of a node of the chain: `loc` is not affected
          obtain ⟨z, hz, hloc'⟩ : ∃ z ∈ ids (x :: c), loc' = .next z := by
            rcases sp.where_ with h | ⟨z, hz, h⟩
            · exact ⟨x.id, by simp, h⟩
            · exact ⟨z, by simp [hz], h⟩
          have hrd : (s.wrLoc loc' (s.nxt e)).rdLoc loc = x.id := by
            rw [hloc']
            cases loc with
            | head i => exact hn
            | next y =>
              have : y ≠ z := fun h => hok (h ▸ hz)
              show upd s.nxt z _ y = _
              rw [upd_other _ _ _ _ this]; exact hn
          rw [hrd]
          exact ⟨rfl, hx0, sp.chain⟩
        · rcases sp.where_ with h | ⟨z, hz, h⟩
          · exact Or.inr ⟨x.id, by simp, h⟩
          · exact Or.inr ⟨z, by simp [hz], h⟩

theorem erase_unfold (fuel : Nat) (s : LS) (e : Nat) :
    erase hf fuel s e = (keyed hf fuel s (s.keyOf e) >>= fun r => eraseTail fuel r.1 r.2 e) := rfl

/-- the same part of `Hash.erase` -/
def absEraseTail (t1 : HT) (j e : Nat) : R HT :=
  rd t1 j >>= fun b =>
    match Hash.unlink e b.chain with
    | some c => pure { wr t1 j { b with chain := c } with size := t1.size - 1 }
    | none => pure t1

/-- what the unlinking did: a `Step`; the geometry is untouched; the only
`next` field written belonged to the node whose successor was `e` -/
structure Erased (s : LS) (t : HT) (e : Nat) (s' : LS) (t' : HT) : Prop where
  step : Step s t s' t'
  geom : Hash.WGeom t t'
  fine : ∀ a, s.nxt a ≠ e → s'.nxt a = s.nxt a

theorem eraseTail_sim {s1 : LS} {t1 : HT} (r1 : Rep s1 t1) {fuel : Nat} (hfuel : (nodes t1).length ≤ fuel) (j e : Nat) :
    Sim (fun s' t' => Erased s1 t1 e s' t') (eraseTail fuel s1 j e) (absEraseTail t1 j e) := by
  unfold eraseTail absEraseTail
  refine Sim.bind (Sim.chk_rd r1 j) ?_
  intro _ b hb _
  have hlen : b.chain.length ≤ fuel := Nat.le_trans (chain_le_nodes hb) hfuel
  have hw := eraseWalk_link s1 e b.chain fuel (.head j) (r1.chain j b hb) hlen trivial
  cases hu : Hash.unlink e b.chain with
  | none =>
    rw [hu] at hw
    obtain ⟨loc', h1⟩ := hw
    have h1' : bucketForeach eraseVisit fuel s1 { n := .head j, e := e } (s1.t.head j) =
        pure (s1, { n := loc', e := e }, 0) := h1
    simp only [h1', pure_bind]
    exact Sim.pure ⟨Step.refl r1, Hash.WGeom.refl t1, fun _ _ => rfl⟩
  | some c' =>
    rw [hu] at hw
    obtain ⟨loc', h1, sp⟩ := hw
    have h1' : bucketForeach eraseVisit fuel s1 { n := .head j, e := e } (s1.t.head j) =
        pure (s1, { n := loc', e := e }, 1) := h1
    have hne : s1.rdLoc loc' ≠ 0 := by rw [sp.at_e]; exact sp.e_ne
    simp only [h1', pure_bind]
    rw [if_pos (by decide), if_neg hne, sp.at_e]
    obtain ⟨x, hx, hxid, hperm, hsub⟩ := Hash.unlink_some hu
    have hsub' : ∀ a ∈ ids c', a ∈ ids b.chain := by
      intro a ha
      obtain ⟨n, hn, rfl⟩ := mem_ids.mp ha
      exact mem_ids.mpr ⟨n, hsub n hn, rfl⟩
    -- where the splice wrote
    have hhead : ∀ i, i ≠ j → (s1.wrLoc loc' (s1.nxt e)).t.head i = s1.t.head i := by
      intro i hi
      rcases sp.where_ with h | ⟨z, _, h⟩
      · rw [h]; exact upd_other _ _ _ _ hi
      · rw [h]; rfl
    have hnxt : ∀ a, a ∉ ids b.chain → (s1.wrLoc loc' (s1.nxt e)).nxt a = s1.nxt a := by
      intro a ha
      rcases sp.where_ with h | ⟨z, hz, h⟩
      · rw [h]; rfl
      · rw [h]
        have : a ≠ z := fun h' => ha (h' ▸ hz)
        exact upd_other _ _ _ _ this
    have hfine : ∀ a, s1.nxt a ≠ e → (s1.wrLoc loc' (s1.nxt e)).nxt a = s1.nxt a := by
      intro a ha
      have hat := sp.at_e
      cases loc' with
      | head i => rfl
      | next z =>
        have : a ≠ z := fun h' => ha (h' ▸ hat)
        exact upd_other _ _ _ _ this
    have r2 : Rep (s1.wrLoc loc' (s1.nxt e)) (wr t1 j { b with chain := c' }) := by
      rw [wrLoc_form]
      refine r1.update hb _ s1.keyOf _ s1.t.bcst c' b.cst sp.chain (r1.bits j b hb)
        (fun n hn => r1.keys j b hb n (hsub n hn)) hhead (fun _ _ => rfl) ?_ ?_
      · intro i bi hi hbi a ha
        exact ⟨hnxt a (fun h => r1.not_other hb h hi hbi ha), rfl⟩
      · intro i bi hi hbi a ha
        exact r1.not_other hb (hsub' a ha) hi hbi
    have st2 : Step s1 t1 (s1.wrLoc loc' (s1.nxt e)) (wr t1 j { b with chain := c' }) := by
      refine ⟨r2, fun a ha => owns_wr_sub hb hsub' ha, ?_, wrLoc_keyOf _ _ _, ?_⟩
      · have e1 := nodes_wr_len (b' := { b with chain := c' }) hb
        have e2 := hperm.length_eq
        simp at e1 e2
        omega
      · intro a ha
        exact hnxt a (fun h => ha ⟨j, b, hb, h⟩)
    have hsz : (s1.wrLoc loc' (s1.nxt e)).t.size = t1.size := by
      rw [← r1.size]; cases loc' <;> rfl
    refine Sim.pure ⟨st2.trans ?_, ⟨rfl, rfl, rfl, rfl, wr_size _ _ _, rfl⟩, hfine⟩
    exact Step.scalars r2 rfl rfl rfl r2.cap r2.count r2.hash r2.cst r2.rhHash r2.rhCount r2.clean
      (by show _ - 1 = _ - 1; rw [hsz])

/-- **`cstl_hash_erase`**: unlinking by pointer identity through the
pointer-to-pointer walk represents `Hash.erase hf t (key field of e) e`;
a no-op (also at link level) for an element that is not in the bucket -/
theorem erase_sim {s : LS} {t : HT} (r : Rep s t) {fuel : Nat} (hfuel : (nodes t).length ≤ fuel) (e : Nat) :
    Sim (fun s' t' => Step s t s' t') (erase hf fuel s e) (Hash.erase hf t (s.keyOf e) e) := by
  rw [Hash.erase_unfold, erase_unfold]
  refine Sim.bind (keyed_sim hf r hfuel _) ?_
  rintro ⟨s1, j⟩ ⟨t1, j'⟩ ⟨st, hj⟩ _
  simp only at st hj
  subst hj
  refine (eraseTail_sim st.rep (Nat.le_trans st.len hfuel) j e).mono ?_
  intro s' t' h _
  exact st.trans h.step

/-- with no rehash pending the keyed lookup touches nothing -/
theorem erase_settled_sim {s : LS} {t : HT} (r : Rep s t) {fuel : Nat} (hfuel : (nodes t).length ≤ fuel) (e : Nat)
    (hs : t.rhHash = none) :
    Sim (fun s' t' => Erased s t e s' t') (erase hf fuel s e) (Hash.erase hf t (s.keyOf e) e) := by
  rw [Hash.erase_unfold, erase_unfold, Hash.keyed_unfold]
  unfold keyed
  have hs' : s.t.rhHash = none := by rw [r.rhHash]; exact hs
  simp only [hs, hs', Option.isSome_none, Bool.false_eq_true, if_false]
  rw [bind_assoc, R_bind_assoc, r.hash, r.count]
  refine Sim.bind (getBucket_sim hf _ _ _) ?_
  rintro i _ rfl _
  rw [pure_bind, R_pure_bind]
  exact eraseTail_sim r hfuel i e

end Cstl.HashL
