import Cstl.Base.Driver
import Cstl.HashL.Model
/-
Driver of the LINK-LEVEL hash model (`m_hashl`).  Same line protocol, same
operations and the same output lines as lean/Cstl/Hash/Main.lean (so that
harness/hash.c, the generators and the oracles of the hash area are reused),
but every line is computed from the link-level state: the operations are the
pointer-level ones of Cstl/HashL/Model.lean (one update per C assignment on
the `next` / `key` memories, the bucket heads and clean bits), and the dump is
produced by walking the links from every bucket head (`LS.read`, which
`read_spec` proves to be the represented table).

Two tables over ONE memory of hash nodes; elements are addresses 1..NE.
Between operations the memories are stored as arrays (the functions the model
works on are rebuilt from them), so that long scripts stay fast; fuel of every
chain loop: the table's element count.
-/
open Cstl Cstl.Hash Cstl.HashL

def NE : Nat := 256

def hashMul (k m : Nat) : Nat :=
  let phi : Float32 := Float32.ofBits 0x3FCF1BBD
  let M := phi * Float32.ofNat k
  ((M - M.floor) * Float32.ofNat m).toUInt64.toNat

def modm (k m : Nat) : Nat := if m = 0 then 0 else k % m

def hfImpl (f k m : Nat) : Nat :=
  match f with
  | 0 => if m = 0 then 0 else hashMul k m
  | 1 => modm k m
  | 2 => modm (k / 2) m
  | 3 => 0
  | 4 => m
  | 5 => (m + 1) % 2 ^ 64
  | 6 => 2 ^ 64 - 1
  | 7 => if k % 4 = 3 then m else modm k m
  | 8 => if k % 4 = 3 then (m + 1) % 2 ^ 64 else modm k m
  | 9 => if k % 4 = 3 then 2 ^ 64 - 1 else modm k m
  | 10 => k % 8
  | 11 => if m ≥ 4 then modm k m else (if k % 2 = 1 then m else 0)
  | 12 => if m ≤ 4 then modm k m else (if k % 4 = 3 then (m + 1) % 2 ^ 64 else modm k m)
  | 13 => if k % 4 = 3 then 2 ^ 32 + modm k m else modm k m
  | 14 => 2 ^ 63 + modm k m
  | _ => 0

/-- a table between operations: bucket heads and clean bits as arrays -/
structure TabA where
  head : Array Nat
  bcst : Array Bool
  t : LT

structure HState where
  nxt : Array Nat
  keyOf : Array Nat
  tabs : Array TabA

def tabInit : TabA := { head := #[], bcst := #[], t := LT.init }

instance : Inhabited TabA := ⟨tabInit⟩

def hinit : HState :=
  { nxt := Array.replicate (NE + 1) 0, keyOf := Array.replicate (NE + 1) 0, tabs := #[tabInit, tabInit] }

/-- the link-level state of table `i` -/
def HState.sel (s : HState) (i : Nat) : LS :=
  let ta := s.tabs[i]!
  let nx := s.nxt
  let ky := s.keyOf
  let hd := ta.head
  let bc := ta.bcst
  { nxt := fun a => nx.getD a 0, keyOf := fun a => ky.getD a 0,
    t := { ta.t with head := fun j => hd.getD j 0, bcst := fun j => bc.getD j false } }

/-- store the result of an operation on table `i` -/
def HState.put (s : HState) (i : Nat) (x : LS) : HState :=
  let ta := s.tabs[i]!
  let n := max ta.head.size x.t.cap
  { nxt := Array.ofFn (n := NE + 1) (fun a => x.nxt a.val),
    keyOf := Array.ofFn (n := NE + 1) (fun a => x.keyOf a.val),
    tabs := s.tabs.setIfInBounds i
      { head := Array.ofFn (n := n) (fun j => x.t.head j.val),
        bcst := Array.ofFn (n := n) (fun j => x.t.bcst j.val), t := x.t } }

def hexDigit (n : Nat) : Char := (if n < 10 then Char.ofNat (48 + n) else Char.ofNat (87 + n))

def hex8 (n : Nat) : String :=
  String.ofList ((List.range 8).reverse.map (fun i => hexDigit ((n / 16 ^ i) % 16)))

def b2s (b : Bool) : String := if b then "1" else "0"

def optId : Option Nat → String
  | none => "-"
  | some n => toString n

def dumpBucket (b : Bucket) : String :=
  b2s b.cst ++ ":" ++ ".".intercalate (b.chain.map (fun n => toString n.id ++ "/" ++ toString n.key))

/-- the dump of lean/Cstl/Hash/Main.lean, applied to the table read back from the links -/
def dumpTable (t : HT) : String :=
  let lim0 := if t.rhHash.isSome then max t.count t.rhCount else t.count
  let lim := min lim0 t.bk.size
  let n := t.effCount
  let ld := if n = 0 then "-" else hex8 ((Float32.ofNat t.size / Float32.ofNat n).toBits.toNat)
  "n=" ++ toString t.count ++ " cap=" ++ toString t.bk.size ++ " h=" ++ optId t.hash ++ " c=" ++ b2s t.cst
    ++ " rh=" ++ (match t.rhHash with
                  | none => "-"
                  | some g => toString g ++ ":" ++ toString t.rhCount ++ ":" ++ toString t.clean)
    ++ " sz=" ++ toString t.size ++ " ld=" ++ ld
    ++ " [" ++ ",".intercalate ((t.bk.toList.take lim).map dumpBucket) ++ "]"

def dump (s : HState) : String :=
  " | ".intercalate ([0, 1].map (fun i => let x := s.sel i; dumpTable (x.read x.t.size)))

def showTr (tr : Tr) : String :=
  let cs := tr.calls.filter (fun c => c.fn ≠ 0)
  "hc=[" ++ ",".intercalate (cs.map (fun c => toString c.fn ++ "/" ++ toString c.key ++ "/" ++ toString c.m)) ++ "]"
    ++ " rl=" ++ toString tr.reloc
    ++ " ev=[" ++ ",".intercalate (tr.evs.map (fun e => match e with
        | .realloc b ok => "R" ++ toString b ++ (if ok then "+" else "!")
        | .free => "F")) ++ "]"

def stopS : LStop → String
  | .stop .abort => "STOP abort"
  | .stop .oob => "STOP asan"
  | .stop .nullDeref => "STOP segv"
  | .hang => "STOP hang"

def ids (ns : List Node) : String := showList (ns.map (·.id))

def parseTab (s : String) : Option Nat :=
  match s.toNat? with
  | some i => if i < 2 then some i else none
  | none => none

def parseFn (s : String) : Option (Option Nat) :=
  if s = "-" then some none else s.toNat?.map some

def parseElem (s : String) : Option Nat :=
  match s.toNat? with
  | some e => if 1 ≤ e ∧ e ≤ NE then some e else none
  | none => none

def hstep (s : HState) (ws : List String) : HState × String :=
  let bad := (s, "STOP bad-op")
  let hf := hfImpl
  let oracle (p : Bool) : Nat → Bool := fun bytes => p && decide (bytes ≤ 2 ^ 40)
  let fin {α : Type} (r : LR α) (k : α → HState × String) : HState × String :=
    match r.val with
    | .error e => (s, stopS e)
    | .ok a =>
      let (s', res) := k a
      (s', res ++ " " ++ showTr r.tr ++ " | " ++ dump s')
  match ws with
  | ["ins", t, k, e] =>
    match parseTab t, parseNat? k, parseElem e with
    | some i, some k, some e =>
      let x := s.sel i
      fin (HashL.insert hf x.t.size x k e) (fun x' => (s.put i x', "ok"))
    | _, _, _ => bad
  | ["find", t, k, a] =>
    match parseTab t, parseNat? k with
    | some i, some k =>
      let acc : Option (Option (Nat → Node → Bool)) :=
        if a = "n" then some none
        else match parseInt? a with
          | some ai => some (some (fun idx _ => (idx : Int) = ai))
          | none => none
      match acc with
      | none => bad
      | some acc =>
        let x := s.sel i
        fin (HashL.find hf x.t.size x k acc) (fun (x', r, offers) =>
          (s.put i x', "r=" ++ (match r with | none => "0" | some n => toString n.id) ++ " of=" ++ ids offers))
    | _, _ => bad
  | ["erase", t, e] =>
    match parseTab t, parseElem e with
    | some i, some e =>
      let x := s.sel i
      fin (HashL.erase hf x.t.size x e) (fun x' => (s.put i x', "ok"))
    | _, _ => bad
  | ["resize", t, n, f, p] =>
    match parseTab t, parseNat? n, parseFn f with
    | some i, some n, some f =>
      let x := s.sel i
      fin (HashL.resize hf x.t.size (oracle (p = "1")) x n f) (fun x' => (s.put i x', "ok"))
    | _, _, _ => bad
  | ["rehash", t] =>
    match parseTab t with
    | some i =>
      let x := s.sel i
      fin (HashL.rehash hf x.t.size x) (fun x' => (s.put i x', "ok"))
    | _ => bad
  | ["shrink", t, p] =>
    match parseTab t with
    | some i =>
      let x := s.sel i
      fin (HashL.shrink hf x.t.size (oracle (p = "1")) x) (fun x' => (s.put i x', "ok"))
    | _ => bad
  | ["swap"] =>
    fin (pure () : LR Unit) (fun _ => ({ s with tabs := #[s.tabs[1]!, s.tabs[0]!] }, "ok"))
  | ["foreach", t, stopAt, mask] =>
    match parseTab t, parseInt? stopAt, parseNat? mask with
    | some i, some st, some mask =>
      let visit : Nat → Node → Int × Bool := fun idx _ =>
        (if (idx : Int) = st then stopValue st else 0, mask.testBit (idx % 62))
      let x := s.sel i
      fin (HashL.foreach hf x.t.size x visit) (fun (x', r, seen) =>
        (s.put i x', "r=" ++ toString r ++ " v=" ++ ids seen))
    | _, _, _ => bad
  | ["fconst", t, stopAt] =>
    match parseTab t, parseInt? stopAt with
    | some i, some st =>
      let visit : Nat → Node → Int := fun idx _ => if (idx : Int) = st then stopValue st else 0
      let x := s.sel i
      fin (HashL.foreachConst hf x.t.size x visit) (fun (r, seen) =>
        (s, "r=" ++ toString r ++ " v=" ++ ids seen))
    | _, _ => bad
  | ["clear", t, cb] =>
    match parseTab t with
    | some i =>
      let x := s.sel i
      fin (HashL.clear hf x.t.size x (cb = "1")) (fun (x', seen) => (s.put i x', "v=" ++ ids seen))
    | _ => bad
  | _ => bad

def main : IO Unit := runArea { init := hinit, step := hstep }
