import Cstl.HashL.History
/-
Property theorems of the link-level hash model (area `hashl`): the pointer
code of src/hash.c as modelled in `Cstl/HashL/Model.lean` REFINES the existing
model `Cstl/Hash/Model.lean`, so that the theorems of C03 / C04 / C19 / C17b
hold for chains that are singly linked lists through `next`, a bucket array of
`{ n; cst }`, relinking in `cstl_clean_bucket`, the callback walk of
`cstl_hash_find` and the pointer-to-pointer walk of `cstl_hash_erase`.

`Sim rel l a` (Lemmas.lean): `l` and `a` have equal traces (hash-call log,
relocation count, allocation events); if `a` returns `b`, `l` returns some `x`
with `rel x b` — in particular `l` neither runs out of fuel (`hang`) nor
dereferences NULL nor leaves the bucket array; if `a` stops (`abort`), `l`
stops the same way.  `hf` is an arbitrary hash-function family throughout.
-/
namespace Cstl.HashL
open Cstl.SList (Mem upd upd_same upd_other)
open Cstl.Hash (HashId Stop Tr Call AllocEv Node HT Bucket R nodes Sys Op Out KOp)

variable (hf : HashId → Nat → Nat → Nat)

/-! ## the abstraction relation -/

theorem walk_chain {nxt : Mem} : ∀ {xs : List Nat} {a : Nat} (fuel : Nat), Chain nxt a xs → xs.length ≤ fuel →
    walk nxt fuel a = xs
  | [], a, fuel, h, _ => by
    have : a = 0 := h
    subst this
    cases fuel <;> simp [walk]
  | x :: xs, a, 0, _, hl => by simp at hl
  | x :: xs, a, fuel + 1, h, hl => by
    obtain ⟨rfl, hx0, hc⟩ := h
    simp only [walk, if_neg hx0]
    rw [walk_chain fuel hc (by simp at hl; omega)]

/-- **The represented table can be read back from the links**: walking `next`
from every bucket head (with fuel for the number of elements) and pairing the
addresses with their `key` fields yields exactly `t` — chains in order, clean
bits, scalars.  This is what the driver `m_hashl` dumps. -/
theorem read_spec {s : LS} {t : HT} (r : Rep s t) {fuel : Nat} (hfuel : (nodes t).length ≤ fuel) :
    s.read fuel = t := by
  have hbk : (Array.ofFn (n := s.t.cap) fun i => s.readBucket fuel i.val) = t.bk := by
    apply Array.ext
    · simp [r.cap]
    · intro i h1 h2
      have hb : t.bk[i]? = some t.bk[i] := by simp [h2]
      simp only [Array.getElem_ofFn]
      unfold LS.readBucket
      have hl : (ids t.bk[i].chain).length ≤ fuel := by
        rw [ids_length]; exact Nat.le_trans (chain_le_nodes hb) hfuel
      rw [walk_chain fuel (r.chain i _ hb) hl, r.chain_map hb, r.bits i _ hb]
  unfold LS.read
  rw [hbk, r.count, r.hash, r.cst, r.rhHash, r.rhCount, r.clean, r.size]

/-- a link-level state represents at most one table -/
theorem rep_functional {s : LS} {t t' : HT} (r : Rep s t) (r' : Rep s t') : t = t' := by
  exact (read_spec r (Nat.le_max_left (nodes t).length (nodes t').length)).symm.trans
    (read_spec r' (Nat.le_max_right (nodes t).length (nodes t').length))

/-- no node is linked into two chains, no chain visits a node twice, every
linked node is non-NULL: the identities of the represented table are distinct -/
theorem rep_nodup {s : LS} {t : HT} (r : Rep s t) :
    (∀ (i : Nat) (b : Bucket), t.bk[i]? = some b → (ids b.chain).Nodup ∧ ∀ a ∈ ids b.chain, a ≠ 0) ∧
    (∀ (i j : Nat) (b b' : Bucket), t.bk[i]? = some b → t.bk[j]? = some b' → i ≠ j →
        ∀ a ∈ ids b.chain, a ∉ ids b'.chain) :=
  ⟨fun i b hb => ⟨r.chain_nodup hb, fun a ha => (r.chain i b hb).nonzero a ha⟩,
   fun i j b b' hb hb' hij a ha ha' => hij (r.uniq i j b b' hb hb' a ha ha')⟩

/-- the initial link-level system represents the initial system -/
theorem init_represents : RepSys LSys.init Sys.init := LSys.init_rep

/-! ## C03 — per-operation refinement -/

/-- **`cstl_clean_bucket`** (the heart of the incremental rehash) -/
theorem cleanBucket_refines {s : LS} {t : HT} (r : Rep s t) {fuel : Nat} (hfuel : (nodes t).length ≤ fuel) (i : Nat) :
    Sim (fun s' t' => Step s t s' t') (cleanBucket hf fuel s i) (Hash.cleanBucket hf t i) :=
  cleanBucket_sim hf r hfuel i

/-- **`__cstl_hash_rehash(h, n)`**: the skip loop and the sweep -/
theorem rehashN_refines {s : LS} {t : HT} (r : Rep s t) {fuel : Nat} (hfuel : (nodes t).length ≤ fuel) (n : Option Nat) :
    Sim (fun s' t' => Step s t s' t') (rehashN hf fuel s n) (Hash.rehashN hf t n) :=
  rehashN_sim hf r hfuel n

theorem rehash_refines {s : LS} {t : HT} (r : Rep s t) {fuel : Nat} (hfuel : (nodes t).length ≤ fuel) :
    Sim (fun s' t' => Step s t s' t') (rehash hf fuel s) (Hash.rehash hf t) :=
  rehash_sim hf r hfuel

/-- **`cstl_hash_get_bucket`** (the keyed lookup sequence) -/
theorem keyed_refines {s : LS} {t : HT} (r : Rep s t) {fuel : Nat} (hfuel : (nodes t).length ≤ fuel) (k : Nat) :
    Sim (fun x y => Step s t x.1 y.1 ∧ x.2 = y.2) (keyed hf fuel s k) (Hash.keyed hf t k) :=
  keyed_sim hf r hfuel k

/-- **`cstl_hash_insert`** of a non-NULL element that is in no chain -/
theorem insert_refines {s : LS} {t : HT} (r : Rep s t) {fuel : Nat} (hfuel : (nodes t).length ≤ fuel) (k e : Nat)
    (he0 : e ≠ 0) (hfresh : ¬ Owns t e) :
    Sim (fun s' t' => Inserted s t k e s' t') (insert hf fuel s k e) (Hash.insert hf t k e) :=
  insert_sim hf r hfuel k e he0 hfresh

/-- **`cstl_hash_find`**: same element, same offers to the visit function -/
theorem find_refines {s : LS} {t : HT} (r : Rep s t) {fuel : Nat} (hfuel : (nodes t).length ≤ fuel) (k : Nat)
    (acc : Option (Nat → Node → Bool)) :
    Sim (fun x y => Step s t x.1 y.1 ∧ x.2 = y.2) (find hf fuel s k acc) (Hash.find hf t k acc) :=
  find_sim hf r hfuel k acc

/-- **`cstl_hash_erase`**: the key is read from the element's `key` field -/
theorem erase_refines {s : LS} {t : HT} (r : Rep s t) {fuel : Nat} (hfuel : (nodes t).length ≤ fuel) (e : Nat) :
    Sim (fun s' t' => Step s t s' t') (erase hf fuel s e) (Hash.erase hf t (s.keyOf e) e) :=
  erase_sim hf r hfuel e

theorem resize_refines {s : LS} {t : HT} (r : Rep s t) {fuel : Nat} (hfuel : (nodes t).length ≤ fuel)
    (oracle : Nat → Bool) (n : Nat) (f : Option HashId) :
    Sim (fun s' t' => Step s t s' t') (resize hf fuel oracle s n f) (Hash.resize hf oracle t n f) :=
  resize_sim hf r hfuel oracle n f

theorem shrink_refines {s : LS} {t : HT} (r : Rep s t) {fuel : Nat} (hfuel : (nodes t).length ≤ fuel)
    (oracle : Nat → Bool) :
    Sim (fun s' t' => Step s t s' t') (shrink hf fuel oracle s) (Hash.shrink hf oracle t) :=
  shrink_sim hf r hfuel oracle

/-- a link-level state representing the pending example table of the hash area:
2 buckets + 2 added ones; #12 in bucket 0; #11 → #10 in bucket 1 -/
def Ex.sPending : LS :=
  { nxt := fun a => if a = 11 then 10 else 0,
    keyOf := fun a => if a = 12 then 2 else if a = 11 then 5 else if a = 10 then 1 else 0,
    t := { head := fun i => if i = 0 then 12 else if i = 1 then 11 else 0,
           bcst := fun i => decide (i < 2), cap := 4, count := 2, hash := some 1, cst := false,
           rhHash := some 2, rhCount := 4, clean := 0, size := 3 } }

theorem Ex.sPending_rep : Rep Ex.sPending Hash.Ex.tPending := by
  have hcases : ∀ (i : Nat) (b : Bucket), Hash.Ex.tPending.bk[i]? = some b →
      (i = 0 ∧ b = ⟨[⟨2, 12⟩], true⟩) ∨ (i = 1 ∧ b = ⟨[⟨5, 11⟩, ⟨1, 10⟩], true⟩) ∨
      (i = 2 ∧ b = ⟨[], false⟩) ∨ (i = 3 ∧ b = ⟨[], false⟩) := by
    intro i b h
    match i, h with
    | 0, h => exact Or.inl ⟨rfl, (Option.some.inj h).symm⟩
    | 1, h => exact Or.inr (Or.inl ⟨rfl, (Option.some.inj h).symm⟩)
    | 2, h => exact Or.inr (Or.inr (Or.inl ⟨rfl, (Option.some.inj h).symm⟩))
    | 3, h => exact Or.inr (Or.inr (Or.inr ⟨rfl, (Option.some.inj h).symm⟩))
    | n + 4, h => simp [Hash.Ex.tPending] at h
  refine ⟨rfl, rfl, rfl, rfl, rfl, rfl, rfl, rfl, ?_, ?_, ?_, ?_⟩
  · intro i b h
    rcases hcases i b h with ⟨rfl, rfl⟩ | ⟨rfl, rfl⟩ | ⟨rfl, rfl⟩ | ⟨rfl, rfl⟩ <;> simp [Ex.sPending, ids]
  · intro i b h
    rcases hcases i b h with ⟨rfl, rfl⟩ | ⟨rfl, rfl⟩ | ⟨rfl, rfl⟩ | ⟨rfl, rfl⟩ <;> simp [Ex.sPending]
  · intro i b h n hn
    rcases hcases i b h with ⟨rfl, rfl⟩ | ⟨rfl, rfl⟩ | ⟨rfl, rfl⟩ | ⟨rfl, rfl⟩ <;> simp at hn <;>
      (try rcases hn with rfl | rfl) <;> (try subst hn) <;> simp [Ex.sPending]
  · intro i j b b' h h' a ha ha'
    rcases hcases i b h with ⟨rfl, rfl⟩ | ⟨rfl, rfl⟩ | ⟨rfl, rfl⟩ | ⟨rfl, rfl⟩ <;>
      rcases hcases j b' h' with ⟨rfl, rfl⟩ | ⟨rfl, rfl⟩ | ⟨rfl, rfl⟩ | ⟨rfl, rfl⟩ <;>
      simp [ids] at ha ha' <;> omega

/-- mid-rehash instance: cleaning bucket 1 of the example relinks #11 and #10 -/
example : Sim (fun s' t' => Step Ex.sPending Hash.Ex.tPending s' t')
    (cleanBucket Hash.Ex.hf0 3 Ex.sPending 1) (Hash.cleanBucket Hash.Ex.hf0 Hash.Ex.tPending 1) :=
  cleanBucket_refines Hash.Ex.hf0 Ex.sPending_rep (by simp [nodes, Hash.Ex.tPending]) 1

/-- and the relinked chains can be read off the links: #10 went to bucket 0 in front of #12, #11 to bucket 2 -/
example : ∃ s', (cleanBucket Hash.Ex.hf0 3 Ex.sPending 1).val = .ok s' ∧
    walk s'.nxt 3 (s'.t.head 0) = [10, 12] ∧ walk s'.nxt 3 (s'.t.head 1) = [] ∧ walk s'.nxt 3 (s'.t.head 2) = [11] :=
  ⟨_, rfl, by decide, by decide, by decide⟩

example : Sim (fun x y => Step Ex.sPending Hash.Ex.tPending x.1 y.1 ∧ x.2 = y.2)
    (find Hash.Ex.hf0 3 Ex.sPending 5 (some (fun _ _ => false))) (Hash.find Hash.Ex.hf0 Hash.Ex.tPending 5 (some (fun _ _ => false))) :=
  find_refines Hash.Ex.hf0 Ex.sPending_rep (by simp [nodes, Hash.Ex.tPending]) 5 _

example : Sim (fun s' t' => Step Ex.sPending Hash.Ex.tPending s' t')
    (erase Hash.Ex.hf0 3 Ex.sPending 10) (Hash.erase Hash.Ex.hf0 Hash.Ex.tPending 1 10) :=
  erase_refines Hash.Ex.hf0 Ex.sPending_rep (by simp [nodes, Hash.Ex.tPending]) 10

example : Sim (fun s' t' => Inserted Ex.sPending Hash.Ex.tPending 7 13 s' t')
    (insert Hash.Ex.hf0 3 Ex.sPending 7 13) (Hash.insert Hash.Ex.hf0 Hash.Ex.tPending 7 13) :=
  insert_refines Hash.Ex.hf0 Ex.sPending_rep (by simp [nodes, Hash.Ex.tPending]) 7 13 (by decide)
    (by rw [owns_iff]; simp [nodes, Hash.Ex.tPending])

/-- a further resize while the first one is pending (forces the rehash: every chain is relinked) -/
example : Sim (fun s' t' => Step Ex.sPending Hash.Ex.tPending s' t')
    (resize Hash.Ex.hf0 3 Hash.Ex.yes Ex.sPending 3 none) (Hash.resize Hash.Ex.hf0 Hash.Ex.yes Hash.Ex.tPending 3 none) :=
  resize_refines Hash.Ex.hf0 Ex.sPending_rep (by simp [nodes, Hash.Ex.tPending]) Hash.Ex.yes 3 none

/-! ## C03 — histories -/

/-- **History theorem**: along every history of insert / find / erase / resize /
rehash / shrink / swap / foreach / foreach_const / clear on two tables from
their initial state, inside the documented domain and with non-NULL elements,
for every `hf`, allocation oracle and visit function: the link-level run
simulates the run of the existing model — same trace, same answers, it never
runs out of fuel — and ends in a state that represents its final state. -/
theorem history_refines (ops : List Op) (hv : Hash.ValidFrom hf Sys.init ops) (hnz : NonNullAll ops) :
    Sim (fun x y => RepSys x.1 y.1 ∧ x.2 = y.2) (lrun hf LSys.init ops) (Hash.run hf Sys.init ops) :=
  lrun_sim hf ops LSys.init Sys.init LSys.init_rep (Hash.Sys.init_inv hf) hv hnz

/-- hence C03 for the pointer code: the link-level run either stops with `abort`
(together with the existing model, same trace) or returns answers that are
those of the multiset specification, in a state representing a system that
satisfies the invariant -/
theorem history_exact (ops : List Op) (hv : Hash.ValidFrom hf Sys.init ops) (hnz : NonNullAll ops) :
    ((lrun hf LSys.init ops).val = .error (.stop .abort) ∧ (Hash.run hf Sys.init ops).val = .error .abort ∧
      (lrun hf LSys.init ops).tr = (Hash.run hf Sys.init ops).tr) ∨
    ∃ (ls : LSys) (outs : List Out) (sys : Sys), (lrun hf LSys.init ops).val = .ok (ls, outs) ∧
      RepSys ls sys ∧ Hash.SysInv hf sys ∧ Hash.SpecRun (Hash.absOf Sys.init) ops outs (Hash.absOf sys) := by
  rcases (history_refines hf ops hv hnz).transfer (Hash.run_exact hf ops hv) with h | ⟨x, b, hx, _, ⟨rs, he⟩, hp⟩
  · exact Or.inl h
  · refine Or.inr ⟨x.1, x.2, b.1, hx, rs, hp.1, ?_⟩
    rw [he]; exact hp.2

/-- in every state a history reaches, both tables can be read back from the
links and satisfy the invariant of the existing model -/
theorem history_inv (ops : List Op) (hv : Hash.ValidFrom hf Sys.init ops) (hnz : NonNullAll ops)
    {ls : LSys} {outs : List Out} (h : (lrun hf LSys.init ops).val = .ok (ls, outs)) :
    Hash.Inv hf ((ls.sel false).read (ls.sel false).fuel) ∧ Hash.Inv hf ((ls.sel true).read (ls.sel true).fuel) := by
  rcases history_exact hf ops hv hnz with ⟨h', _⟩ | ⟨ls', outs', sys, h', rs, si, _⟩
  · rw [h] at h'; cases h'
  · rw [h] at h'; cases h'
    rw [read_spec rs.ra (fuel_ok hf rs si false), read_spec rs.rb (fuel_ok hf rs si true)]
    exact ⟨si.ia, si.ib⟩

example : NonNullAll [.resize false 2 (some 1) Hash.Ex.yes, .insert false 1 10, .find false 1 none] := by
  intro op hop
  simp at hop
  rcases hop with rfl | rfl | rfl <;> simp [NonNull]

/-! ## C04 — enumeration and clear -/

/-- **`cstl_hash_foreach`** with callbacks that may erase their element / stop the walk -/
theorem foreach_refines {s : LS} {t : HT} (r : Rep s t) (inv : Hash.Inv hf t) {fuel : Nat}
    (hfuel : (nodes t).length ≤ fuel) (visit : Nat → Node → Int × Bool) :
    Sim (fun x y => Step s t x.1 y.1 ∧ x.2 = y.2) (foreach hf fuel s visit) (Hash.foreach hf t visit) :=
  foreach_sim hf r inv hfuel visit

/-- **`cstl_hash_foreach_const`** at any stage of a pending rehash -/
theorem foreachConst_refines {s : LS} {t : HT} (r : Rep s t) {fuel : Nat} (hfuel : (nodes t).length ≤ fuel)
    (visit : Nat → Node → Int) :
    Sim (fun x y => x = y) (foreachConst hf fuel s visit) (Hash.foreachConst hf t visit) :=
  foreachConst_sim hf r hfuel visit

/-- **`cstl_hash_clear`** at any stage of a pending rehash -/
theorem clear_refines {s : LS} {t : HT} (r : Rep s t) {fuel : Nat} (hfuel : (nodes t).length ≤ fuel) (withCb : Bool) :
    Sim (fun x y => Step s t x.1 y.1 ∧ x.2 = y.2) (clear hf fuel s withCb) (Hash.clear hf t withCb) :=
  clear_sim hf r hfuel withCb

/-- hence: the pointer walk of `cstl_hash_foreach_const` with a callback that
never stops hands exactly the elements of the represented table to it -/
theorem foreachConst_link_all {s : LS} {t : HT} (r : Rep s t) (inv : Hash.Inv hf t) {fuel : Nat}
    (hfuel : (nodes t).length ≤ fuel) :
    (foreachConst hf fuel s (fun _ _ => 0)).val = .error (.stop .abort) ∨
    (foreachConst hf fuel s (fun _ _ => 0)).val = .ok (0, nodes t) := by
  rcases (foreachConst_refines hf r hfuel _).transfer (Hash.foreachConst_all hf inv) with h | ⟨x, b, hx, _, rfl, hp⟩
  · exact Or.inl h.1
  · refine Or.inr ?_
    rw [hx]
    have : x = (0, nodes t) := Prod.ext hp.2 hp.1
    rw [this]

/-- the pointer walk of `cstl_hash_clear` hands every element exactly once to
the callback and leaves a state representing an empty table without buckets -/
theorem clear_link_once {s : LS} {t : HT} (r : Rep s t) (inv : Hash.Inv hf t) {fuel : Nat}
    (hfuel : (nodes t).length ≤ fuel) (withCb : Bool) :
    (clear hf fuel s withCb).val = .error (.stop .abort) ∨
    ∃ (s' : LS) (t' : HT), (clear hf fuel s withCb).val = .ok (s', if withCb then nodes t else []) ∧
      Rep s' t' ∧ nodes t' = [] ∧ t'.bk = #[] ∧ s'.t.cap = 0 ∧ s'.t.size = 0 ∧ s'.t.hash = none := by
  rcases (clear_refines hf r hfuel withCb).transfer (Hash.clear_once hf withCb inv) with h | ⟨x, b, hx, _, ⟨st, he⟩, hp⟩
  · exact Or.inl h.1
  · refine Or.inr ⟨x.1, b.1, ?_, st.rep, hp.2.2.1, hp.2.2.2.2.2.2, ?_, ?_, ?_⟩
    · rw [hx, ← hp.1, ← he]
    · rw [st.rep.cap, hp.2.2.2.2.2.2]; rfl
    · rw [st.rep.size]; exact hp.2.2.2.1
    · rw [st.rep.hash]; exact hp.2.2.2.2.1

example : (foreachConst Hash.Ex.hf0 3 Ex.sPending (fun _ _ => 0)).val = .error (.stop .abort) ∨
    (foreachConst Hash.Ex.hf0 3 Ex.sPending (fun _ _ => 0)).val = .ok (0, nodes Hash.Ex.tPending) :=
  foreachConst_link_all Hash.Ex.hf0 Ex.sPending_rep Hash.Ex.tPending_inv (by simp [nodes, Hash.Ex.tPending])

/-! ## C19 — incremental rehash at link level -/

/-- **cost and progress of one keyed operation of the pointer code** while a
rehash is pending: at most three chains are detached and relinked, no
allocation request is made, and either the rehash finishes (the header is
settled on the pending geometry) or the sweep index advances -/
theorem keyed_link_cost_and_progress {s : LS} {t : HT} (r : Rep s t) (inv : Hash.Inv hf t) (hr : t.hash.isSome)
    {fuel : Nat} (hfuel : (nodes t).length + 1 ≤ fuel) (op : KOp) (hv : Hash.KValid t op) (hlv : LKValid s t op)
    (hp : t.rhHash.isSome) :
    (lkstep hf fuel s op).val = .error (.stop .abort) ∨
    ∃ s', (lkstep hf fuel s op).val = .ok s' ∧ (lkstep hf fuel s op).tr.reloc ≤ 3 ∧ (lkstep hf fuel s op).tr.evs = [] ∧
      ((s'.t.rhHash = none ∧ s'.t.count = s.t.rhCount ∧ s'.t.hash = s.t.rhHash) ∨
       (s'.t.rhHash = s.t.rhHash ∧ s'.t.count = s.t.count ∧ s'.t.rhCount = s.t.rhCount ∧ s.t.clean + 1 ≤ s'.t.clean)) := by
  rcases (lkstep_sim hf r hfuel op hlv).transfer (Hash.keyed_cost_and_progress hf op inv hr hv hp) with
    h | ⟨x, b, hx, _, ⟨r', _⟩, h1, h2, h3⟩
  · exact Or.inl h.1
  · refine Or.inr ⟨x, hx, h1, h2, ?_⟩
    rw [r'.rhHash, r'.count, r'.hash, r'.rhCount, r'.clean, r.rhHash, r.rhCount, r.count, r.clean]
    exact h3

/-- **once the rehash has finished, every lookup of the pointer code consults
the hash function exactly once** -/
theorem settled_link_single_call {s : LS} {t : HT} (r : Rep s t) (inv : Hash.Inv hf t) (hr : t.hash.isSome)
    {fuel : Nat} (hfuel : (nodes t).length + 1 ≤ fuel) (op : KOp) (hv : Hash.KValid t op) (hlv : LKValid s t op)
    (hs : t.rhHash = none) :
    (lkstep hf fuel s op).val = .error (.stop .abort) ∨
    ∃ s' g, (lkstep hf fuel s op).val = .ok s' ∧ s.t.hash = some g ∧
      (lkstep hf fuel s op).tr.calls = [⟨g, op.key, s.t.count⟩] ∧ s'.t.rhHash = none ∧ (lkstep hf fuel s op).tr.reloc ≤ 3 := by
  rcases (lkstep_sim hf r hfuel op hlv).transfer (Hash.settled_single_call hf op inv hr hv hs) with
    h | ⟨x, b, hx, _, ⟨r', _⟩, g, h1, h2, h3, h4⟩
  · exact Or.inl h.1
  · refine Or.inr ⟨x, g, hx, ?_, ?_, ?_, h4⟩
    · rw [r.hash]
      unfold Hash.HT.effHash at h1
      rw [hs] at h1
      exact h1
    · rw [r.count, h2]
      unfold Hash.HT.effCount
      rw [hs]; rfl
    · rw [r'.rhHash]; exact h3

example : (lkstep Hash.Ex.hf0 4 Ex.sPending (.insert 7 13)).val = .error (.stop .abort) ∨
    ∃ s', (lkstep Hash.Ex.hf0 4 Ex.sPending (.insert 7 13)).val = .ok s' ∧
      (lkstep Hash.Ex.hf0 4 Ex.sPending (.insert 7 13)).tr.reloc ≤ 3 ∧
      (lkstep Hash.Ex.hf0 4 Ex.sPending (.insert 7 13)).tr.evs = [] ∧
      ((s'.t.rhHash = none ∧ s'.t.count = Ex.sPending.t.rhCount ∧ s'.t.hash = Ex.sPending.t.rhHash) ∨
       (s'.t.rhHash = Ex.sPending.t.rhHash ∧ s'.t.count = Ex.sPending.t.count ∧
         s'.t.rhCount = Ex.sPending.t.rhCount ∧ Ex.sPending.t.clean + 1 ≤ s'.t.clean)) :=
  keyed_link_cost_and_progress Hash.Ex.hf0 Ex.sPending_rep Hash.Ex.tPending_inv rfl (by simp [nodes, Hash.Ex.tPending])
    (.insert 7 13) (by simp [Hash.KValid, nodes, Hash.Ex.tPending])
    ⟨by decide, by rw [owns_iff]; simp [nodes, Hash.Ex.tPending]⟩ rfl

/-- **the rehash finishes at link level**: any sequence of at least `count`
keyed operations of the pointer code (inserts, finds, erases, in any mix)
issued while a rehash is pending leaves the header settled on the pending
geometry (or stops with `abort` because `hf` left its range) -/
theorem rehash_finishes_link (ops : List KOp) {s : LS} {t : HT} (r : Rep s t) (inv : Hash.Inv hf t) (hr : t.hash.isSome)
    {fuel : Nat} (hfuel : (nodes t).length + ops.length ≤ fuel) (hv : Hash.KValidFrom hf t ops)
    (hlv : LKValidFrom hf fuel s t ops) (hp : t.rhHash.isSome) (hlen : t.count ≤ ops.length) :
    (lkrun hf fuel s ops).val = .error (.stop .abort) ∨
    ∃ s', (lkrun hf fuel s ops).val = .ok s' ∧ s'.t.rhHash = none ∧ s'.t.count = s.t.rhCount ∧
      s'.t.hash = s.t.rhHash := by
  rcases (lkrun_sim hf fuel ops s t r hfuel hlv).transfer (Hash.rehash_finishes hf ops inv hr hv hp hlen) with
    h | ⟨x, b, hx, _, r', _, h1, h2, h3⟩
  · exact Or.inl h.1
  · exact Or.inr ⟨x, hx, by rw [r'.rhHash]; exact h1, by rw [r'.count, r.rhCount]; exact h2,
      by rw [r'.hash, r.rhHash]; exact h3⟩

example : (lkrun Hash.Ex.hf0 5 Ex.sPending [.find 1 none, .find 9 none]).val = .error (.stop .abort) ∨
    ∃ s', (lkrun Hash.Ex.hf0 5 Ex.sPending [.find 1 none, .find 9 none]).val = .ok s' ∧ s'.t.rhHash = none ∧
      s'.t.count = Ex.sPending.t.rhCount ∧ s'.t.hash = Ex.sPending.t.rhHash :=
  rehash_finishes_link Hash.Ex.hf0 _ Ex.sPending_rep Hash.Ex.tPending_inv rfl (by simp [nodes, Hash.Ex.tPending])
    ⟨trivial, fun _ _ => ⟨trivial, fun _ _ => trivial⟩⟩ ⟨trivial, fun _ _ _ _ => ⟨trivial, fun _ _ _ _ => trivial⟩⟩ rfl
    (by simp [Hash.Ex.tPending])

/-- the trace of a link-level history is the trace of the existing model's
run: every statement about hash calls, relocated buckets and allocation
requests of histories (C19, C16) transfers verbatim -/
theorem history_trace (ops : List Op) (hv : Hash.ValidFrom hf Sys.init ops) (hnz : NonNullAll ops) :
    (lrun hf LSys.init ops).tr = (Hash.run hf Sys.init ops).tr :=
  (history_refines hf ops hv hnz).1

/-! ## C17 (table half) — fail-stop at link level -/

/-- **fail-stop for the pointer code**: along every history inside the
documented domain, for an arbitrary hash-function family, the link-level run
never indexes outside a bucket array, never dereferences NULL, never runs out
of fuel (no chain is cyclic), and stops with `abort` exactly when a consulted
hash result was out of range -/
theorem history_failstop (ops : List Op) (hv : Hash.ValidFrom hf Sys.init ops) (hnz : NonNullAll ops) :
    (lrun hf LSys.init ops).val ≠ .error .hang ∧
    (lrun hf LSys.init ops).val ≠ .error (.stop .oob) ∧
    (lrun hf LSys.init ops).val ≠ .error (.stop .nullDeref) ∧
    ((lrun hf LSys.init ops).val = .error (.stop .abort) ↔
      ∃ c ∈ (lrun hf LSys.init ops).tr.calls, c.m ≤ hf c.fn c.key c.m) := by
  have hs := history_refines hf ops hv hnz
  have fs := Hash.run_failstop hf ops hv
  obtain ⟨htr, hval⟩ := hs
  rw [htr]
  cases ha : (Hash.run hf Sys.init ops).val with
  | ok b =>
    rw [ha] at hval
    obtain ⟨x, hx, _⟩ := hval
    rw [hx]
    refine ⟨by simp, by simp, by simp, ?_⟩
    constructor
    · intro h; cases h
    · intro h
      have := fs.abort_iff.mpr h
      rw [ha] at this; cases this
  | error e =>
    rw [ha] at hval
    rw [hval]
    have he : e = .abort := by
      cases e with
      | abort => rfl
      | oob => exact absurd ha fs.no_oob
      | nullDeref => exact absurd ha fs.no_null
    subst he
    refine ⟨by simp, by simp, by simp, ?_⟩
    constructor
    · intro _; exact fs.abort_iff.mp ha
    · intro _; rfl

/-- with an in-range family the link-level run returns -/
theorem history_total_in_range (hr : Hash.InRange hf) (ops : List Op) (hv : Hash.ValidFrom hf Sys.init ops)
    (hnz : NonNullAll ops) :
    ∃ (ls : LSys) (outs : List Out) (sys : Sys), (lrun hf LSys.init ops).val = .ok (ls, outs) ∧
      RepSys ls sys ∧ Hash.SysInv hf sys ∧ Hash.SpecRun (Hash.absOf Sys.init) ops outs (Hash.absOf sys) := by
  obtain ⟨b, hb, si, sp⟩ := Hash.run_total_in_range hf hr ops hv
  obtain ⟨_, hval⟩ := history_refines hf ops hv hnz
  rw [hb] at hval
  obtain ⟨x, hx, rs, he⟩ := hval
  exact ⟨x.1, x.2, b.1, hx, rs, si, by rw [he]; exact sp⟩

end Cstl.HashL
