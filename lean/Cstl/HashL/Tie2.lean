import Cstl.Gen.HashLC2
import Cstl.HashL.History
/-
Translator tie, second part, for src/hash.c: the definitions in
`Cstl/Gen/HashLC2.lean` are regenerated from /repo's src/hash.c (and the inline
functions of include/cstl/hash.h) by tools/c2lean_hash2.py on every check run;
the theorems below (hand-written, fixed) state that the hand-written link-level
model functions of `Cstl/HashL/Model.lean` are those translations.

`obs` compares result / stop kind, hash-call log and allocation events (the
model's ghost relocation counter has no counterpart in the C code).  The loops
over bucket indices are recursion on the loop fuel `lf` in the translation and
structural recursion on `count - clean` (resp. the loop bound) in the model:
the ties hold for every `lf` that is at least the number of buckets involved.
`SIZE_MAX` sweeps (`cstl_hash_rehash`) are the model's unbounded sweep for every
table with fewer than 2^64 buckets.

  __cstl_hash_get_bucket, cstl_clean_bucket (+ loop), cstl_hash_bucket_foreach (+ loop),
  cstl_hash_erase_visit                       re-proved against this module (as in Tie.lean)
  __cstl_hash_rehash: loop 1 / loop 2 / whole = skipClean / sweep / rehashN
  cstl_hash_rehash                            = rehash
  cstl_hash_get_bucket                        = keyed      (old bucket, new bucket, one sweep step, use new)
  cstl_hash_find_visit, cstl_hash_find        = findVisit, find
  __cstl_hash_set_capacity                    = setCapacity
  cstl_hash_resize (+ loop)                   = resize (initBuckets, resizeTail, pickHash, ensureCapacity)
  cstl_hash_shrink_to_fit                     = shrink
  __cstl_hash_foreach (+ loop)                = hforeach (tableWalk, LT.bound)
  cstl_hash_foreach, cstl_hash_foreach_const  = foreach, foreachConst
  cstl_hash_clear_visit, cstl_hash_clear      = clear
  cstl_hash_insert, cstl_hash_erase           = insert, erase   (whole functions)
  cstl_hash_size, cstl_hash_load, cstl_hash_swap
-/
namespace Cstl.HashL.Tie2
open Cstl.HashL Cstl.Gen.HashLC2
open Cstl.Hash (HashId Stop Tr Call AllocEv Node mulId pickHash)

variable (hf : HashId → Nat → Nat → Nat)

/-! ### the monad, observations -/

theorem hang_bind {α β : Type} (f : α → LR β) : ((hang : LR α) >>= f) = hang := rfl
theorem stop_bind {α β : Type} (e : Stop) (f : α → LR β) : ((stop e : LR α) >>= f) = stop e := rfl

theorem bind_pure_id {α : Type} (m : LR α) : (m >>= fun a => pure a) = m := by
  cases hv : m.val with
  | error e => exact LR.ext' (bind_err hv).2 ((bind_err hv).1.trans hv.symm)
  | ok a =>
    apply LR.ext'
    · rw [(bind_ok hv).2]; apply Hash.Tr.ext' <;> simp [Hash.Tr.append]
    · rw [(bind_ok hv).1, hv]; rfl

theorem bind_congr_val {α β : Type} (m : LR α) {f g : α → LR β} (h : ∀ a, m.val = .ok a → f a = g a) :
    (m >>= f) = (m >>= g) := by
  cases hv : m.val with
  | error e => exact LR.ext' ((bind_err hv).2.trans (bind_err hv).2.symm) ((bind_err hv).1.trans (bind_err hv).1.symm)
  | ok a =>
    apply LR.ext'
    · rw [(bind_ok hv).2, (bind_ok hv).2, h a hv]
    · rw [(bind_ok hv).1, (bind_ok hv).1, h a hv]

/-- what a tie "up to the ghost counter" compares: result / stop kind, hash-call log, allocation events -/
def obs {α : Type} (m : LR α) : Except LStop α × List Call × List AllocEv := (m.val, m.tr.calls, m.tr.evs)

/-- `obs` is a congruence for `>>=` -/
theorem obs_bind {α β : Type} {m m' : LR α} {f g : α → LR β} (hm : obs m = obs m')
    (h : ∀ a, m'.val = .ok a → obs (f a) = obs (g a)) : obs (m >>= f) = obs (m' >>= g) := by
  simp only [obs, Prod.mk.injEq] at hm
  cases hv : m'.val with
  | error e =>
    have hv' : m.val = .error e := hm.1.trans hv
    simp [obs, (bind_err (f := f) hv').1, (bind_err (f := f) hv').2, (bind_err (f := g) hv).1, (bind_err (f := g) hv).2,
      hm.2.1, hm.2.2]
  | ok a =>
    have hv' : m.val = .ok a := hm.1.trans hv
    have := h a hv
    simp only [obs, Prod.mk.injEq] at this
    simp [obs, (bind_ok (f := f) hv').1, (bind_ok (f := f) hv').2, (bind_ok (f := g) hv).1, (bind_ok (f := g) hv).2,
      Hash.Tr.append, this.1, this.2.1, this.2.2, hm.2.1, hm.2.2]

/-- the same when the left computation returns more than the right one (loop variables of the translation) -/
theorem obs_bind_map {α β γ : Type} (g : α → β) {m : LR α} {m' : LR β} {f : α → LR γ} {f' : β → LR γ}
    (hm : obs (m >>= fun a => pure (g a)) = obs m')
    (h : ∀ a, m'.val = .ok (g a) → obs (f a) = obs (f' (g a))) : obs (m >>= f) = obs (m' >>= f') := by
  simp only [obs, Prod.mk.injEq] at hm
  cases hv : m.val with
  | error e =>
    rw [(bind_err hv).1, (bind_err hv).2] at hm
    have hv' : m'.val = .error e := hm.1.symm
    simp [obs, (bind_err (f := f) hv).1, (bind_err (f := f) hv).2, (bind_err (f := f') hv').1,
      (bind_err (f := f') hv').2, hm.2.1, hm.2.2]
  | ok a =>
    rw [(bind_ok hv).1, (bind_ok hv).2] at hm
    have hv' : m'.val = .ok (g a) := hm.1.symm
    have := h a hv'
    simp only [obs, Prod.mk.injEq] at this
    have hm2 := hm.2
    simp [Hash.Tr.append] at hm2
    simp [obs, (bind_ok (f := f) hv).1, (bind_ok (f := f) hv).2, (bind_ok (f := f') hv').1, (bind_ok (f := f') hv').2,
      Hash.Tr.append, this.1, this.2.1, this.2.2, hm2.1, hm2.2]

theorem obs_bind_right {α β : Type} (m : LR α) {f g : α → LR β} (h : ∀ a, m.val = .ok a → obs (f a) = obs (g a)) :
    obs (m >>= f) = obs (m >>= g) := obs_bind rfl h

theorem obs_tick {α : Type} (k : LR α) : obs (tickReloc >>= fun _ => k) = obs k := by
  have hv : (tickReloc : LR Unit).val = .ok () := rfl
  have h := bind_ok (f := fun _ => k) hv
  unfold obs
  rw [h.1, h.2]
  simp [tickReloc, Hash.Tr.append]

theorem chkN_bind {α : Type} (a : Nat) (k : LR α) :
    (chkN a >>= fun _ => k) = if a = 0 then stop .nullDeref else k := by
  unfold chkN
  by_cases h : a = 0
  · simp [h, stop_bind]
  · simp [h]

/-! ### the chain functions (as in `Tie.lean`, against this module) -/

/-- `__cstl_hash_get_bucket` -/
theorem getBucket_tie (s : LS) (k : Nat) (f : Option HashId) (m : Nat) :
    c_priv_cstl_hash_get_bucket hf s k f m = getBucket hf f k m := rfl

/-- the `HASH_LIST_FOREACH` loop of `cstl_clean_bucket`: it ends with `n = nn = NULL` -/
theorem relink_tie (bk : Nat) : ∀ (fuel : Nat) (s : LS) (n nn : Nat),
    c_cstl_clean_bucket_loop1 hf bk fuel s n nn = (relink hf fuel s nn >>= fun s' => pure (s', 0, 0))
  | 0, s, n, nn => by
    simp only [c_cstl_clean_bucket_loop1, relink]
    by_cases h : nn = 0
    · subst h; simp
    · simp [h, hang_bind]
  | fuel + 1, s, n, nn => by
    simp only [c_cstl_clean_bucket_loop1, relink]
    by_cases h : nn = 0
    · subst h; simp
    · simp only [h, ne_eq, not_false_eq_true, if_true, if_false, getBucket_tie, bind_assoc]
      congr 1
      funext j
      congr 1
      funext _
      exact relink_tie bk fuel _ _ _

/-- `cstl_clean_bucket`: the translation is the model without its ghost relocation counter -/
theorem cleanBucket_tie (fuel : Nat) (s : LS) (bk : Nat) :
    obs (c_cstl_clean_bucket hf fuel s bk) = obs (cleanBucket hf fuel s bk) := by
  unfold c_cstl_clean_bucket cleanBucket
  refine obs_bind_right _ (fun _ _ => ?_)
  by_cases h : s.t.cst ≠ s.t.bcst bk
  · rw [if_pos h, if_pos h]
    simp only [relink_tie, bind_assoc, pure_bind]
    refine obs_bind_right _ (fun s2 _ => ?_)
    exact (obs_tick _).symm
  · rw [if_neg h, if_neg h]

/-- the loop of `cstl_hash_bucket_foreach`, entered with `res = 0` -/
theorem bucketForeach_loop_tie {π : Type} (visit : LS → π → Nat → LR (LS × π × Int)) :
    ∀ (fuel : Nat) (s : LS) (p : π) (n nn : Nat),
      (c_cstl_hash_bucket_foreach_loop1 visit fuel s p n nn 0 >>= fun l => pure (l.1, l.2.1, l.2.2.2.2)) =
        bucketForeach visit fuel s p nn
  | 0, s, p, n, nn => by
    simp only [c_cstl_hash_bucket_foreach_loop1, bucketForeach]
    by_cases h : nn = 0
    · subst h; simp
    · simp [h, hang_bind]
  | fuel + 1, s, p, n, nn => by
    simp only [c_cstl_hash_bucket_foreach_loop1, bucketForeach]
    by_cases h : nn = 0
    · subst h; simp
    · simp only [h, ne_eq, not_false_eq_true, if_true, if_false, bind_assoc]
      congr 1
      funext r
      by_cases hr : r.2.2 = 0
      · simp only [hr, not_true_eq_false, if_false]
        exact bucketForeach_loop_tie visit fuel _ _ _ _
      · simp [hr]

/-- `cstl_hash_bucket_foreach` for every visit function -/
theorem bucketForeach_tie {π : Type} (visit : LS → π → Nat → LR (LS × π × Int)) (fuel : Nat) (s : LS) (n : Nat) (p : π) :
    c_cstl_hash_bucket_foreach visit fuel s n p = bucketForeach visit fuel s p n := by
  unfold c_cstl_hash_bucket_foreach
  exact bucketForeach_loop_tie visit fuel s p n n

/-- `cstl_hash_erase_visit` -/
theorem eraseVisit_tie (s : LS) (p : EraseP) (e : Nat) : c_cstl_hash_erase_visit s p e = eraseVisit s p e := by
  unfold c_cstl_hash_erase_visit eraseVisit
  split <;> rfl

/-! ### frame: what the chain functions leave alone -/

theorem bind_ok_inv {α β : Type} {m : LR α} {f : α → LR β} {b : β} (h : (m >>= f).val = .ok b) :
    ∃ a, m.val = .ok a ∧ (f a).val = .ok b := by
  cases hv : m.val with
  | error e => rw [(bind_err hv).1] at h; cases h
  | ok a => exact ⟨a, rfl, by rw [(bind_ok hv).1] at h; exact h⟩

theorem pure_ok_inv {α : Type} {a b : α} (h : (pure a : LR α).val = .ok b) : a = b := by
  simpa using h

/-- the geometry of the table (what the bounds of the bucket loops depend on) -/
def Fr (s s' : LS) : Prop :=
  s'.t.count = s.t.count ∧ s'.t.rhCount = s.t.rhCount ∧ s'.t.clean = s.t.clean ∧ s'.t.cap = s.t.cap ∧
    s'.t.rhHash = s.t.rhHash

theorem Fr.refl (s : LS) : Fr s s := ⟨rfl, rfl, rfl, rfl, rfl⟩
theorem Fr.trans {a b c : LS} (h1 : Fr a b) (h2 : Fr b c) : Fr a c :=
  ⟨h2.1.trans h1.1, h2.2.1.trans h1.2.1, h2.2.2.1.trans h1.2.2.1, h2.2.2.2.1.trans h1.2.2.2.1,
    h2.2.2.2.2.trans h1.2.2.2.2⟩

theorem relink_frame : ∀ (fuel : Nat) (s : LS) (n : Nat) (s' : LS), (relink hf fuel s n).val = .ok s' → Fr s s'
  | 0, s, n, s', h => by
    unfold relink at h
    by_cases hn : n = 0
    · rw [if_pos hn] at h; exact pure_ok_inv h ▸ Fr.refl s
    · rw [if_neg hn] at h; cases h
  | fuel + 1, s, n, s', h => by
    unfold relink at h
    by_cases hn : n = 0
    · rw [if_pos hn] at h; exact pure_ok_inv h ▸ Fr.refl s
    · rw [if_neg hn] at h
      obtain ⟨j, _, h⟩ := bind_ok_inv h
      obtain ⟨_, _, h⟩ := bind_ok_inv h
      have fr := relink_frame fuel _ _ _ h
      exact fr

theorem cleanBucket_frame {fuel : Nat} {s : LS} {i : Nat} {s' : LS} (h : (cleanBucket hf fuel s i).val = .ok s') :
    Fr s s' := by
  unfold cleanBucket at h
  obtain ⟨_, _, h⟩ := bind_ok_inv h
  by_cases hc : s.t.cst ≠ s.t.bcst i
  · rw [if_pos hc] at h
    obtain ⟨s2, h2, h⟩ := bind_ok_inv h
    obtain ⟨_, _, h⟩ := bind_ok_inv h
    obtain ⟨_, _, h⟩ := bind_ok_inv h
    have := relink_frame hf fuel _ _ _ h2
    exact pure_ok_inv h ▸ Fr.trans (Fr.trans ⟨rfl, rfl, rfl, rfl, rfl⟩ this) ⟨rfl, rfl, rfl, rfl, rfl⟩
  · rw [if_neg hc] at h; exact pure_ok_inv h ▸ Fr.refl s

/-! ### `__cstl_hash_rehash`, `cstl_hash_rehash` -/

/-- first loop of `__cstl_hash_rehash` (skip the buckets that are clean already) -/
theorem skipClean_tie : ∀ (lf : Nat) (s : LS) (d : Nat), s.t.count - s.t.clean ≤ lf → s.t.count - s.t.clean ≤ d →
    c_priv_cstl_hash_rehash_loop1 lf s = skipClean s d
  | 0, s, d, h1, _ => by
    have hc : ¬ s.t.clean < s.t.count := by omega
    unfold c_priv_cstl_hash_rehash_loop1
    cases d with
    | zero => simp [skipClean, hc]
    | succ d => simp [skipClean, hc]
  | lf + 1, s, d, h1, h2 => by
    unfold c_priv_cstl_hash_rehash_loop1
    by_cases hc : s.t.clean < s.t.count
    · cases d with
      | zero => omega
      | succ d =>
        simp only [skipClean, hc, if_true]
        congr 1
        funext _
        by_cases hb : s.t.bcst s.t.clean = s.t.cst
        · simp only [hb, if_true]
          exact skipClean_tie lf _ d (by simp [LS.setClean]; omega) (by simp [LS.setClean]; omega)
        · simp [hb]
    · cases d with
      | zero => simp [skipClean, hc]
      | succ d => simp [skipClean, hc]

theorem skipClean_frame : ∀ (d : Nat) (s s' : LS), (skipClean s d).val = .ok s' →
    s'.t.count = s.t.count ∧ s'.t.rhCount = s.t.rhCount ∧ s'.t.rhHash = s.t.rhHash ∧ s'.t.cap = s.t.cap
  | 0, s, s', h => by
    have := pure_ok_inv (by simpa [skipClean] using h : (pure s : LR LS).val = .ok s')
    subst this; exact ⟨rfl, rfl, rfl, rfl⟩
  | d + 1, s, s', h => by
    unfold skipClean at h
    by_cases hc : s.t.clean < s.t.count
    · rw [if_pos hc] at h
      obtain ⟨_, _, h⟩ := bind_ok_inv h
      by_cases hb : s.t.bcst s.t.clean = s.t.cst
      · rw [if_pos hb] at h
        have fr := skipClean_frame d _ _ h
        exact fr
      · rw [if_neg hb] at h; have := pure_ok_inv h; subst this; exact ⟨rfl, rfl, rfl, rfl⟩
    · rw [if_neg hc] at h; have := pure_ok_inv h; subst this; exact ⟨rfl, rfl, rfl, rfl⟩

/-- second loop of `__cstl_hash_rehash` (clean at most `n` buckets from the sweep index on) -/
theorem sweep_tie (fuel : Nat) : ∀ (lf : Nat) (s : LS) (n d : Nat), s.t.count - s.t.clean ≤ lf → s.t.count - s.t.clean ≤ d →
    obs (c_priv_cstl_hash_rehash_loop2 hf fuel lf s n >>= fun r => pure r.1) = obs (sweep hf fuel s (some n) d)
  | 0, s, n, d, h1, _ => by
    have hc : ¬ s.t.clean < s.t.count := by omega
    unfold c_priv_cstl_hash_rehash_loop2
    cases d with
    | zero => simp [sweep, hc]
    | succ d => simp [sweep, hc]
  | lf + 1, s, n, d, h1, h2 => by
    unfold c_priv_cstl_hash_rehash_loop2
    by_cases hc : s.t.clean < s.t.count ∧ n > 0
    · cases d with
      | zero => omega
      | succ d =>
        have hc' : s.t.clean < s.t.count ∧ some n ≠ some 0 := ⟨hc.1, by simp; omega⟩
        rw [sweep, if_pos hc, if_pos hc']
        simp only [bind_assoc]
        refine obs_bind (cleanBucket_tie hf fuel s s.t.clean) (fun s' hs' => ?_)
        have fr := cleanBucket_frame hf hs'
        exact sweep_tie fuel lf _ (n - 1) d (by simp [LS.setClean, fr.1, fr.2.2.1]; omega)
          (by simp [LS.setClean, fr.1, fr.2.2.1]; omega)
    · have hc' : ¬ (s.t.clean < s.t.count ∧ some n ≠ some 0) := by
        intro h; apply hc; refine ⟨h.1, ?_⟩
        have := h.2; simp at this; omega
      rw [if_neg hc]
      cases d with
      | zero => simp [sweep]
      | succ d => rw [sweep, if_neg hc']; simp

/-- a sweep bounded by at least the number of buckets left is the unbounded sweep (`SIZE_MAX`) -/
theorem sweep_none (fuel : Nat) : ∀ (d : Nat) (s : LS) (n : Nat), d ≤ n →
    sweep hf fuel s (some n) d = sweep hf fuel s none d
  | 0, s, n, _ => by simp [sweep]
  | d + 1, s, n, h => by
    have h0 : (some n : Option Nat) ≠ some 0 := by simp; omega
    simp only [sweep, h0, ne_eq, not_false_eq_true, and_true, reduceCtorEq]
    by_cases hc : s.t.clean < s.t.count
    · simp only [hc, if_true]
      congr 1
      funext s'
      exact sweep_none fuel d _ (n - 1) (by omega)
    · simp [hc]

theorem sweep_frame (fuel : Nat) : ∀ (d : Nat) (s : LS) (n : Option Nat) (s' : LS), (sweep hf fuel s n d).val = .ok s' →
    s'.t.count = s.t.count ∧ s'.t.rhCount = s.t.rhCount ∧ s'.t.rhHash = s.t.rhHash ∧ s'.t.cap = s.t.cap
  | 0, s, n, s', h => by
    have := pure_ok_inv (by simpa [sweep] using h : (pure s : LR LS).val = .ok s')
    subst this; exact ⟨rfl, rfl, rfl, rfl⟩
  | d + 1, s, n, s', h => by
    unfold sweep at h
    by_cases hc : s.t.clean < s.t.count ∧ n ≠ some 0
    · rw [if_pos hc] at h
      obtain ⟨s1, h1, h⟩ := bind_ok_inv h
      have fr := cleanBucket_frame hf h1
      have := sweep_frame fuel d _ _ _ h
      exact ⟨this.1.trans fr.1, this.2.1.trans fr.2.1, this.2.2.1.trans fr.2.2.2.2, this.2.2.2.trans fr.2.2.2.1⟩
    · rw [if_neg hc] at h; have := pure_ok_inv h; subst this; exact ⟨rfl, rfl, rfl, rfl⟩

/-- `__cstl_hash_rehash(h, n)`: skip, sweep, adopt the pending geometry when the sweep index reached the count -/
theorem rehashN_tie (fuel lf : Nat) (s : LS) (n : Nat) (hlf : s.t.count ≤ lf) :
    obs (c_priv_cstl_hash_rehash hf fuel lf s n) = obs (rehashN hf fuel s (some n)) := by
  unfold c_priv_cstl_hash_rehash rehashN
  rw [skipClean_tie lf s (s.t.count - s.t.clean) (by omega) (Nat.le_refl _)]
  refine obs_bind_right _ (fun s1 h1 => ?_)
  have f1 := skipClean_frame _ _ _ h1
  have := sweep_tie hf fuel lf s1 n (s1.t.count - s1.t.clean) (by rw [f1.1]; omega) (Nat.le_refl _)
  refine obs_bind_map (fun r => r.1) this (fun r _ => ?_)
  generalize r.1 = s2
  by_cases hc : s2.t.count ≤ s2.t.clean
  · simp only [hc, if_true]
  · simp only [hc, if_false]

theorem rehashN_frame {fuel : Nat} {s : LS} {n : Option Nat} {s' : LS} (h : (rehashN hf fuel s n).val = .ok s') :
    s'.t.rhCount = s.t.rhCount ∧ s'.t.cap = s.t.cap ∧ (s'.t.count = s.t.count ∨ s'.t.count = s.t.rhCount) := by
  unfold rehashN at h
  obtain ⟨s1, h1, h⟩ := bind_ok_inv h
  obtain ⟨s2, h2, h⟩ := bind_ok_inv h
  have f1 := skipClean_frame _ _ _ h1
  have f2 := sweep_frame hf fuel _ _ _ _ h2
  by_cases hc : s2.t.count ≤ s2.t.clean
  · rw [if_pos hc] at h
    have := pure_ok_inv h; subst this
    exact ⟨f2.2.1.trans f1.2.1, f2.2.2.2.trans f1.2.2.2, Or.inr (f2.2.1.trans f1.2.1)⟩
  · rw [if_neg hc] at h
    have := pure_ok_inv h; subst this
    exact ⟨f2.2.1.trans f1.2.1, f2.2.2.2.trans f1.2.2.2, Or.inl (f2.1.trans f1.1)⟩

/-- `cstl_hash_rehash`: the `SIZE_MAX` sweep is the model's unbounded one for every table with
fewer than 2^64 buckets -/
theorem rehash_tie (fuel lf : Nat) (s : LS) (hlf : s.t.count ≤ lf) (hsz : s.t.count < 2 ^ 64) :
    obs (c_cstl_hash_rehash hf fuel lf s) = obs (rehash hf fuel s) := by
  unfold c_cstl_hash_rehash rehash
  by_cases hp : s.t.rhHash.isSome
  · simp only [hp, if_true]
    rw [rehashN_tie hf fuel lf s _ hlf]
    unfold rehashN
    refine obs_bind_right _ (fun s1 h1 => ?_)
    have f1 := skipClean_frame _ _ _ h1
    rw [sweep_none hf fuel _ s1 18446744073709551615 (by rw [f1.1]; omega)]
  · simp [hp]

/-! ### `cstl_hash_get_bucket`: the keyed lookup sequence -/

/-- `cstl_hash_get_bucket(h, k)`: bucket under the current geometry; while a rehash is pending the bucket
under the pending geometry, clean the OLD bucket, then the NEW one, sweep one more bucket, use the new one -/
theorem keyed_tie (fuel lf : Nat) (s : LS) (k : Nat) (hlf : s.t.count ≤ lf) :
    obs (c_cstl_hash_get_bucket hf fuel lf s k) = obs (keyed hf fuel s k) := by
  unfold c_cstl_hash_get_bucket keyed
  simp only [getBucket_tie, pure_bind]
  refine obs_bind_right _ (fun i _ => ?_)
  by_cases hp : s.t.rhHash.isSome
  · simp only [hp, if_true]
    refine obs_bind_right _ (fun j _ => ?_)
    refine obs_bind (cleanBucket_tie hf fuel s i) (fun s1 h1 => ?_)
    refine obs_bind (cleanBucket_tie hf fuel s1 j) (fun s2 h2 => ?_)
    have fr := Fr.trans (cleanBucket_frame hf h1) (cleanBucket_frame hf h2)
    exact obs_bind (rehashN_tie hf fuel lf s2 1 (by rw [fr.1]; exact hlf)) (fun s3 _ => rfl)
  · simp [hp]

/-! ### `cstl_hash_find` -/

/-- `cstl_hash_find_visit`: only nodes with the sought key; no client function or the client's function
accepts: remember the element and stop the walk -/
theorem findVisit_tie (s : LS) (p : FindP) (e : Nat) : c_cstl_hash_find_visit s p e = findVisit s p e := by
  unfold c_cstl_hash_find_visit findVisit
  by_cases hk : s.keyOf e = p.k
  · simp only [hk, if_true]
    cases hv : p.visit with
    | none => simp
    | some acc =>
      simp only [Option.isNone_some, Bool.false_eq_true, if_false, callAccept, hv, pure_bind]
      by_cases ha : acc p.offers.length (s.nodeOf e) = true
      · simp [ha]
      · simp [ha]
  · simp [hk]

/-- `cstl_hash_find(h, k, visit, p)`: private data, keyed lookup, walk of the bucket's chain with
`cstl_hash_find_visit`; result: the remembered element (and the ghost log of offers) -/
theorem find_tie (fuel lf : Nat) (s : LS) (k : Nat) (accept : Option (Nat → Node → Bool)) (hlf : s.t.count ≤ lf) :
    obs (c_cstl_hash_find hf fuel lf s k accept >>= fun r =>
        pure (r.1, (if r.2.2 = 0 then none else some (r.1.nodeOf r.2.2)), r.2.1.offers.reverse)) =
      obs (find hf fuel s k accept) := by
  have hv : c_cstl_hash_find_visit = findVisit := by
    funext s p e; exact findVisit_tie s p e
  unfold c_cstl_hash_find find
  simp only [hv, bucketForeach_tie, bind_assoc, pure_bind]
  refine obs_bind (keyed_tie hf fuel lf s k hlf) (fun r _ => ?_)
  rfl

/-! ### `__cstl_hash_set_capacity`, `cstl_hash_resize`, `cstl_hash_shrink_to_fit` -/

/-- `__cstl_hash_set_capacity(h, sz)`: the overflow guard `sz <= SIZE_MAX / sizeof(*at)`, the byte count
`sizeof(*at) * sz`, the realloc as an oracle step, adoption of the new array and capacity on success -/
theorem setCapacity_tie (oracle : Nat → Bool) (s : LS) (sz : Nat) :
    c_priv_cstl_hash_set_capacity oracle s sz = setCapacity oracle s sz := by
  unfold c_priv_cstl_hash_set_capacity setCapacity
  by_cases h : sz ≤ 18446744073709551615 / 16
  · have h' : ¬ (2 ^ 64 - 1) / 16 < sz := by omega
    simp only [h, h', if_true, if_false, reallocAt]
    by_cases h0 : sz = 0
    · subst h0; simp [stop_bind]
    · have hb : ¬ (16 * sz) % 2 ^ 64 = 0 := by omega
      have hd : (16 * sz) % 2 ^ 64 / 16 = sz := by omega
      simp only [h0, hb, if_false, bind_assoc, pure_bind]
      congr 1
      funext _
      by_cases ho : oracle ((16 * sz) % 2 ^ 64) = true
      · simp only [ho, if_true, Option.isSome_some, LS.setAt, hd]
        rfl
      · simp [ho]
  · have h' : (2 ^ 64 - 1) / 16 < sz := by omega
    simp [h, h']

theorem setCapacity_frame {oracle : Nat → Bool} {s : LS} {sz : Nat} {s' : LS} (h : (setCapacity oracle s sz).val = .ok s') :
    s'.t.count = s.t.count ∧ s'.t.rhCount = s.t.rhCount ∧ s'.t.hash = s.t.hash ∧ s'.t.rhHash = s.t.rhHash := by
  unfold setCapacity at h
  by_cases h1 : (2 ^ 64 - 1) / 16 < sz
  · rw [if_pos h1] at h; have := pure_ok_inv h; subst this; exact ⟨rfl, rfl, rfl, rfl⟩
  · rw [if_neg h1] at h
    by_cases h0 : sz = 0
    · rw [if_pos h0] at h; cases h
    · rw [if_neg h0] at h
      obtain ⟨_, _, h⟩ := bind_ok_inv h
      by_cases ho : oracle ((16 * sz) % 2 ^ 64) = true
      · simp only [ho, if_true] at h; have := pure_ok_inv h; subst this; exact ⟨rfl, rfl, rfl, rfl⟩
      · simp only [ho] at h; have := pure_ok_inv h; subst this; exact ⟨rfl, rfl, rfl, rfl⟩

/-- the bucket-initialisation loop of `cstl_hash_resize` (`for (i = h->bucket.count; i < count; i++)`) -/
theorem initBuckets_tie (n : Nat) : ∀ (lf : Nat) (s : LS) (i : Nat), n - i ≤ lf →
    (c_cstl_hash_resize_loop1 n lf s i >>= fun r => pure r.1) = initBuckets s i (n - i)
  | 0, s, i, h => by
    have hc : ¬ i < n := by omega
    have hd : n - i = 0 := by omega
    unfold c_cstl_hash_resize_loop1
    simp [hc, hd, initBuckets]
  | lf + 1, s, i, h => by
    unfold c_cstl_hash_resize_loop1
    by_cases hc : i < n
    · have hd : n - i = (n - (i + 1)) + 1 := by omega
      rw [hd, initBuckets]
      simp only [hc, if_true, bind_assoc]
      congr 1
      funext _
      exact initBuckets_tie n lf _ (i + 1) (by omega)
    · have hd : n - i = 0 := by omega
      simp [hc, hd, initBuckets]

theorem rehash_frame {fuel : Nat} {s : LS} {s' : LS} (h : (rehash hf fuel s).val = .ok s') :
    s'.t.rhCount = s.t.rhCount ∧ s'.t.cap = s.t.cap ∧ (s'.t.count = s.t.count ∨ s'.t.count = s.t.rhCount) := by
  unfold rehash at h
  by_cases hp : s.t.rhHash.isSome
  · rw [if_pos hp] at h; exact rehashN_frame hf h
  · rw [if_neg hp] at h; have := pure_ok_inv h; subst this; exact ⟨rfl, rfl, Or.inl rfl⟩

/-- hand copy of the part of the translation of `cstl_hash_resize` after `cstl_hash_rehash(h)` (it is
connected to the regenerated translation by the definitional unfolding in `resize_tie`) -/
def cResizeTail (lf : Nat) (s2 : LS) (n : Nat) (f : Option HashId) : LR LS := do
  let s : LS := { s2 with t := { s2.t with cst := !s2.t.cst } }
  let l5 ← c_cstl_hash_resize_loop1 n lf s s.t.count
  let s := l5.1
  let s ← do
    if f.isSome then
      let s := { s with t := { s.t with rhHash := f } }
      pure s
    else
      if s.t.hash.isSome then
        let s := { s with t := { s.t with rhHash := s.t.hash } }
        pure s
      else
        let s := { s with t := { s.t with rhHash := (some mulId) } }
        pure s
  let s : LS := { s with t := { s.t with rhCount := n } }
  let s := s.setClean 0
  if s.t.hash.isNone then
    let s : LS := { s with t := { s.t with hash := s.t.rhHash } }
    let s : LS := { s with t := { s.t with count := s.t.rhCount } }
    let s : LS := { s with t := { s.t with rhHash := none } }
    pure s
  else
    pure s

/-- the part of `cstl_hash_resize` after the pending rehash has been forced: flip the table's clean bit,
initialise the added buckets, install the pending geometry (the given function, else the current one, else
`cstl_hash_mul`), the first-resize shortcut -/
theorem resizeTail_tie (lf : Nat) (s2 : LS) (n : Nat) (f : Option HashId) (hlf : n ≤ lf) :
    cResizeTail lf s2 n f = resizeTail s2 n f := by
  unfold resizeTail cResizeTail
  have := initBuckets_tie n lf { s2 with t := { s2.t with cst := !s2.t.cst } } s2.t.count (by omega)
  simp only [] at this ⊢
  rw [← this, bind_assoc]
  simp only [pure_bind]
  congr 1
  funext r
  generalize r.1 = s4
  cases f with
  | some g =>
    cases hh : s4.t.hash with
    | none => simp [pickHash, LS.setClean]
    | some h0 => simp [pickHash, LS.setClean]
  | none =>
    cases hh : s4.t.hash with
    | none => simp [pickHash, LS.setClean]
    | some h0 => simp [pickHash, LS.setClean]

/-- `cstl_hash_resize` from the condition on -/
theorem resize_core (fuel lf : Nat) (s1 : LS) (n : Nat) (f : Option HashId) (cc : Nat) (ch : Option HashId)
    (hcc : cc = s1.t.effCount) (hch : ch = s1.t.effHash) (hlf : s1.t.count ≤ lf) (hn : n ≤ lf)
    (hsz : s1.t.count < 2 ^ 64) :
    obs (if s1.t.cap ≠ 0 ∧ n ≤ s1.t.cap ∧ (n ≠ cc ∨ f.isSome = true ∧ f ≠ ch) then
          c_cstl_hash_rehash hf fuel lf s1 >>= fun s2 => cResizeTail lf s2 n f
        else pure s1) =
      obs (if s1.t.cap ≠ 0 ∧ n ≤ s1.t.cap ∧ (n ≠ s1.t.effCount ∨ f ≠ none ∧ f ≠ s1.t.effHash) then
          rehash hf fuel s1 >>= fun s2 => resizeTail s2 n f
        else pure s1) := by
  subst hcc hch
  have hf' : (f.isSome = true) ↔ f ≠ none := by cases f <;> simp
  simp only [hf']
  by_cases hc : s1.t.cap ≠ 0 ∧ n ≤ s1.t.cap ∧ (n ≠ s1.t.effCount ∨ f ≠ none ∧ f ≠ s1.t.effHash)
  · rw [if_pos hc, if_pos hc]
    exact obs_bind (rehash_tie hf fuel lf s1 hlf hsz) (fun s2 _ => by rw [resizeTail_tie lf s2 n f hn])
  · rw [if_neg hc, if_neg hc]

/-- `cstl_hash_resize(h, count, hash)`: nothing for 0; the geometry the table is heading for; growing the
array; the condition (array present, fits, something changes); finishing the pending rehash; the tail -/
theorem resize_tie (fuel lf : Nat) (oracle : Nat → Bool) (s : LS) (n : Nat) (f : Option HashId)
    (hlf : s.t.count ≤ lf) (hn : n ≤ lf) (hsz : s.t.count < 2 ^ 64) :
    obs (c_cstl_hash_resize hf oracle fuel lf s n f) = obs (resize hf fuel oracle s n f) := by
  unfold c_cstl_hash_resize resize
  by_cases h0 : n = 0
  · subst h0; simp
  · have h0' : n > 0 := by omega
    rw [if_pos h0', if_neg h0]
    by_cases hp : s.t.rhHash.isSome = true <;> by_cases hcap : n > s.t.cap <;>
      simp only [hp, hcap, ensureCapacity, if_true, if_false, Bool.false_eq_true, setCapacity_tie]
    · rw [pure_bind (s.t.rhCount, s.t.rhHash)]
      refine obs_bind_right _ (fun s1 h1 => ?_)
      have f1 := setCapacity_frame h1
      rw [pure_bind s1]
      exact resize_core hf fuel lf s1 n f s.t.rhCount s.t.rhHash (by simp [LT.effCount, f1, hp]) (by simp [LT.effHash, f1, hp])
        (by rw [f1.1]; exact hlf) hn (by rw [f1.1]; exact hsz)
    · rw [pure_bind (s.t.rhCount, s.t.rhHash), pure_bind s, pure_bind s]
      exact resize_core hf fuel lf s n f s.t.rhCount s.t.rhHash (by simp [LT.effCount, hp]) (by simp [LT.effHash, hp]) hlf hn hsz
    · rw [pure_bind (s.t.count, s.t.hash)]
      refine obs_bind_right _ (fun s1 h1 => ?_)
      have f1 := setCapacity_frame h1
      rw [pure_bind s1]
      exact resize_core hf fuel lf s1 n f s.t.count s.t.hash (by simp [LT.effCount, f1, hp]) (by simp [LT.effHash, f1, hp])
        (by rw [f1.1]; exact hlf) hn (by rw [f1.1]; exact hsz)
    · rw [pure_bind (s.t.count, s.t.hash), pure_bind s, pure_bind s]
      exact resize_core hf fuel lf s n f s.t.count s.t.hash (by simp [LT.effCount, hp]) (by simp [LT.effHash, hp]) hlf hn hsz

/-- `cstl_hash_shrink_to_fit`: the count the table is heading for; if the array is larger: finish the
pending rehash, give the excess back -/
theorem shrink_tie (fuel lf : Nat) (oracle : Nat → Bool) (s : LS) (hlf : s.t.count ≤ lf) (hsz : s.t.count < 2 ^ 64) :
    obs (c_cstl_hash_shrink_to_fit hf oracle fuel lf s) = obs (shrink hf fuel oracle s) := by
  unfold c_cstl_hash_shrink_to_fit shrink
  have hstep : ∀ c : Nat, c = s.t.effCount →
      obs (if s.t.cap > c then do
            let s ← c_cstl_hash_rehash hf fuel lf s
            let s ← c_priv_cstl_hash_set_capacity oracle s s.t.count
            pure s
          else pure s) =
        obs (if s.t.effCount < s.t.cap then do
            let s1 ← rehash hf fuel s
            setCapacity oracle s1 s1.t.count
          else pure s) := by
    intro c hc
    subst hc
    by_cases hgt : s.t.cap > s.t.effCount
    · rw [if_pos hgt, if_pos hgt]
      refine obs_bind (rehash_tie hf fuel lf s hlf hsz) (fun s1 _ => ?_)
      rw [setCapacity_tie]
    · rw [if_neg hgt, if_neg hgt]
  by_cases hp : s.t.rhHash.isSome = true
  · simp only [hp, if_true]
    rw [pure_bind s.t.rhCount]
    exact hstep s.t.rhCount (by simp [LT.effCount, hp])
  · simp only [hp, if_false, Bool.false_eq_true]
    rw [pure_bind s.t.count]
    exact hstep s.t.count (by simp [LT.effCount, hp])

/-! ### `__cstl_hash_foreach`, `cstl_hash_foreach`, `cstl_hash_foreach_const`, `cstl_hash_clear` -/

/-- the `for` loop of `__cstl_hash_foreach` over the buckets `i < count` while `res == 0`, for the client
visit function of the model (`userVisit`: the callback may erase the element it is given) -/
theorem tableWalk_tie (fuel : Nat) (visit : Nat → Node → Int × Bool) (count : Nat) :
    ∀ (lf : Nat) (s : LS) (p : WalkP) (res : Int) (i : Nat), count - i ≤ lf →
      (c_priv_cstl_hash_foreach_loop1 (userVisit hf fuel visit) fuel count lf s p res i >>= fun r =>
          pure (r.1, r.2.1, r.2.2.1)) = tableWalk hf fuel visit count s p res i (count - i)
  | 0, s, p, res, i, h => by
    have hc : ¬ (i < count ∧ res = 0) := by omega
    have hd : count - i = 0 := by omega
    unfold c_priv_cstl_hash_foreach_loop1
    simp [hc, hd, tableWalk]
  | lf + 1, s, p, res, i, h => by
    unfold c_priv_cstl_hash_foreach_loop1
    by_cases hc : i < count ∧ res = 0
    · have hd : count - i = (count - (i + 1)) + 1 := by omega
      rw [hd, tableWalk, if_pos hc, if_pos hc]
      simp only [bucketForeach_tie, bind_assoc]
      congr 1
      funext _
      congr 1
      funext r
      exact tableWalk_tie fuel visit count lf _ _ _ (i + 1) (by omega)
    · rw [if_neg hc]
      cases hd : count - i with
      | zero => simp [tableWalk]
      | succ d => rw [tableWalk, if_neg hc]; simp

/-- `__cstl_hash_foreach`: the bound of the bucket walk is the current count, or the pending count while a
rehash that GROWS the table is pending (moved nodes live beyond the current count) -/
theorem hforeachP_tie (fuel lf : Nat) (visit : Nat → Node → Int × Bool) (s : LS) (p : WalkP) (hlf : s.t.bound ≤ lf) :
    c_priv_cstl_hash_foreach (userVisit hf fuel visit) fuel lf s p =
      tableWalk hf fuel visit s.t.bound s p 0 0 s.t.bound := by
  unfold c_priv_cstl_hash_foreach
  by_cases hb : s.t.rhHash.isSome = true ∧ s.t.rhCount > s.t.count
  · have hbd : s.t.bound = s.t.rhCount := by
      have hb' : s.t.rhHash.isSome = true ∧ s.t.count < s.t.rhCount := hb
      simp [LT.bound, hb']
    simp only [hb, and_self, if_true]
    rw [pure_bind s.t.rhCount, hbd]
    exact tableWalk_tie hf fuel visit s.t.rhCount lf s p 0 0 (by rw [hbd] at hlf; omega)
  · have hbd : s.t.bound = s.t.count := by
      have hb' : ¬ (s.t.rhHash.isSome = true ∧ s.t.count < s.t.rhCount) := hb
      simp [LT.bound, hb']
    rw [if_neg hb, pure_bind s.t.count, hbd]
    exact tableWalk_tie hf fuel visit s.t.count lf s p 0 0 (by rw [hbd] at hlf; omega)

theorem hforeach_tie (fuel lf : Nat) (visit : Nat → Node → Int × Bool) (s : LS) (hlf : s.t.bound ≤ lf) :
    c_priv_cstl_hash_foreach (userVisit hf fuel visit) fuel lf s { idx := 0, seen := [] } = hforeach hf fuel s visit :=
  hforeachP_tie hf fuel lf visit s _ hlf

/-- `cstl_hash_foreach`: finish the pending rehash, then walk -/
theorem foreach_tie (fuel lf : Nat) (visit : Nat → Node → Int × Bool) (s : LS)
    (hlf : s.t.count ≤ lf) (hlf' : s.t.rhCount ≤ lf) (hsz : s.t.count < 2 ^ 64) :
    obs (c_cstl_hash_foreach hf (userVisit hf fuel visit) fuel lf s { idx := 0, seen := [] } >>= fun r =>
        pure (r.1, r.2.2, r.2.1.seen.reverse)) = obs (foreach hf fuel s visit) := by
  unfold c_cstl_hash_foreach foreach
  simp only [bind_assoc]
  refine obs_bind (rehash_tie hf fuel lf s hlf hsz) (fun s1 h1 => ?_)
  have fr := rehash_frame hf h1
  have hb : s1.t.bound ≤ lf := by
    unfold LT.bound
    split
    · rw [fr.1]; exact hlf'
    · rcases fr.2.2 with h | h <;> rw [h] <;> assumption
  rw [hforeach_tie hf fuel lf visit s1 hb]
  simp only [pure_bind]

/-- `cstl_hash_foreach_visit`: hand the element to the client's `const` function -/
theorem foreachVisit_tie (fuel : Nat) (visit : Nat → Node → Int) :
    c_cstl_hash_foreach_visit visit = userVisit hf fuel (fun i n => (visit i n, false)) := by
  funext s p e
  simp [c_cstl_hash_foreach_visit, userVisit, callConstVisit]

/-- `cstl_hash_foreach_const`: the walk of `__cstl_hash_foreach` (same bound rule — not the current count
only), without finishing the rehash -/
theorem foreachConst_tie (fuel lf : Nat) (visit : Nat → Node → Int) (s : LS) (hlf : s.t.bound ≤ lf) :
    (c_cstl_hash_foreach_const fuel lf s visit >>= fun r => pure (r.2.2, r.2.1.seen.reverse)) =
      foreachConst hf fuel s visit := by
  unfold c_cstl_hash_foreach_const foreachConst
  rw [foreachVisit_tie hf fuel visit]
  simp only [hforeach_tie hf fuel lf _ s hlf, bind_assoc, pure_bind]

/-- `cstl_hash_clear_visit`: hand the element to the client's clear function, go on -/
theorem clearVisit_tie (fuel : Nat) : c_cstl_hash_clear_visit = userVisit hf fuel (fun _ _ => (0, false)) := by
  funext s p e
  simp [c_cstl_hash_clear_visit, userVisit, callClr]

/-- a visit function that leaves the table and the links alone -/
def NoWrite {π : Type} (v : LS → π → Nat → LR (LS × π × Int)) : Prop :=
  ∀ s p n r, (v s p n).val = .ok r → r.1 = s

theorem bucketForeach_nowrite {π : Type} {v : LS → π → Nat → LR (LS × π × Int)} (hv : NoWrite v) :
    ∀ (fuel : Nat) (s : LS) (p : π) (n : Nat) (r : LS × π × Int), (bucketForeach v fuel s p n).val = .ok r → r.1 = s
  | 0, s, p, n, r, h => by
    unfold bucketForeach at h
    by_cases hn : n = 0
    · rw [if_pos hn] at h; exact (pure_ok_inv h) ▸ rfl
    · rw [if_neg hn] at h; cases h
  | fuel + 1, s, p, n, r, h => by
    unfold bucketForeach at h
    by_cases hn : n = 0
    · rw [if_pos hn] at h; exact (pure_ok_inv h) ▸ rfl
    · rw [if_neg hn] at h
      obtain ⟨r1, h1, h⟩ := bind_ok_inv h
      have e1 := hv _ _ _ _ h1
      by_cases hr : r1.2.2 ≠ 0
      · rw [if_pos hr] at h; exact (pure_ok_inv h) ▸ e1
      · rw [if_neg hr] at h
        exact (bucketForeach_nowrite hv fuel _ _ _ _ h).trans e1

theorem userVisit_nowrite (fuel : Nat) (visit : Nat → Node → Int × Bool) (hno : ∀ i n, (visit i n).2 = false) :
    NoWrite (userVisit hf fuel visit) := by
  intro s p n r h
  simp only [userVisit, hno, Bool.false_eq_true, if_false, pure_bind] at h
  exact (pure_ok_inv h) ▸ rfl

theorem tableWalk_nowrite (fuel : Nat) (visit : Nat → Node → Int × Bool) (hno : ∀ i n, (visit i n).2 = false)
    (count : Nat) : ∀ (d : Nat) (s : LS) (p : WalkP) (res : Int) (i : Nat) (r : LS × WalkP × Int),
      (tableWalk hf fuel visit count s p res i d).val = .ok r → r.1 = s
  | 0, s, p, res, i, r, h => by
    unfold tableWalk at h; exact (pure_ok_inv h) ▸ rfl
  | d + 1, s, p, res, i, r, h => by
    unfold tableWalk at h
    by_cases hc : i < count ∧ res = 0
    · rw [if_pos hc] at h
      obtain ⟨_, _, h⟩ := bind_ok_inv h
      obtain ⟨r1, h1, h⟩ := bind_ok_inv h
      have e1 := bucketForeach_nowrite (userVisit_nowrite hf fuel visit hno) _ _ _ _ _ h1
      exact (tableWalk_nowrite fuel visit hno count d _ _ _ _ _ h).trans e1
    · rw [if_neg hc] at h; exact (pure_ok_inv h) ▸ rfl

/-- `cstl_hash_clear(h, clr)`: the walk (only with a client function), the bucket array freed (an allocation
event), every member reset — `bucket.hash` included -/
theorem clear_tie (fuel lf : Nat) (s : LS) (withCb : Bool) (hlf : s.t.bound ≤ lf) :
    (c_cstl_hash_clear fuel lf s withCb >>= fun r => pure (r.1, r.2.seen.reverse)) = clear hf fuel s withCb := by
  unfold c_cstl_hash_clear clear
  cases withCb with
  | false =>
    simp only [Bool.false_eq_true, if_false, bind_assoc, pure_bind, freeAt]
    rfl
  | true =>
    simp only [if_true]
    rw [clearVisit_tie hf fuel]
    simp only [hforeach_tie hf fuel lf _ s hlf, bind_assoc, pure_bind]
    refine bind_congr_val _ (fun w hw => ?_)
    have e := tableWalk_nowrite hf fuel (fun _ _ => (0, false)) (fun _ _ => rfl) _ _ _ _ _ _ _ hw
    simp only [freeAt, e]
    rfl

/-! ### `cstl_hash_insert`, `cstl_hash_erase` (whole functions) -/

/-- `cstl_hash_insert(h, k, e)`: keyed lookup, key field, chain-head insertion, count -/
theorem insert_tie (fuel lf : Nat) (s : LS) (k e : Nat) (hlf : s.t.count ≤ lf) :
    obs (c_cstl_hash_insert hf fuel lf s k e) = obs (insert hf fuel s k e) := by
  unfold c_cstl_hash_insert insert
  exact obs_bind (keyed_tie hf fuel lf s k hlf) (fun r _ => rfl)

/-- `cstl_hash_erase(h, e)`: keyed lookup with the element's key, the walk with `cstl_hash_erase_visit`,
the splice through the pointer-to-pointer, the count -/
theorem erase_tie (fuel lf : Nat) (s : LS) (e : Nat) (hlf : s.t.count ≤ lf) :
    obs (c_cstl_hash_erase hf fuel lf s e) = obs (erase hf fuel s e) := by
  have hv : c_cstl_hash_erase_visit = eraseVisit := by
    funext s p e; exact eraseVisit_tie s p e
  unfold c_cstl_hash_erase erase
  refine obs_bind (keyed_tie hf fuel lf s (s.keyOf e) hlf) (fun r _ => ?_)
  unfold eraseTail
  simp only [hv, bucketForeach_tie, chkN_bind]

/-! ### the inline functions of hash.h -/

/-- `cstl_hash_size` -/
theorem size_tie (s : LS) : c_cstl_hash_size s = pure s.t.size := rfl

/-- `cstl_hash_load`: (numerator, denominator) of the float division — the element count over the pending
count while a rehash is pending, else over the current count; it is `HT.load` of the table the links spell out -/
theorem load_tie (s : LS) (fuel : Nat) : c_cstl_hash_load s = pure (s.read fuel).load := by
  unfold c_cstl_hash_load
  by_cases hp : s.t.rhHash.isSome = true
  · simp [hp, Hash.HT.load, Hash.HT.effCount, LS.read]
  · simp [hp, Hash.HT.load, Hash.HT.effCount, LS.read]

/-- `cstl_hash_swap`: the two table structures trade places (the model's `swap` step) -/
theorem swap_tie (ls : LSys) :
    lstep hf ls Hash.Op.swap =
      pure ({ ls with a := (c_cstl_hash_swap ls.a ls.b).1, b := (c_cstl_hash_swap ls.a ls.b).2 }, Hash.Out.unit) := rfl

end Cstl.HashL.Tie2
