import Cstl.HashL.Lemmas
/-
Refinement of the incremental-rehash machinery: `__cstl_hash_get_bucket`, the
chain-head insertion, the relink loop of `cstl_clean_bucket`,
`cstl_clean_bucket`, the two loops of `__cstl_hash_rehash`, `cstl_hash_rehash`
and the keyed lookup sequence `cstl_hash_get_bucket`.
-/
namespace Cstl.HashL
open Cstl.SList (Mem upd upd_same upd_other)
open Cstl.Hash (HashId Stop Tr Call AllocEv Node HT Bucket R nodes wr rd mem_nodes wr_get SameGeom)

variable (hf : HashId → Nat → Nat → Nat)

theorem Sim.ite_flip {α β : Type} {rel : α → β → Prop} {c c' : Prop} [Decidable c] [Decidable c']
    {l1 l2 : LR α} {a1 a2 : R β} (hc : c ↔ ¬ c') (h1 : c → Sim rel l1 a1) (h2 : ¬ c → Sim rel l2 a2) :
    Sim rel (if c then l1 else l2) (if c' then a2 else a1) := by
  by_cases h : c
  · rw [if_pos h, if_neg (hc.mp h)]; exact h1 h
  · rw [if_neg h, if_pos (Classical.not_not.mp (fun h' => h (hc.mpr h')))]; exact h2 h

/-- `__cstl_hash_get_bucket`: same call log, same index, same `abort` -/
theorem getBucket_sim (f : Option HashId) (k m : Nat) :
    Sim (fun i j => i = j) (getBucket hf f k m) (Hash.getBucket hf f k m) := by
  cases f with
  | none => exact ⟨rfl, rfl⟩
  | some fn =>
    by_cases h : m ≤ hf fn k m
    · refine ⟨?_, ?_⟩
      · simp [getBucket, callHash, Hash.getBucket, bind_def, LR.bind, Hash.bind_def, R.bind, logCall, Hash.logCall,
          pure_def, LR.pure, h, stop, Hash.stop]
      · simp [getBucket, callHash, Hash.getBucket, bind_def, LR.bind, Hash.bind_def, R.bind, logCall, Hash.logCall,
          pure_def, LR.pure, h, stop, Hash.stop]
    · refine ⟨?_, ?_⟩
      · simp [getBucket, callHash, Hash.getBucket, bind_def, LR.bind, Hash.bind_def, R.bind, logCall, Hash.logCall,
          pure_def, LR.pure, Hash.pure_def, R.pure, h, stop]
      · simp [getBucket, callHash, Hash.getBucket, bind_def, LR.bind, Hash.bind_def, R.bind, logCall, Hash.logCall,
          pure_def, LR.pure, Hash.pure_def, R.pure, h, stop]

/-- `HASH_LIST_INSERT(at[j].n, x)` for a node that is in no chain -/
theorem Rep.pushHead {s : LS} {t : HT} (r : Rep s t) {j : Nat} {b : Bucket} (hb : t.bk[j]? = some b)
    {x : Node} (hx0 : x.id ≠ 0) (hfresh : ¬ Owns t x.id) (hkey : s.keyOf x.id = x.key) :
    Rep ((s.setNxt x.id (s.t.head j)).setHead j x.id) (wr t j { b with chain := x :: b.chain }) := by
  have hne : ∀ (i : Nat) (bi : Bucket), t.bk[i]? = some bi → ∀ a ∈ ids bi.chain, a ≠ x.id := by
    intro i bi hbi a ha e
    exact hfresh ⟨i, bi, hbi, e ▸ ha⟩
  refine r.update hb (upd s.nxt x.id (s.t.head j)) s.keyOf (upd s.t.head j x.id) s.t.bcst (x :: b.chain) b.cst
    ?_ (r.bits j b hb) ?_ ?_ (fun _ _ => rfl) ?_ ?_
  · refine ⟨by simp, hx0, ?_⟩
    rw [upd_same]
    exact (r.chain j b hb).transfer (fun a ha => upd_other _ _ _ _ (hne j b hb a ha))
  · intro n hn
    rcases List.mem_cons.mp hn with rfl | hn
    · exact hkey
    · exact r.keys j b hb n hn
  · intro i hi; exact upd_other _ _ _ _ hi
  · intro i bi _ hbi a ha
    exact ⟨upd_other _ _ _ _ (hne i bi hbi a ha), rfl⟩
  · intro i bi hi hbi a ha
    rcases List.mem_cons.mp ha with rfl | ha
    · exact fun h => hfresh ⟨i, bi, hbi, h⟩
    · exact r.not_other hb ha hi hbi

theorem owns_pushHead {t : HT} {j : Nat} {b : Bucket} (hb : t.bk[j]? = some b) (x : Node) (a : Nat) :
    Owns (wr t j { b with chain := x :: b.chain }) a ↔ a = x.id ∨ Owns t a := by
  rw [owns_wr hb]
  constructor
  · rintro (h | ⟨i, bi, _, hbi, ha⟩)
    · rcases List.mem_cons.mp h with h | h
      · exact Or.inl h
      · exact Or.inr ⟨j, b, hb, h⟩
    · exact Or.inr ⟨i, bi, hbi, ha⟩
  · rintro (h | ⟨i, bi, hbi, ha⟩)
    · exact Or.inl (by simp [h])
    · by_cases hij : i = j
      · subst hij
        rw [hb] at hbi; cases hbi
        exact Or.inl (List.mem_cons_of_mem _ ha)
      · exact Or.inr ⟨i, bi, hij, hbi, ha⟩

/-- result of the relink loop: the detached nodes `ns` were added -/
structure Relinked (s : LS) (t : HT) (ns : List Node) (s' : LS) (t' : HT) : Prop where
  rep : Rep s' t'
  same : SameGeom t t'
  own : ∀ a, Owns t' a → Owns t a ∨ a ∈ ids ns
  len : (nodes t').length = (nodes t).length + ns.length
  key : s'.keyOf = s.keyOf
  frame : ∀ a, a ∉ ids ns → s'.nxt a = s.nxt a

/-- **the loop of `cstl_clean_bucket`**: started on a detached chain `ns`
(linked from `n`, nodes in no chain of `t`, at most `fuel` of them) the pointer
loop finishes and relinks exactly as `Hash.reinsert` re-inserts: every node,
in chain order, at the head of its bucket under the pending geometry — same
hash calls, same `abort`. -/
theorem relink_sim : ∀ (ns : List Node) (fuel : Nat) (s : LS) (t : HT) (n : Nat),
    Rep s t → Chain s.nxt n (ids ns) → (∀ x ∈ ns, s.keyOf x.id = x.key) → (∀ a ∈ ids ns, ¬ Owns t a) →
    ns.length ≤ fuel →
    Sim (fun s' t' => Relinked s t ns s' t') (relink hf fuel s n) (Hash.reinsert hf t ns)
  | [], fuel, s, t, n, r, hc, _, _, _ => by
    have hn : n = 0 := hc
    subst hn
    have : relink hf fuel s 0 = pure s := by cases fuel <;> simp [relink]
    rw [this]
    exact Sim.pure ⟨r, SameGeom.refl t, fun a h => Or.inl h, by simp, rfl, fun _ _ => rfl⟩
  | x :: xs, 0, _, _, _, _, _, _, _, hl => by simp at hl
  | x :: xs, fuel + 1, s, t, n, r, hc, hk, hfr, hl => by
    obtain ⟨hn, hx0, hc'⟩ := hc
    subst hn
    have hnd : (x.id :: ids xs).Nodup := Chain.nodup (nxt := s.nxt) (a := x.id) ⟨rfl, hx0, hc'⟩
    have hxs : ∀ a ∈ ids xs, a ≠ x.id := fun a ha e => (List.nodup_cons.mp hnd).1 (e ▸ ha)
    have hstep : relink hf (fuel + 1) s x.id =
        (getBucket hf s.t.rhHash (s.keyOf x.id) s.t.rhCount >>= fun j => chk s.t j >>= fun _ =>
          relink hf fuel ((s.setNxt x.id (s.t.head j)).setHead j x.id) (s.nxt x.id)) := by
      simp only [relink, if_neg hx0]
    rw [hstep, Hash.reinsert_cons, r.rhHash, r.rhCount, hk x (by simp)]
    refine Sim.bind (getBucket_sim hf _ _ _) ?_
    rintro j _ rfl _
    unfold Hash.pushHead
    rw [R_bind_assoc]
    refine Sim.bind (Sim.chk_rd r j) ?_
    intro _ b hb _
    rw [R_pure_bind]
    have hxf : ¬ Owns t x.id := hfr x.id (by simp)
    have r1 := r.pushHead hb hx0 hxf (hk x (by simp))
    have hfr1 : ∀ a ∈ ids xs, ¬ Owns (wr t j { b with chain := x :: b.chain }) a := by
      intro a ha ho
      rcases (owns_pushHead hb x a).mp ho with h | h
      · exact hxs a ha h
      · exact hfr a (by simp [ha]) h
    have hc1 : Chain ((s.setNxt x.id (s.t.head j)).setHead j x.id).nxt (s.nxt x.id) (ids xs) :=
      hc'.transfer (fun a ha => upd_other _ _ _ _ (hxs a ha))
    have hl1 : xs.length ≤ fuel := by simp at hl; omega
    refine (relink_sim xs fuel _ _ _ r1 hc1 (fun y hy => hk y (by simp [hy])) hfr1 hl1).mono ?_
    rintro s' t' ⟨rep, same, own, len, key, frame⟩ _
    refine ⟨rep, (Hash.wr_sameGeom t j _).trans same, ?_, ?_, key, ?_⟩
    · intro a ha
      rcases own a ha with h | h
      · rcases (owns_pushHead hb x a).mp h with h | h
        · exact Or.inr (by simp [h])
        · exact Or.inl h
      · exact Or.inr (by simp [h])
    · have := nodes_wr_len (b' := { b with chain := x :: b.chain }) hb
      simp at this
      simp
      omega
    · intro a ha
      have ha1 : a ∉ ids xs := fun h => ha (by simp [h])
      have ha2 : a ≠ x.id := fun h => ha (by simp [h])
      rw [frame a ha1]
      exact upd_other _ _ _ _ ha2

/-- detaching the chain of bucket `i` -/
theorem Rep.detach {s : LS} {t : HT} (r : Rep s t) {i : Nat} {b : Bucket} (hb : t.bk[i]? = some b) :
    Rep (s.setHead i 0) (wr t i { b with chain := [] }) := by
  refine r.update hb s.nxt s.keyOf (upd s.t.head i 0) s.t.bcst [] b.cst ?_ (r.bits i b hb) (by simp) ?_
    (fun _ _ => rfl) (fun _ _ _ _ _ _ => ⟨rfl, rfl⟩) (by simp)
  · simp
  · intro j hj; exact upd_other _ _ _ _ hj

/-- marking bucket `i` clean -/
theorem Rep.setBit {s : LS} {t : HT} (r : Rep s t) {i : Nat} {b : Bucket} (hb : t.bk[i]? = some b) (c : Bool) :
    Rep (s.setBcst i c) (wr t i { b with cst := c }) := by
  refine r.update hb s.nxt s.keyOf s.t.head (updB s.t.bcst i c) b.chain c (r.chain i b hb) (by simp [updB])
    (r.keys i b hb) (fun _ _ => rfl) ?_ (fun _ _ _ _ _ _ => ⟨rfl, rfl⟩) ?_
  · intro j hj; simp [updB, hj]
  · intro j bj hj hbj a ha
    exact r.not_other hb ha hj hbj

theorem owns_wr_sub {t : HT} {i : Nat} {b b' : Bucket} (hb : t.bk[i]? = some b)
    (hsub : ∀ a ∈ ids b'.chain, a ∈ ids b.chain) {a : Nat} (h : Owns (wr t i b') a) : Owns t a := by
  rcases (owns_wr hb).mp h with h | ⟨j, bj, _, hbj, ha⟩
  · exact ⟨i, b, hb, hsub a h⟩
  · exact ⟨j, bj, hbj, ha⟩

/-- **`cstl_clean_bucket`**: on a state representing `t`, with fuel for the
nodes of the table, the pointer code (detach the chain, relink every node at
the head of its bucket under the pending geometry, mark clean) finishes and
ends in a state representing `Hash.cleanBucket hf t i` — equal call log,
relocation count, stop kind. -/
theorem cleanBucket_sim {s : LS} {t : HT} (r : Rep s t) {fuel : Nat} (hfuel : (nodes t).length ≤ fuel) (i : Nat) :
    Sim (fun s' t' => Step s t s' t') (cleanBucket hf fuel s i) (Hash.cleanBucket hf t i) := by
  rw [Hash.cleanBucket_unfold]
  unfold cleanBucket
  refine Sim.bind (Sim.chk_rd r i) ?_
  intro _ b hb _
  refine Sim.ite_flip ?_ ?_ (fun _ => Sim.pure (Step.refl r))
  · rw [r.cst, r.bits i b hb]
    exact ⟨fun h e => h e.symm, fun h e => h e.symm⟩
  intro _
  have r1 := r.detach hb
  have hfr : ∀ a ∈ ids b.chain, ¬ Owns (wr t i { b with chain := [] }) a := by
    intro a ha ho
    rcases (owns_wr hb).mp ho with h | ⟨j, bj, hj, hbj, haj⟩
    · simp at h
    · exact r.not_other hb ha hj hbj haj
  have hlen : b.chain.length ≤ fuel := Nat.le_trans (chain_le_nodes hb) hfuel
  refine Sim.bind (relink_sim hf b.chain fuel _ _ _ r1 (r.chain i b hb) (r.keys i b hb) hfr hlen) ?_
  rintro s2 t2 ⟨rep2, same2, own2, len2, key2, frame2⟩ _
  refine Sim.bind Sim.tick ?_
  intro _ _ _ _
  refine Sim.bind (Sim.chk_rd rep2 i) ?_
  intro _ b2 hb2 _
  have hcst : s2.t.cst = t.cst := by
    rw [rep2.cst]; exact same2.2.2.1
  rw [hcst]
  refine Sim.pure ⟨rep2.setBit hb2 t.cst, ?_, ?_, key2, ?_⟩
  · intro a ha
    have h2 : Owns t2 a := owns_wr_sub (b' := { b2 with cst := t.cst }) hb2 (fun _ h => h) ha
    rcases own2 a h2 with h | h
    · exact owns_wr_sub hb (by simp) h
    · exact ⟨i, b, hb, h⟩
  · have e1 := nodes_wr_len (b' := { b2 with cst := t.cst }) hb2
    have e2 := nodes_wr_len (b' := { b with chain := [] }) hb
    simp at e1 e2
    omega
  · intro a ha
    have : a ∉ ids b.chain := fun h => ha ⟨i, b, hb, h⟩
    exact frame2 a this

/-- link-level and existing-model state agree on the scalars after a `Step` -/
theorem Step.setClean {s s' : LS} {t t' : HT} (h : Step s t s' t') (c : Nat) :
    Step s t (s'.setClean c) { t' with clean := c } :=
  h.trans (Step.scalars h.rep rfl rfl rfl h.rep.cap h.rep.count h.rep.hash h.rep.cst h.rep.rhHash h.rep.rhCount rfl
    h.rep.size)

/-- first loop of `__cstl_hash_rehash` -/
theorem skipClean_sim : ∀ (d : Nat) {s : LS} {t : HT}, Rep s t →
    Sim (fun s' t' => Step s t s' t') (skipClean s d) (Hash.skipClean t d)
  | 0, s, t, r => Sim.pure (Step.refl r)
  | d + 1, s, t, r => by
    rw [Hash.skipClean_succ]
    unfold skipClean
    refine Sim.ite (by rw [r.clean, r.count]) ?_ (fun _ => Sim.pure (Step.refl r))
    intro _
    rw [r.clean]
    refine Sim.bind (Sim.chk_rd r t.clean) ?_
    intro _ b hb _
    refine Sim.ite (by rw [r.bits _ b hb, r.cst]) ?_ (fun _ => Sim.pure (Step.refl r))
    intro _
    have st := (Step.refl r).setClean (t.clean + 1)
    refine (skipClean_sim d st.rep).mono ?_
    intro s' t' h _
    exact st.trans h

/-- second loop of `__cstl_hash_rehash` -/
theorem sweep_sim (fuel : Nat) : ∀ (d : Nat) {s : LS} {t : HT} (n : Option Nat), Rep s t → (nodes t).length ≤ fuel →
    Sim (fun s' t' => Step s t s' t') (sweep hf fuel s n d) (Hash.sweep hf t n d)
  | 0, s, t, n, r, _ => Sim.pure (Step.refl r)
  | d + 1, s, t, n, r, hfuel => by
    rw [Hash.sweep_succ]
    unfold sweep
    refine Sim.ite (by rw [r.clean, r.count]) ?_ (fun _ => Sim.pure (Step.refl r))
    intro _
    rw [r.clean]
    refine Sim.bind (cleanBucket_sim hf r hfuel t.clean) ?_
    intro s1 t1 st1 _
    have st2 := st1.setClean (t1.clean + 1)
    rw [st1.rep.clean]
    have hf2 : (nodes { t1 with clean := t1.clean + 1 }).length ≤ fuel := Nat.le_trans st2.len hfuel
    refine (sweep_sim fuel d (n.map (· - 1)) st2.rep hf2).mono ?_
    intro s' t' h _
    exact st2.trans h

/-- `__cstl_hash_rehash(h, n)` -/
theorem rehashN_sim {s : LS} {t : HT} (r : Rep s t) {fuel : Nat} (hfuel : (nodes t).length ≤ fuel) (n : Option Nat) :
    Sim (fun s' t' => Step s t s' t') (rehashN hf fuel s n) (Hash.rehashN hf t n) := by
  rw [Hash.rehashN_unfold]
  unfold rehashN
  rw [r.count, r.clean]
  refine Sim.bind (skipClean_sim _ r) ?_
  intro s1 t1 st1 _
  rw [st1.rep.count, st1.rep.clean]
  refine Sim.bind (sweep_sim hf fuel _ n st1.rep (Nat.le_trans st1.len hfuel)) ?_
  intro s2 t2 st2 _
  have st := st1.trans st2
  refine Sim.ite (by rw [st.rep.count, st.rep.clean]) (fun _ => Sim.pure ?_) (fun _ => Sim.pure st)
  refine st.trans (Step.scalars st.rep rfl rfl rfl st.rep.cap st.rep.rhCount st.rep.rhHash st.rep.cst rfl
    st.rep.rhCount st.rep.clean st.rep.size)

/-- `cstl_hash_rehash` -/
theorem rehash_sim {s : LS} {t : HT} (r : Rep s t) {fuel : Nat} (hfuel : (nodes t).length ≤ fuel) :
    Sim (fun s' t' => Step s t s' t') (rehash hf fuel s) (Hash.rehash hf t) := by
  unfold rehash Hash.rehash
  exact Sim.ite (by rw [r.rhHash]) (fun _ => rehashN_sim hf r hfuel none) (fun _ => Sim.pure (Step.refl r))

/-- **the keyed lookup sequence `cstl_hash_get_bucket`**: clean the key's old
bucket, its new bucket, sweep one more — same bucket index, same trace -/
theorem keyed_sim {s : LS} {t : HT} (r : Rep s t) {fuel : Nat} (hfuel : (nodes t).length ≤ fuel) (k : Nat) :
    Sim (fun x y => Step s t x.1 y.1 ∧ x.2 = y.2) (keyed hf fuel s k) (Hash.keyed hf t k) := by
  rw [Hash.keyed_unfold]
  unfold keyed
  rw [r.hash, r.count]
  refine Sim.bind (getBucket_sim hf _ _ _) ?_
  rintro i _ rfl _
  refine Sim.ite (by rw [r.rhHash]) ?_ (fun _ => Sim.pure ⟨Step.refl r, rfl⟩)
  intro _
  rw [r.rhHash, r.rhCount]
  refine Sim.bind (getBucket_sim hf _ _ _) ?_
  rintro j _ rfl _
  refine Sim.bind (cleanBucket_sim hf r hfuel i) ?_
  intro s1 t1 st1 _
  refine Sim.bind (cleanBucket_sim hf st1.rep (Nat.le_trans st1.len hfuel) j) ?_
  intro s2 t2 st2 _
  have st12 := st1.trans st2
  refine Sim.bind (rehashN_sim hf st12.rep (Nat.le_trans st12.len hfuel) (some 1)) ?_
  intro s3 t3 st3 _
  exact Sim.pure ⟨st12.trans st3, rfl⟩

end Cstl.HashL
