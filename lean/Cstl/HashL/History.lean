import Cstl.HashL.Geometry
/-
Histories at link level: two tables (so that swap is covered) over ONE memory
of `next` / `key` fields, driven by the operation lists of
`Cstl/Hash/History.lean`.  Every chain loop gets `count` (the number of
elements of the table, `cstl_hash_size`) as fuel.
-/
namespace Cstl.HashL
open Cstl.SList (Mem upd upd_same upd_other)
open Cstl.Hash (HashId Stop Tr Call AllocEv Node HT Bucket R nodes wr rd mem_nodes wr_get Sys Op Out KOp)

variable (hf : HashId → Nat → Nat → Nat)

/-- the memory of the elements' hash nodes and two tables -/
structure LSys where
  nxt : Mem
  keyOf : Mem
  a : LT
  b : LT

/-- both tables as left by `cstl_hash_init` -/
def LSys.init : LSys := { nxt := fun _ => 0, keyOf := fun _ => 0, a := LT.init, b := LT.init }

def LSys.sel (s : LSys) (tb : Bool) : LS := { nxt := s.nxt, keyOf := s.keyOf, t := if tb then s.b else s.a }
def LSys.put (s : LSys) (tb : Bool) (x : LS) : LSys :=
  if tb then { nxt := x.nxt, keyOf := x.keyOf, a := s.a, b := x.t }
  else { nxt := x.nxt, keyOf := x.keyOf, a := x.t, b := s.b }

/-- fuel of the chain loops: the table's element count -/
def LS.fuel (s : LS) : Nat := s.t.size

/-- one operation on the link-level system (cf. `Hash.step`) -/
def lstep (s : LSys) : Op → LR (LSys × Out)
  | .insert tb k e => do
    let x ← insert hf (s.sel tb).fuel (s.sel tb) k e
    pure (s.put tb x, .unit)
  | .find tb k acc => do
    let r ← find hf (s.sel tb).fuel (s.sel tb) k acc
    pure (s.put tb r.1, .found r.2.1 r.2.2)
  | .erase tb e => do
    let x ← erase hf (s.sel tb).fuel (s.sel tb) e
    pure (s.put tb x, .unit)
  | .resize tb n f oracle => do
    let x ← resize hf (s.sel tb).fuel oracle (s.sel tb) n f
    pure (s.put tb x, .unit)
  | .rehash tb => do
    let x ← rehash hf (s.sel tb).fuel (s.sel tb)
    pure (s.put tb x, .unit)
  | .shrink tb oracle => do
    let x ← shrink hf (s.sel tb).fuel oracle (s.sel tb)
    pure (s.put tb x, .unit)
  | .swap => pure ({ s with a := s.b, b := s.a }, .unit)
  | .foreach tb visit => do
    let r ← foreach hf (s.sel tb).fuel (s.sel tb) visit
    pure (s.put tb r.1, .visited r.2.1 r.2.2)
  | .foreachConst tb visit => do
    let r ← foreachConst hf (s.sel tb).fuel (s.sel tb) visit
    pure (s, .visited r.1 r.2)
  | .clear tb withCb => do
    let r ← clear hf (s.sel tb).fuel (s.sel tb) withCb
    pure (s.put tb r.1, .visited 0 r.2)

def lrun (s : LSys) : List Op → LR (LSys × List Out)
  | [] => pure (s, [])
  | op :: ops => do
    let r ← lstep hf s op
    let r' ← lrun r.1 ops
    pure (r'.1, r.2 :: r'.2)

/-- the link-level system represents the system of the existing model: each
table is represented over the shared memory, the `key` fields are the key
memory of the existing model -/
structure RepSys (ls : LSys) (sys : Sys) : Prop where
  ra : Rep (ls.sel false) sys.a
  rb : Rep (ls.sel true) sys.b
  key : ls.keyOf = sys.key

/-- elements are passed by non-NULL pointers -/
def NonNull : Op → Prop
  | .insert _ _ e => e ≠ 0
  | _ => True

theorem RepSys.sel {ls : LSys} {sys : Sys} (rs : RepSys ls sys) (tb : Bool) : Rep (ls.sel tb) (sys.sel tb) := by
  cases tb
  · exact rs.ra
  · exact rs.rb

/-- a table's representation only depends on the links and keys of its own nodes -/
theorem Rep.frame {nxt keyOf nxt' keyOf' : Mem} {lt : LT} {t : HT} (r : Rep { nxt := nxt, keyOf := keyOf, t := lt } t)
    (h : ∀ a, Owns t a → nxt' a = nxt a ∧ keyOf' a = keyOf a) : Rep { nxt := nxt', keyOf := keyOf', t := lt } t := by
  refine ⟨r.cap, r.count, r.hash, r.cst, r.rhHash, r.rhCount, r.clean, r.size, ?_, r.bits, ?_, r.uniq⟩
  · intro i b hb
    exact (r.chain i b hb).transfer (fun a ha => (h a ⟨i, b, hb, ha⟩).1)
  · intro i b hb n hn
    show keyOf' n.id = n.key
    rw [(h n.id ⟨i, b, hb, mem_ids.mpr ⟨n, hn, rfl⟩⟩).2]
    exact r.keys i b hb n hn

theorem init_rep : Rep { nxt := fun _ => 0, keyOf := fun _ => 0, t := LT.init } HT.init := by
  refine ⟨rfl, rfl, rfl, rfl, rfl, rfl, rfl, rfl, ?_, ?_, ?_, ?_⟩ <;> intros <;> simp_all [HT.init]

theorem LSys.init_rep : RepSys LSys.init Sys.init := ⟨HashL.init_rep, HashL.init_rep, rfl⟩

theorem disj_owns {sys : Sys} (si : Hash.SysInv hf sys) {a : Nat} (ha : Owns sys.a a) (hb : Owns sys.b a) : False := by
  obtain ⟨n, hn, rfl⟩ := owns_iff.mp ha
  obtain ⟨m, hm, e⟩ := owns_iff.mp hb
  exact si.disj n hn m hm e.symm

theorem disj_sel {sys : Sys} (si : Hash.SysInv hf sys) (tb : Bool) {a : Nat} (h1 : Owns (sys.sel tb) a)
    (h2 : Owns (sys.sel (!tb)) a) : False := by
  cases tb
  · exact disj_owns hf si h1 h2
  · exact disj_owns hf si h2 h1

/-- installing the result of an operation on table `tb` that wrote only `next`
fields of that table's nodes (and possibly the fields of a node `e` that is in
neither table) -/
theorem RepSys.put {ls : LSys} {sys : Sys} (rs : RepSys ls sys) (tb : Bool) {s' : LS} {t' : HT} {key' : Nat → Nat}
    (r' : Rep s' t') (hk : s'.keyOf = key')
    (hframe : ∀ a, Owns (sys.sel (!tb)) a → s'.nxt a = ls.nxt a ∧ s'.keyOf a = ls.keyOf a) :
    RepSys (ls.put tb s') { sys.put tb t' with key := key' } := by
  cases tb
  · refine ⟨r', ?_, hk⟩
    exact Rep.frame rs.rb hframe
  · refine ⟨?_, r', hk⟩
    exact Rep.frame rs.ra hframe

theorem RepSys.put_step {ls : LSys} {sys : Sys} (rs : RepSys ls sys) (si : Hash.SysInv hf sys) (tb : Bool)
    {s' : LS} {t' : HT} (st : Step (ls.sel tb) (sys.sel tb) s' t') : RepSys (ls.put tb s') (sys.put tb t') := by
  have := rs.put tb (key' := sys.key) st.rep (by rw [st.key]; exact rs.key) (fun a ha =>
    ⟨st.frame a (fun h => disj_sel hf si tb h ha), by rw [st.key]; rfl⟩)
  cases tb <;> exact this

theorem fuel_ok {ls : LSys} {sys : Sys} (rs : RepSys ls sys) (si : Hash.SysInv hf sys) (tb : Bool) :
    (nodes (sys.sel tb)).length ≤ (ls.sel tb).fuel := by
  unfold LS.fuel
  rw [(rs.sel tb).size, (si.sel hf tb).size_eq]
  exact Nat.le_refl _

/-- **one operation of a history**: from a state representing `sys` (which
satisfies the system invariant), inside the documented domain, the link-level
operation simulates the operation of the existing model and the result
represents its result -/
theorem lstep_sim {ls : LSys} {sys : Sys} (rs : RepSys ls sys) (si : Hash.SysInv hf sys) (op : Op)
    (hv : Hash.Valid sys op) (hnz : NonNull op) :
    Sim (fun x y => RepSys x.1 y.1 ∧ x.2 = y.2) (lstep hf ls op) (Hash.step hf sys op) := by
  cases op with
  | insert tb k e =>
    obtain ⟨_, hfa, hfb⟩ := hv
    have hna : ¬ Owns sys.a e := fun h => by obtain ⟨n, hn, he⟩ := owns_iff.mp h; exact hfa n hn he
    have hnb : ¬ Owns sys.b e := fun h => by obtain ⟨n, hn, he⟩ := owns_iff.mp h; exact hfb n hn he
    have hfresh : ¬ Owns (sys.sel tb) e := by cases tb <;> assumption
    have hother : ¬ Owns (sys.sel (!tb)) e := by cases tb <;> assumption
    refine Sim.bind (insert_sim hf (rs.sel tb) (fuel_ok hf rs si tb) k e hnz hfresh) ?_
    intro s' t' ins _
    refine Sim.pure ⟨?_, rfl⟩
    refine rs.put tb ins.rep ?_ ?_
    · rw [ins.key]
      show upd ls.keyOf e k = _
      rw [rs.key]; rfl
    · intro a ha
      have hae : a ≠ e := fun h => hother (h ▸ ha)
      refine ⟨ins.frame a hae (fun h => disj_sel hf si tb h ha), ?_⟩
      rw [ins.key]; exact upd_other _ _ _ _ hae
  | find tb k acc =>
    refine Sim.bind (find_sim hf (rs.sel tb) (fuel_ok hf rs si tb) k acc) ?_
    rintro ⟨s', r1, o1⟩ ⟨t', r2, o2⟩ ⟨st, he⟩ _
    simp only at st he
    cases he
    exact Sim.pure ⟨rs.put_step hf si tb st, rfl⟩
  | erase tb e =>
    have hk : sys.key e = (ls.sel tb).keyOf e := by rw [← rs.key]; rfl
    show Sim _ _ (Hash.erase hf (sys.sel tb) (sys.key e) e >>= _)
    rw [hk]
    refine Sim.bind (erase_sim hf (rs.sel tb) (fuel_ok hf rs si tb) e) ?_
    intro s' t' st _
    exact Sim.pure ⟨rs.put_step hf si tb st, rfl⟩
  | resize tb n f oracle =>
    refine Sim.bind (resize_sim hf (rs.sel tb) (fuel_ok hf rs si tb) oracle n f) ?_
    intro s' t' st _
    exact Sim.pure ⟨rs.put_step hf si tb st, rfl⟩
  | rehash tb =>
    refine Sim.bind (rehash_sim hf (rs.sel tb) (fuel_ok hf rs si tb)) ?_
    intro s' t' st _
    exact Sim.pure ⟨rs.put_step hf si tb st, rfl⟩
  | shrink tb oracle =>
    refine Sim.bind (shrink_sim hf (rs.sel tb) (fuel_ok hf rs si tb) oracle) ?_
    intro s' t' st _
    exact Sim.pure ⟨rs.put_step hf si tb st, rfl⟩
  | swap => exact Sim.pure ⟨⟨rs.rb, rs.ra, rs.key⟩, rfl⟩
  | foreach tb visit =>
    refine Sim.bind (foreach_sim hf (rs.sel tb) (si.sel hf tb) (fuel_ok hf rs si tb) visit) ?_
    rintro ⟨s', r1, o1⟩ ⟨t', r2, o2⟩ ⟨st, he⟩ _
    simp only at st he
    cases he
    exact Sim.pure ⟨rs.put_step hf si tb st, rfl⟩
  | foreachConst tb visit =>
    refine Sim.bind (foreachConst_sim hf (rs.sel tb) (fuel_ok hf rs si tb) visit) ?_
    rintro x y rfl _
    exact Sim.pure ⟨rs, rfl⟩
  | clear tb withCb =>
    refine Sim.bind (clear_sim hf (rs.sel tb) (fuel_ok hf rs si tb) withCb) ?_
    rintro ⟨s', o1⟩ ⟨t', o2⟩ ⟨st, he⟩ _
    simp only at st he
    cases he
    exact Sim.pure ⟨rs.put_step hf si tb st, rfl⟩

/-- every inserted element is non-NULL -/
def NonNullAll (ops : List Op) : Prop := ∀ op ∈ ops, NonNull op

/-- **History theorem (refinement)**: along every history inside the documented
domain, started in a link-level state that represents `sys`, the link-level
run makes the same hash calls, relocations and allocation requests as the run
of the existing model, stops exactly when and how it stops, never runs out of
fuel, returns the same answers, and ends in a state that represents its final
state. -/
theorem lrun_sim : ∀ (ops : List Op) (ls : LSys) (sys : Sys), RepSys ls sys → Hash.SysInv hf sys →
    Hash.ValidFrom hf sys ops → NonNullAll ops →
    Sim (fun x y => RepSys x.1 y.1 ∧ x.2 = y.2) (lrun hf ls ops) (Hash.run hf sys ops)
  | [], ls, sys, rs, _, _, _ => Sim.pure ⟨rs, rfl⟩
  | op :: ops, ls, sys, rs, si, hv, hnz => by
    show Sim _ (lstep hf ls op >>= fun r => lrun hf r.1 ops >>= fun r' => pure (r'.1, r.2 :: r'.2))
      (Hash.step hf sys op >>= fun r => Hash.run hf r.1 ops >>= fun r' => pure (r'.1, r.2 :: r'.2))
    refine Sim.bind (lstep_sim hf rs si op hv.1 (hnz op (by simp))) ?_
    rintro ⟨ls1, o1⟩ ⟨sys1, o2⟩ ⟨rs1, he⟩ hval
    simp only at rs1 he
    subst he
    have si1 : Hash.SysInv hf sys1 := ((Hash.step_refines hf si op hv.1).of_ok hval).1.1
    have hv1 : Hash.ValidFrom hf sys1 ops := hv.2 sys1 o1 hval
    refine Sim.bind (lrun_sim ops ls1 sys1 rs1 si1 hv1 (fun o ho => hnz o (by simp [ho]))) ?_
    rintro ⟨ls2, os1⟩ ⟨sys2, os2⟩ ⟨rs2, he2⟩ _
    simp only at rs2 he2
    subst he2
    exact Sim.pure ⟨rs2, rfl⟩

/-! ### keyed histories on one table (C19) -/

/-- a keyed operation on one table at link level (cf. `Hash.kstep`); `erase`
reads the key from the element's `key` field -/
def lkstep (fuel : Nat) (s : LS) : KOp → LR LS
  | .insert k e => insert hf fuel s k e
  | .find k acc => do
    let r ← find hf fuel s k acc
    pure r.1
  | .erase _ e => erase hf fuel s e

/-- what `Hash.KValid` does not say: non-NULL fresh element; the key given to
`erase` is what the element's key field holds -/
def LKValid (s : LS) (t : HT) : KOp → Prop
  | .insert _ e => e ≠ 0 ∧ ¬ Owns t e
  | .find _ _ => True
  | .erase k e => s.keyOf e = k

theorem lkstep_sim {s : LS} {t : HT} (r : Rep s t) {fuel : Nat} (hfuel : (nodes t).length + 1 ≤ fuel) (op : KOp)
    (hv : LKValid s t op) :
    Sim (fun s' t' => Rep s' t' ∧ (nodes t').length ≤ (nodes t).length + 1) (lkstep hf fuel s op) (Hash.kstep hf t op) := by
  have hfuel' : (nodes t).length ≤ fuel := by omega
  cases op with
  | insert k e =>
    exact (insert_sim hf r hfuel' k e hv.1 hv.2).mono (fun _ _ h _ => ⟨h.rep, h.len⟩)
  | find k acc =>
    refine Sim.bind (find_sim hf r hfuel' k acc) ?_
    rintro ⟨s', r1, o1⟩ ⟨t', r2, o2⟩ ⟨st, _⟩ _
    exact Sim.pure ⟨st.rep, Nat.le_trans st.len (Nat.le_succ _)⟩
  | erase k e =>
    have hk : s.keyOf e = k := hv
    show Sim _ (erase hf fuel s e) (Hash.erase hf t k e)
    rw [← hk]
    exact (erase_sim hf r hfuel' e).mono (fun _ _ h _ => ⟨h.rep, Nat.le_trans h.len (Nat.le_succ _)⟩)

/-- like `Sim.bind`, also handing the link-level result to the continuation -/
theorem Sim.bind_val {α β α' β' : Type} {rel : α → β → Prop} {rel' : α' → β' → Prop} {l : LR α} {a : R β}
    {f : α → LR α'} {g : β → R β'} (h : Sim rel l a)
    (hf' : ∀ x b, rel x b → l.val = .ok x → a.val = .ok b → Sim rel' (f x) (g b)) : Sim rel' (l >>= f) (a >>= g) := by
  refine Sim.bind (rel := fun x b => rel x b ∧ l.val = .ok x) ?_ (fun x b hr hv => hf' x b hr.1 hr.2 hv)
  obtain ⟨h1, h2⟩ := h
  refine ⟨h1, ?_⟩
  cases hv : a.val with
  | ok b => rw [hv] at h2; obtain ⟨x, hx, hr⟩ := h2; exact ⟨x, hx, hr, hx⟩
  | error e => rw [hv] at h2; exact h2

/-- a sequence of keyed operations on one table at link level (cf. `Hash.krun`) -/
def lkrun (fuel : Nat) (s : LS) : List KOp → LR LS
  | [] => pure s
  | op :: ops => do
    let s' ← lkstep hf fuel s op
    lkrun fuel s' ops

def LKValidFrom (fuel : Nat) (s : LS) (t : HT) : List KOp → Prop
  | [] => True
  | op :: ops => LKValid s t op ∧
      ∀ s' t', (lkstep hf fuel s op).val = .ok s' → (Hash.kstep hf t op).val = .ok t' → LKValidFrom fuel s' t' ops

theorem lkrun_sim (fuel : Nat) : ∀ (ops : List KOp) (s : LS) (t : HT), Rep s t → (nodes t).length + ops.length ≤ fuel →
    LKValidFrom hf fuel s t ops → Sim (fun s' t' => Rep s' t') (lkrun hf fuel s ops) (Hash.krun hf t ops)
  | [], s, t, r, _, _ => Sim.pure r
  | op :: ops, s, t, r, hfuel, hv => by
    show Sim _ (lkstep hf fuel s op >>= fun s' => lkrun hf fuel s' ops)
      (Hash.kstep hf t op >>= fun t' => Hash.krun hf t' ops)
    have hf1 : (nodes t).length + 1 ≤ fuel := by simp at hfuel; omega
    refine Sim.bind_val (lkstep_sim hf r hf1 op hv.1) ?_
    intro s' t' ⟨r', hlen⟩ hl ha
    exact lkrun_sim fuel ops s' t' r' (by simp at hfuel; omega) (hv.2 s' t' hl ha)

end Cstl.HashL
