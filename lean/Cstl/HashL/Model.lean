import Cstl.SList.Model
import Cstl.Hash.Model
/-
LINK-LEVEL model of src/hash.c (area `hashl`).

`Cstl/Hash/Model.lean` keeps every bucket's chain as an abstract `List Node`.
In the C code a chain is a singly linked list through the `next` field of the
`struct cstl_hash_node` embedded in the elements, the bucket array is an array
of `{ n; cst }`, `cstl_clean_bucket` detaches a chain and relinks every node at
the head of its bucket under the pending geometry, `cstl_hash_find` walks the
links offering nodes to a callback, `cstl_hash_erase` unlinks by pointer
identity with a pointer-to-pointer walk.  This file models exactly that:

* memories `nxt : Nat → Nat` (node address → `next`, 0 = NULL) and
  `keyOf : Nat → Nat` (node address → `key`), shared by all tables;
* per table (`LT`): `head i` = `bucket.at[i].n`, `bcst i` = `bucket.at[i].cst`,
  `cap` = `bucket.capacity` (`bucket.at == NULL` iff `cap = 0`), and the scalar
  members of `struct cstl_hash`;
* one update (`setNxt`/`setKey`/`setHead`/`setBcst`/…) per C assignment, in
  the order of the C code; chain loops carry fuel (`hang` = did not finish —
  a cyclic chain); every access to `bucket.at[i]` is bounds-checked (`chk`:
  `oob` outside the array, `nullDeref` when there is no array);
* the hash functions are ONE uninterpreted `hf`; `__cstl_hash_get_bucket`
  stops with `abort` on an out-of-range result;
* `realloc` of the bucket array stays abstract (oracle, as in the existing
  model); the operations report the same trace `Tr` (hash-call log, relocated
  buckets, allocation events) as the existing model.

`Cstl/HashL/Props.lean` proves that every operation here refines the operation
of `Cstl/Hash/Model.lean` under the abstraction relation `Rep`.

Core Lean only (the driver `m_hashl` links this file).
-/
namespace Cstl.HashL
open Cstl.SList (Mem upd)
open Cstl.Hash (HashId Stop Tr Call AllocEv Node mulId pickHash)

/-- a link-level operation stops like the existing model's, or does not finish -/
inductive LStop where
  | stop (e : Stop)
  | hang          -- a chain loop ran out of fuel (cyclic chain)
deriving DecidableEq, Repr, Inhabited

/-- result of a link-level operation: same trace as `Cstl.Hash.R` -/
structure LR (α : Type) where
  tr : Tr
  val : Except LStop α

namespace LR
def pure {α : Type} (a : α) : LR α := { tr := {}, val := .ok a }
def bind {α β : Type} (m : LR α) (f : α → LR β) : LR β :=
  match m.val with
  | .ok a => { tr := m.tr.append (f a).tr, val := (f a).val }
  | .error e => { tr := m.tr, val := .error e }
end LR

instance : Monad LR where
  pure := LR.pure
  bind := LR.bind

def stop {α : Type} (e : Stop) : LR α := { tr := {}, val := .error (.stop e) }
def hang {α : Type} : LR α := { tr := {}, val := .error .hang }
def logCall (c : Call) : LR Unit := { tr := { calls := [c] }, val := .ok () }
def tickReloc : LR Unit := { tr := { reloc := 1 }, val := .ok () }
def logEv (e : AllocEv) : LR Unit := { tr := { evs := [e] }, val := .ok () }

def updB (f : Nat → Bool) (a : Nat) (v : Bool) : Nat → Bool := fun x => if x = a then v else f x

/-- `struct cstl_hash` with its bucket array (the `off` member is constant and not modelled) -/
structure LT where
  head : Nat → Nat             -- bucket.at[i].n
  bcst : Nat → Bool            -- bucket.at[i].cst
  cap : Nat                    -- bucket.capacity; bucket.at == NULL iff 0
  count : Nat                  -- bucket.count
  hash : Option HashId         -- bucket.hash
  cst : Bool                   -- bucket.cst
  rhHash : Option HashId       -- bucket.rh.hash
  rhCount : Nat                -- bucket.rh.count
  clean : Nat                  -- bucket.rh.clean
  size : Nat                   -- count

/-- `cstl_hash_init` -/
def LT.init : LT :=
  { head := fun _ => 0, bcst := fun _ => false, cap := 0, count := 0, hash := none, cst := false,
    rhHash := none, rhCount := 0, clean := 0, size := 0 }

/-- the memory of the elements' hash nodes and one table -/
structure LS where
  nxt : Mem                    -- n->next
  keyOf : Mem                  -- n->key
  t : LT

namespace LS
def setNxt (s : LS) (a v : Nat) : LS := { s with nxt := upd s.nxt a v }
def setKey (s : LS) (a v : Nat) : LS := { s with keyOf := upd s.keyOf a v }
def setHead (s : LS) (i v : Nat) : LS := { s with t := { s.t with head := upd s.t.head i v } }
def setBcst (s : LS) (i : Nat) (v : Bool) : LS := { s with t := { s.t with bcst := updB s.t.bcst i v } }
def setClean (s : LS) (v : Nat) : LS := { s with t := { s.t with clean := v } }
def setSize (s : LS) (v : Nat) : LS := { s with t := { s.t with size := v } }
/-- the node at address `n` as the existing model sees it -/
def nodeOf (s : LS) (n : Nat) : Node := { key := s.keyOf n, id := n }
end LS

/-- an access to `bucket.at[i]` -/
def chk (t : LT) (i : Nat) : LR Unit :=
  if i < t.cap then pure () else if t.cap = 0 then stop .nullDeref else stop .oob

/-- a dereference of a node pointer that was loaded from memory -/
def chkN (a : Nat) : LR Unit := if a = 0 then stop .nullDeref else pure ()

section
variable (hf : HashId → Nat → Nat → Nat)

/-- a call through a `cstl_hash_func_t *` -/
def callHash (f : Option HashId) (k m : Nat) : LR Nat :=
  match f with
  | none => stop .nullDeref
  | some fn => do
    logCall { fn := fn, key := k, m := m }
    pure (hf fn k m)

/-- `__cstl_hash_get_bucket(h, k, hash, count)`: the bucket index, after the range check -/
def getBucket (f : Option HashId) (k m : Nat) : LR Nat := do
  let i ← callHash hf f k m
  if i ≥ m then stop .abort else pure i

/-- the loop of `cstl_clean_bucket`: `HASH_LIST_FOREACH(n, n, nn) { _bk = …; HASH_LIST_INSERT(_bk->n, n); }` -/
def relink : Nat → LS → Nat → LR LS
  | 0, s, n => if n = 0 then pure s else hang
  | fuel + 1, s, n =>
    if n = 0 then pure s
    else do
      let nn := s.nxt n
      let j ← getBucket hf s.t.rhHash (s.keyOf n) s.t.rhCount
      chk s.t j
      let s1 := s.setNxt n (s.t.head j)        -- n->next = _bk->n
      let s2 := s1.setHead j n                 -- _bk->n = n
      relink fuel s2 nn

/-- `cstl_clean_bucket(h, &h->bucket.at[i])` -/
def cleanBucket (fuel : Nat) (s : LS) (i : Nat) : LR LS := do
  chk s.t i
  if s.t.cst ≠ s.t.bcst i then do
    let n := s.t.head i                        -- n = bk->n
    let s1 := s.setHead i 0                    -- bk->n = NULL
    let s2 ← relink hf fuel s1 n
    tickReloc
    chk s2.t i
    pure (s2.setBcst i s2.t.cst)               -- bk->cst = h->bucket.cst
  else pure s

/-- first loop of `__cstl_hash_rehash`; `d = count - clean` -/
def skipClean : LS → Nat → LR LS
  | s, 0 => pure s
  | s, d + 1 =>
    if s.t.clean < s.t.count then do
      chk s.t s.t.clean
      if s.t.bcst s.t.clean = s.t.cst then skipClean (s.setClean (s.t.clean + 1)) d else pure s
    else pure s

/-- second loop of `__cstl_hash_rehash`; `n = none` is `SIZE_MAX`; `d = count - clean` -/
def sweep (fuel : Nat) : LS → Option Nat → Nat → LR LS
  | s, _, 0 => pure s
  | s, n, d + 1 =>
    if s.t.clean < s.t.count ∧ n ≠ some 0 then do
      let s' ← cleanBucket hf fuel s s.t.clean
      sweep fuel (s'.setClean (s'.t.clean + 1)) (n.map (· - 1)) d
    else pure s

/-- `__cstl_hash_rehash(h, n)` -/
def rehashN (fuel : Nat) (s : LS) (n : Option Nat) : LR LS := do
  let s1 ← skipClean s (s.t.count - s.t.clean)
  let s2 ← sweep hf fuel s1 n (s1.t.count - s1.t.clean)
  if s2.t.count ≤ s2.t.clean then
    pure { s2 with t := { s2.t with count := s2.t.rhCount, hash := s2.t.rhHash, rhHash := none } }
  else pure s2

/-- `cstl_hash_rehash` -/
def rehash (fuel : Nat) (s : LS) : LR LS :=
  if s.t.rhHash.isSome then rehashN hf fuel s none else pure s

/-- `cstl_hash_get_bucket(h, k)`: (state, bucket index) -/
def keyed (fuel : Nat) (s : LS) (k : Nat) : LR (LS × Nat) := do
  let i ← getBucket hf s.t.hash k s.t.count
  if s.t.rhHash.isSome then do
    let j ← getBucket hf s.t.rhHash k s.t.rhCount
    let s1 ← cleanBucket hf fuel s i
    let s2 ← cleanBucket hf fuel s1 j
    let s3 ← rehashN hf fuel s2 (some 1)
    pure (s3, j)
  else pure (s, i)

/-- the part of `cstl_hash_insert(h, k, e)` after the keyed lookup returned `&h->bucket.at[bk]` -/
def insertTail (s : LS) (bk k e : Nat) : LR LS := do
  let s1 := s.setKey e k                       -- hn->key = k
  chk s1.t bk
  let s2 := s1.setNxt e (s1.t.head bk)         -- hn->next = bk->n
  let s3 := s2.setHead bk e                    -- bk->n = hn
  pure (s3.setSize (s3.t.size + 1))            -- h->count++

/-- `cstl_hash_insert(h, k, e)` -/
def insert (fuel : Nat) (s : LS) (k e : Nat) : LR LS := do
  let r ← keyed hf fuel s k
  insertTail r.1 r.2 k e

/-- `cstl_hash_bucket_foreach(h, n, visit, p)`: the successor is read before the
visit; the visit function gets the memory, its private data and the node and
returns them with its result.  Result: (memory, private data, `res`). -/
def bucketForeach {π : Type} (visit : LS → π → Nat → LR (LS × π × Int)) : Nat → LS → π → Nat → LR (LS × π × Int)
  | 0, s, p, n => if n = 0 then pure (s, p, 0) else hang
  | fuel + 1, s, p, n =>
    if n = 0 then pure (s, p, 0)
    else do
      let nn := s.nxt n
      let r ← visit s p n
      if r.2.2 ≠ 0 then pure r else bucketForeach visit fuel r.1 r.2.1 nn

/-- `struct cstl_hash_find_priv` (`offers` is a ghost: the calls of the user's
visit function, latest first) -/
structure FindP where
  k : Nat
  visit : Option (Nat → Node → Bool)
  e : Nat
  offers : List Node

/-- `cstl_hash_find_visit` -/
def findVisit (s : LS) (p : FindP) (n : Nat) : LR (LS × FindP × Int) :=
  if s.keyOf n = p.k then
    match p.visit with
    | none => pure (s, { p with e := n }, 1)
    | some acc =>
      if acc p.offers.length (s.nodeOf n) then pure (s, { p with e := n, offers := s.nodeOf n :: p.offers }, 1)
      else pure (s, { p with offers := s.nodeOf n :: p.offers }, 0)
  else pure (s, p, 0)

/-- `cstl_hash_find(h, k, visit, p)`: (state, found, offers in order) -/
def find (fuel : Nat) (s : LS) (k : Nat) (accept : Option (Nat → Node → Bool)) :
    LR (LS × Option Node × List Node) := do
  let r ← keyed hf fuel s k
  chk r.1.t r.2
  let w ← bucketForeach findVisit fuel r.1 { k := k, visit := accept, e := 0, offers := [] } (r.1.t.head r.2)
  pure (w.1, (if w.2.1.e = 0 then none else some (w.1.nodeOf w.2.1.e)), w.2.1.offers.reverse)

/-- a `struct cstl_hash_node **`: the address of a bucket's `n` or of a node's `next` -/
inductive Loc where
  | head (i : Nat)
  | next (n : Nat)
deriving DecidableEq, Repr, Inhabited

def LS.rdLoc (s : LS) : Loc → Nat
  | .head i => s.t.head i
  | .next n => s.nxt n

def LS.wrLoc (s : LS) : Loc → Nat → LS
  | .head i, v => s.setHead i v
  | .next n, v => s.setNxt n v

/-- `struct cstl_hash_erase_priv` -/
structure EraseP where
  n : Loc
  e : Nat

/-- `cstl_hash_erase_visit`: `hep->n = &(*hep->n)->next` -/
def eraseVisit (s : LS) (p : EraseP) (e : Nat) : LR (LS × EraseP × Int) :=
  if p.e = e then pure (s, p, 1)
  else pure (s, { p with n := .next (s.rdLoc p.n) }, 0)

/-- the part of `cstl_hash_erase(h, e)` after the keyed lookup returned `&h->bucket.at[bk]` -/
def eraseTail (fuel : Nat) (s : LS) (bk e : Nat) : LR LS := do
  chk s.t bk
  let w ← bucketForeach eraseVisit fuel s { n := .head bk, e := e } (s.t.head bk)
  if w.2.2 ≠ 0 then
    if w.1.rdLoc w.2.1.n = 0 then stop .nullDeref
    else
      let s2 := w.1.wrLoc w.2.1.n (w.1.nxt (w.1.rdLoc w.2.1.n))     -- *hep.n = (*hep.n)->next
      pure (s2.setSize (s2.t.size - 1))                              -- h->count--
  else pure w.1

/-- `cstl_hash_erase(h, e)` -/
def erase (fuel : Nat) (s : LS) (e : Nat) : LR LS := do
  let r ← keyed hf fuel s (s.keyOf e)
  eraseTail fuel r.1 r.2 e

/-- what a successful `realloc` to `sz` buckets does to the array (cf. `Cstl.Hash.resizeArr`) -/
def LS.realloc (s : LS) (sz : Nat) : LS :=
  { s with t := { s.t with
      cap := sz,
      head := fun i => if i < s.t.cap then s.t.head i else 0,
      bcst := fun i => if i < s.t.cap then s.t.bcst i else false } }

/-- `__cstl_hash_set_capacity(h, sz)` -/
def setCapacity (oracle : Nat → Bool) (s : LS) (sz : Nat) : LR LS :=
  if (2 ^ 64 - 1) / 16 < sz then pure s
  else if sz = 0 then stop .oob
  else do
    let bytes := (16 * sz) % 2 ^ 64
    let ok := oracle bytes
    logEv (.realloc bytes ok)
    if ok then pure (s.realloc sz) else pure s

/-- the bucket-initialisation loop of `cstl_hash_resize` -/
def initBuckets : LS → Nat → Nat → LR LS
  | s, _, 0 => pure s
  | s, lo, d + 1 => do
    chk s.t lo
    let s1 := s.setHead lo 0                   -- at[i].n = NULL
    let s2 := s1.setBcst lo s1.t.cst           -- at[i].cst = h->bucket.cst
    initBuckets s2 (lo + 1) d

/-- the part of `cstl_hash_resize` after the pending rehash has been forced -/
def resizeTail (s2 : LS) (n : Nat) (f : Option HashId) : LR LS := do
  let s3 : LS := { s2 with t := { s2.t with cst := !s2.t.cst } }
  let s4 ← initBuckets s3 s3.t.count (n - s3.t.count)
  let g := pickHash f s4.t.hash
  let s5 : LS := { s4 with t := { s4.t with rhHash := some g, rhCount := n, clean := 0 } }
  if s5.t.hash = none then
    pure { s5 with t := { s5.t with hash := some g, count := n, rhHash := none } }
  else pure s5

def ensureCapacity (oracle : Nat → Bool) (s : LS) (n : Nat) : LR LS :=
  if s.t.cap < n then setCapacity oracle s n else pure s

def LT.effCount (t : LT) : Nat := if t.rhHash.isSome then t.rhCount else t.count
def LT.effHash (t : LT) : Option HashId := if t.rhHash.isSome then t.rhHash else t.hash

/-- `cstl_hash_resize(h, n, f)` -/
def resize (fuel : Nat) (oracle : Nat → Bool) (s : LS) (n : Nat) (f : Option HashId) : LR LS :=
  if n = 0 then pure s
  else do
    let s1 ← ensureCapacity oracle s n
    if s1.t.cap ≠ 0 ∧ n ≤ s1.t.cap ∧ (n ≠ s1.t.effCount ∨ (f ≠ none ∧ f ≠ s1.t.effHash)) then do
      let s2 ← rehash hf fuel s1
      resizeTail s2 n f
    else pure s1

/-- `cstl_hash_shrink_to_fit` -/
def shrink (fuel : Nat) (oracle : Nat → Bool) (s : LS) : LR LS :=
  if s.t.effCount < s.t.cap then do
    let s1 ← rehash hf fuel s
    setCapacity oracle s1 s1.t.count
  else pure s

/-- private data of an enumeration: number of callbacks made, elements handed
to the callback (latest first) -/
structure WalkP where
  idx : Nat
  seen : List Node

/-- the visit function `cstl_hash_foreach` is given: the user's callback returns
(result, erase-me); with erase-me it calls `cstl_hash_erase` on the element it
is visiting before it returns -/
def userVisit (fuel : Nat) (visit : Nat → Node → Int × Bool) (s : LS) (p : WalkP) (n : Nat) :
    LR (LS × WalkP × Int) := do
  let s' ← (if (visit p.idx (s.nodeOf n)).2 then erase hf fuel s n else pure s)
  pure (s', { idx := p.idx + 1, seen := s.nodeOf n :: p.seen }, (visit p.idx (s.nodeOf n)).1)

/-- upper bound of the bucket walk of `__cstl_hash_foreach` -/
def LT.bound (t : LT) : Nat :=
  if t.rhHash.isSome ∧ t.count < t.rhCount then t.rhCount else t.count

/-- the `for` loop of `__cstl_hash_foreach`; `count` was computed before the loop -/
def tableWalk (fuel : Nat) (visit : Nat → Node → Int × Bool) (count : Nat) :
    LS → WalkP → Int → Nat → Nat → LR (LS × WalkP × Int)
  | s, p, res, _, 0 => pure (s, p, res)
  | s, p, res, i, d + 1 =>
    if i < count ∧ res = 0 then do
      chk s.t i
      let r ← bucketForeach (userVisit hf fuel visit) fuel s p (s.t.head i)
      tableWalk fuel visit count r.1 r.2.1 r.2.2 (i + 1) d
    else pure (s, p, res)

/-- `__cstl_hash_foreach` -/
def hforeach (fuel : Nat) (s : LS) (visit : Nat → Node → Int × Bool) : LR (LS × WalkP × Int) :=
  tableWalk hf fuel visit s.t.bound s { idx := 0, seen := [] } 0 0 s.t.bound

/-- `cstl_hash_foreach`: (state, result, visited elements in order) -/
def foreach (fuel : Nat) (s : LS) (visit : Nat → Node → Int × Bool) : LR (LS × Int × List Node) := do
  let s1 ← rehash hf fuel s
  let w ← hforeach hf fuel s1 visit
  pure (w.1, w.2.2, w.2.1.seen.reverse)

/-- `cstl_hash_foreach_const` -/
def foreachConst (fuel : Nat) (s : LS) (visit : Nat → Node → Int) : LR (Int × List Node) := do
  let w ← hforeach hf fuel s (fun i n => (visit i n, false))
  pure (w.2.2, w.2.1.seen.reverse)

/-- `cstl_hash_clear(h, clr)` -/
def clear (fuel : Nat) (s : LS) (withCb : Bool) : LR (LS × List Node) := do
  let w ← (if withCb then hforeach hf fuel s (fun _ _ => (0, false))
           else pure (s, { idx := 0, seen := [] }, 0))
  let _ ← (if s.t.cap ≠ 0 then logEv .free else pure ())
  pure ({ w.1 with t := { w.1.t with cap := 0, count := 0, hash := none, rhHash := none, size := 0 } },
        w.2.1.seen.reverse)

end

/-! ### reading the table back from the links (what the driver dumps) -/

/-- follow `next` from `a` for at most `fuel` nodes -/
def walk (nxt : Mem) : Nat → Nat → List Nat
  | 0, _ => []
  | fuel + 1, a => if a = 0 then [] else a :: walk nxt fuel (nxt a)

/-- bucket `i` as the existing model sees it: the nodes reached from `head i`, the clean bit -/
def LS.readBucket (s : LS) (fuel i : Nat) : Cstl.Hash.Bucket :=
  { chain := (walk s.nxt fuel (s.t.head i)).map s.nodeOf, cst := s.t.bcst i }

/-- the table of the existing model that the link-level state spells out -/
def LS.read (s : LS) (fuel : Nat) : Cstl.Hash.HT :=
  { bk := Array.ofFn (n := s.t.cap) (fun i => s.readBucket fuel i.val),
    count := s.t.count, hash := s.t.hash, cst := s.t.cst, rhHash := s.t.rhHash, rhCount := s.t.rhCount,
    clean := s.t.clean, size := s.t.size }

end Cstl.HashL
