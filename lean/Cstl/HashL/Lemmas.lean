import Cstl.Hash.Props
import Cstl.HashL.Model
/-
Helper lemmas for the link-level hash model: the monad `LR`, the simulation
relation `Sim` between a link-level operation and the existing model's
operation, NULL-terminated chains of links (`Chain`), the abstraction relation
`Rep`, bucket-update and frame lemmas.
-/
namespace Cstl.HashL
open Cstl.SList (Mem upd upd_same upd_other)
open Cstl.Hash (HashId Stop Tr Call AllocEv Node HT Bucket R nodes wr rd mem_nodes wr_get)

/-! ### the monad -/

theorem bind_def {α β : Type} (m : LR α) (f : α → LR β) : (m >>= f) = LR.bind m f := rfl
theorem pure_def {α : Type} (a : α) : (pure a : LR α) = LR.pure a := rfl

@[simp] theorem pure_val {α : Type} (a : α) : (pure a : LR α).val = .ok a := rfl
@[simp] theorem pure_tr {α : Type} (a : α) : (pure a : LR α).tr = {} := rfl
@[simp] theorem stop_val {α : Type} (e : Stop) : (stop e : LR α).val = .error (.stop e) := rfl
@[simp] theorem stop_tr {α : Type} (e : Stop) : (stop e : LR α).tr = {} := rfl

theorem bind_ok {α β : Type} {m : LR α} {f : α → LR β} {a : α} (h : m.val = .ok a) :
    (m >>= f).val = (f a).val ∧ (m >>= f).tr = m.tr.append (f a).tr := by
  simp [bind_def, LR.bind, h]

theorem bind_err {α β : Type} {m : LR α} {f : α → LR β} {e : LStop} (h : m.val = .error e) :
    (m >>= f).val = .error e ∧ (m >>= f).tr = m.tr := by
  simp [bind_def, LR.bind, h]

theorem LR.ext' {α : Type} {a b : LR α} (h1 : a.tr = b.tr) (h2 : a.val = b.val) : a = b := by
  cases a; cases b; simp_all

@[simp] theorem pure_bind {α β : Type} (a : α) (f : α → LR β) : (pure a >>= f) = f a := by
  apply LR.ext'
  · simp [bind_def, LR.bind, pure_def, LR.pure]
  · simp [bind_def, LR.bind, pure_def, LR.pure]

theorem bind_assoc {α β γ : Type} (m : LR α) (f : α → LR β) (g : β → LR γ) :
    (m >>= f >>= g) = (m >>= fun a => f a >>= g) := by
  cases h : m.val with
  | error e =>
    apply LR.ext'
    · rw [(bind_err (bind_err h).1).2, (bind_err h).2, (bind_err h).2]
    · rw [(bind_err (bind_err h).1).1, (bind_err h).1]
  | ok a =>
    cases h2 : (f a).val with
    | error e =>
      have h3 : (m >>= f).val = .error e := by rw [(bind_ok h).1, h2]
      have h4 : (f a >>= g).val = .error e := (bind_err h2).1
      apply LR.ext'
      · rw [(bind_err h3).2, (bind_ok h).2, (bind_ok h).2, (bind_err h2).2]
      · rw [(bind_err h3).1, (bind_ok h).1, h4]
    | ok b =>
      have h3 : (m >>= f).val = .ok b := by rw [(bind_ok h).1, h2]
      apply LR.ext'
      · rw [(bind_ok h3).2, (bind_ok h).2, (bind_ok h).2, (bind_ok h2).2]
        apply Hash.Tr.ext' <;> simp [List.append_assoc, Nat.add_assoc]
      · rw [(bind_ok h3).1, (bind_ok h).1, (bind_ok h2).1]

/-- the same for the existing model's monad -/
theorem R_ext {α : Type} {a b : R α} (h1 : a.tr = b.tr) (h2 : a.val = b.val) : a = b := by
  cases a; cases b; simp_all

@[simp] theorem R_pure_bind {α β : Type} (a : α) (f : α → R β) : (pure a >>= f) = f a := by
  apply R_ext
  · simp [Hash.bind_def, R.bind, Hash.pure_def, R.pure]
  · simp [Hash.bind_def, R.bind, Hash.pure_def, R.pure]

theorem R_bind_assoc {α β γ : Type} (m : R α) (f : α → R β) (g : β → R γ) :
    (m >>= f >>= g) = (m >>= fun a => f a >>= g) := by
  cases h : m.val with
  | error e =>
    apply R_ext
    · rw [(Hash.bind_err (Hash.bind_err h).1).2, (Hash.bind_err h).2, (Hash.bind_err h).2]
    · rw [(Hash.bind_err (Hash.bind_err h).1).1, (Hash.bind_err h).1]
  | ok a =>
    cases h2 : (f a).val with
    | error e =>
      have h3 : (m >>= f).val = .error e := by rw [(Hash.bind_ok h).1, h2]
      have h4 : (f a >>= g).val = .error e := (Hash.bind_err h2).1
      apply R_ext
      · rw [(Hash.bind_err h3).2, (Hash.bind_ok h).2, (Hash.bind_ok h).2, (Hash.bind_err h2).2]
      · rw [(Hash.bind_err h3).1, (Hash.bind_ok h).1, h4]
    | ok b =>
      have h3 : (m >>= f).val = .ok b := by rw [(Hash.bind_ok h).1, h2]
      apply R_ext
      · rw [(Hash.bind_ok h3).2, (Hash.bind_ok h).2, (Hash.bind_ok h).2, (Hash.bind_ok h2).2]
        apply Hash.Tr.ext' <;> simp [List.append_assoc, Nat.add_assoc]
      · rw [(Hash.bind_ok h3).1, (Hash.bind_ok h).1, (Hash.bind_ok h2).1]

/-! ### simulation -/

/-- the link-level operation `l` simulates the existing model's operation `a`:
equal traces (hash-call log, relocation count, allocation events — also when
they stop); if `a` returns `b` then `l` returns (it neither stops nor runs out
of fuel) some `x` with `rel x b`; if `a` stops, `l` stops the same way. -/
def Sim {α β : Type} (rel : α → β → Prop) (l : LR α) (a : R β) : Prop :=
  l.tr = a.tr ∧
  match a.val with
  | .ok b => ∃ x, l.val = .ok x ∧ rel x b
  | .error e => l.val = .error (.stop e)

theorem Sim.pure {α β : Type} {rel : α → β → Prop} {x : α} {b : β} (h : rel x b) :
    Sim rel (Pure.pure x : LR α) (Pure.pure b : R β) :=
  ⟨rfl, x, rfl, h⟩

theorem Sim.stop {α β : Type} {rel : α → β → Prop} (e : Stop) : Sim rel (stop e : LR α) (Hash.stop e : R β) :=
  ⟨rfl, rfl⟩

theorem Sim.mono {α β : Type} {rel rel' : α → β → Prop} {l : LR α} {a : R β} (h : Sim rel l a)
    (hr : ∀ x b, rel x b → a.val = .ok b → rel' x b) : Sim rel' l a := by
  obtain ⟨h1, h2⟩ := h
  refine ⟨h1, ?_⟩
  cases hv : a.val with
  | ok b => rw [hv] at h2; obtain ⟨x, hx, hr'⟩ := h2; exact ⟨x, hx, hr x b hr' hv⟩
  | error e => rw [hv] at h2; exact h2

theorem Sim.bind {α β α' β' : Type} {rel : α → β → Prop} {rel' : α' → β' → Prop} {l : LR α} {a : R β}
    {f : α → LR α'} {g : β → R β'} (h : Sim rel l a)
    (hf : ∀ x b, rel x b → a.val = .ok b → Sim rel' (f x) (g b)) : Sim rel' (l >>= f) (a >>= g) := by
  obtain ⟨h1, h2⟩ := h
  cases hv : a.val with
  | ok b =>
    rw [hv] at h2
    obtain ⟨x, hx, hr⟩ := h2
    obtain ⟨k1, k2⟩ := hf x b hr hv
    refine ⟨?_, ?_⟩
    · rw [(bind_ok hx).2, (Hash.bind_ok hv).2, h1, k1]
    · rw [(Hash.bind_ok hv).1, (bind_ok hx).1]; exact k2
  | error e =>
    rw [hv] at h2
    refine ⟨?_, ?_⟩
    · rw [(bind_err h2).2, (Hash.bind_err hv).2, h1]
    · rw [(Hash.bind_err hv).1, (bind_err h2).1]

theorem Sim.ite {α β : Type} {rel : α → β → Prop} {c c' : Prop} [Decidable c] [Decidable c']
    {l1 l2 : LR α} {a1 a2 : R β} (hc : c ↔ c') (h1 : c → Sim rel l1 a1) (h2 : ¬ c → Sim rel l2 a2) :
    Sim rel (if c then l1 else l2) (if c' then a1 else a2) := by
  by_cases h : c
  · rw [if_pos h, if_pos (hc.mp h)]; exact h1 h
  · rw [if_neg h, if_neg (fun h' => h (hc.mpr h'))]; exact h2 h

/-- what a simulated operation inherits from a triple of the existing model -/
theorem Sim.transfer {α β : Type} {rel : α → β → Prop} {l : LR α} {a : R β} {P : Tr → β → Prop}
    (h : Sim rel l a) (hs : a.Spec P) :
    (l.val = .error (.stop .abort) ∧ a.val = .error .abort ∧ l.tr = a.tr) ∨
    (∃ x b, l.val = .ok x ∧ a.val = .ok b ∧ rel x b ∧ P l.tr b) := by
  obtain ⟨h1, h2⟩ := h
  cases hv : a.val with
  | ok b =>
    rw [hv] at h2
    obtain ⟨x, hx, hr⟩ := h2
    exact Or.inr ⟨x, b, hx, rfl, hr, by rw [h1]; exact hs.of_ok hv⟩
  | error e =>
    rw [hv] at h2
    have : e = .abort := by have := hs.2; rw [hv] at this; exact this
    subst this
    exact Or.inl ⟨h2, rfl, h1⟩

theorem Sim.tick : Sim (fun _ _ => True) tickReloc Hash.tickReloc := ⟨rfl, (), rfl, trivial⟩
theorem Sim.logEv (e : AllocEv) : Sim (fun _ _ => True) (logEv e) (Hash.logEv e) := ⟨rfl, (), rfl, trivial⟩

/-! ### chains of links -/

/-- following `next` from `a` visits exactly `xs` (all non-NULL) and ends at NULL -/
def Chain (nxt : Mem) : Nat → List Nat → Prop
  | a, [] => a = 0
  | a, x :: xs => a = x ∧ x ≠ 0 ∧ Chain nxt (nxt x) xs

@[simp] theorem Chain_nil (nxt : Mem) (a : Nat) : Chain nxt a [] ↔ a = 0 := Iff.rfl
@[simp] theorem Chain_cons (nxt : Mem) (a x : Nat) (xs : List Nat) :
    Chain nxt a (x :: xs) ↔ a = x ∧ x ≠ 0 ∧ Chain nxt (nxt x) xs := Iff.rfl

theorem Chain.transfer {nxt nxt' : Mem} : ∀ {xs : List Nat} {a : Nat}, Chain nxt a xs →
    (∀ x ∈ xs, nxt' x = nxt x) → Chain nxt' a xs
  | [], _, h, _ => h
  | x :: xs, _, h, hx => by
    obtain ⟨h1, h2, h3⟩ := h
    refine ⟨h1, h2, ?_⟩
    rw [hx x (by simp)]
    exact Chain.transfer h3 (fun y hy => hx y (by simp [hy]))

theorem Chain.nonzero {nxt : Mem} : ∀ {xs : List Nat} {a : Nat}, Chain nxt a xs → ∀ x ∈ xs, x ≠ 0
  | [], _, _, _, hx => by simp at hx
  | y :: ys, _, h, x, hx => by
    rcases List.mem_cons.mp hx with rfl | hx
    · exact h.2.1
    · exact Chain.nonzero h.2.2 x hx

theorem Chain.functional {nxt : Mem} : ∀ {xs ys : List Nat} {a : Nat}, Chain nxt a xs → Chain nxt a ys → xs = ys
  | [], [], _, _, _ => rfl
  | [], y :: ys, _, h1, h2 => by
    simp only [Chain_nil] at h1
    obtain ⟨e, hne, _⟩ := h2
    omega
  | x :: xs, [], _, h1, h2 => by
    simp only [Chain_nil] at h2
    obtain ⟨e, hne, _⟩ := h1
    omega
  | x :: xs, y :: ys, _, h1, h2 => by
    obtain ⟨e1, _, c1⟩ := h1
    obtain ⟨e2, _, c2⟩ := h2
    have : x = y := by omega
    subst this
    rw [Chain.functional c1 c2]

/-- the chain from a node of the chain is the rest of the chain -/
theorem Chain.suffix {nxt : Mem} : ∀ {xs : List Nat} {a : Nat} (p : List Nat) (y : Nat) (q : List Nat),
    Chain nxt a xs → xs = p ++ y :: q → Chain nxt y (y :: q)
  | [], _, p, y, q, _, he => by simp at he
  | x :: xs, _, [], y, q, h, he => by
    simp only [List.nil_append, List.cons.injEq] at he
    obtain ⟨rfl, rfl⟩ := he
    exact ⟨rfl, h.2.1, h.2.2⟩
  | x :: xs, _, z :: p, y, q, h, he => by
    simp only [List.cons_append, List.cons.injEq] at he
    exact Chain.suffix p y q h.2.2 he.2

/-- a NULL-terminated chain visits no node twice -/
theorem Chain.nodup {nxt : Mem} : ∀ {xs : List Nat} {a : Nat}, Chain nxt a xs → xs.Nodup
  | [], _, _ => List.nodup_nil
  | x :: xs, _, h => by
    refine List.nodup_cons.mpr ⟨?_, Chain.nodup h.2.2⟩
    intro hx
    obtain ⟨p, q, hpq⟩ := List.append_of_mem hx
    have c1 : Chain nxt x (x :: q) := Chain.suffix p x q h.2.2 hpq
    have c2 : Chain nxt x (x :: xs) := ⟨rfl, h.2.1, h.2.2⟩
    have := Chain.functional c1 c2
    simp only [List.cons.injEq, true_and] at this
    rw [this] at hpq
    have hl := congrArg List.length hpq
    simp at hl
    omega

/-! ### the abstraction relation -/

def ids (c : List Node) : List Nat := c.map (·.id)

@[simp] theorem ids_nil : ids [] = [] := rfl
@[simp] theorem ids_cons (n : Node) (c : List Node) : ids (n :: c) = n.id :: ids c := rfl
theorem mem_ids {c : List Node} {a : Nat} : a ∈ ids c ↔ ∃ n ∈ c, n.id = a := by simp [ids]
theorem ids_length (c : List Node) : (ids c).length = c.length := by simp [ids]

/-- **Abstraction relation**: the link-level state `s` represents the table `t`
of the existing model — capacity and scalar members are equal; for every
bucket of the array the links from `head i` spell exactly the chain of bucket
`i`, in order, NULL-terminated; its clean bit is the bucket's; the `key` field
of every chained node holds the node's key; no node is shared between chains. -/
structure Rep (s : LS) (t : HT) : Prop where
  cap : s.t.cap = t.bk.size
  count : s.t.count = t.count
  hash : s.t.hash = t.hash
  cst : s.t.cst = t.cst
  rhHash : s.t.rhHash = t.rhHash
  rhCount : s.t.rhCount = t.rhCount
  clean : s.t.clean = t.clean
  size : s.t.size = t.size
  chain : ∀ (i : Nat) (b : Bucket), t.bk[i]? = some b → Chain s.nxt (s.t.head i) (ids b.chain)
  bits : ∀ (i : Nat) (b : Bucket), t.bk[i]? = some b → s.t.bcst i = b.cst
  keys : ∀ (i : Nat) (b : Bucket), t.bk[i]? = some b → ∀ n ∈ b.chain, s.keyOf n.id = n.key
  uniq : ∀ (i j : Nat) (b b' : Bucket), t.bk[i]? = some b → t.bk[j]? = some b' →
    ∀ a, a ∈ ids b.chain → a ∈ ids b'.chain → i = j

/-- node address `a` is linked into some chain of `t` -/
def Owns (t : HT) (a : Nat) : Prop := ∃ (i : Nat) (b : Bucket), t.bk[i]? = some b ∧ a ∈ ids b.chain

theorem owns_iff {t : HT} {a : Nat} : Owns t a ↔ ∃ n ∈ nodes t, n.id = a := by
  constructor
  · rintro ⟨i, b, hb, ha⟩
    obtain ⟨n, hn, rfl⟩ := mem_ids.mp ha
    exact ⟨n, mem_nodes.mpr ⟨i, b, hb, hn⟩, rfl⟩
  · rintro ⟨n, hn, rfl⟩
    obtain ⟨i, b, hb, hn'⟩ := mem_nodes.mp hn
    exact ⟨i, b, hb, mem_ids.mpr ⟨n, hn', rfl⟩⟩

theorem Rep.nonzero {s : LS} {t : HT} (r : Rep s t) {a : Nat} (h : Owns t a) : a ≠ 0 := by
  obtain ⟨i, b, hb, ha⟩ := h
  exact (r.chain i b hb).nonzero a ha

theorem Rep.chain_nodup {s : LS} {t : HT} (r : Rep s t) {i : Nat} {b : Bucket} (hb : t.bk[i]? = some b) :
    (ids b.chain).Nodup := (r.chain i b hb).nodup

theorem Rep.node_eq {s : LS} {t : HT} (r : Rep s t) {i : Nat} {b : Bucket} (hb : t.bk[i]? = some b)
    {n : Node} (hn : n ∈ b.chain) : s.nodeOf n.id = n := by
  have := r.keys i b hb n hn
  cases n
  simp_all [LS.nodeOf]

/-- the chain as a list of nodes is determined by its ids -/
theorem Rep.chain_map {s : LS} {t : HT} (r : Rep s t) {i : Nat} {b : Bucket} (hb : t.bk[i]? = some b) :
    (ids b.chain).map s.nodeOf = b.chain := by
  have : ∀ c : List Node, (∀ n ∈ c, s.nodeOf n.id = n) → (ids c).map s.nodeOf = c := by
    intro c
    induction c with
    | nil => intro _; rfl
    | cons n c ih =>
      intro h
      simp only [ids_cons, List.map_cons]
      rw [h n (by simp), ih (fun m hm => h m (by simp [hm]))]
  exact this b.chain (fun n hn => r.node_eq hb hn)

/-! ### lengths -/

theorem nodes_wr_len {t : HT} {i : Nat} {b b' : Bucket} (h : t.bk[i]? = some b) :
    (nodes (wr t i b')).length + b.chain.length = (nodes t).length + b'.chain.length := by
  have := (Hash.nodes_wr_perm (b' := b') h).length_eq
  simpa using this

theorem chain_le_nodes {t : HT} {i : Nat} {b : Bucket} (h : t.bk[i]? = some b) :
    b.chain.length ≤ (nodes t).length := by
  have := nodes_wr_len (b' := { chain := [], cst := b.cst }) h
  simp at this
  omega

/-! ### bucket access -/

theorem wr_size (t : HT) (i : Nat) (b : Bucket) : (wr t i b).bk.size = t.bk.size := by simp [wr]

theorem lt_of_get {t : HT} {i : Nat} {b : Bucket} (h : t.bk[i]? = some b) : i < t.bk.size :=
  (Array.getElem?_eq_some_iff.mp h).1

theorem wr_get_same {t : HT} {i : Nat} {b b' : Bucket} (h : t.bk[i]? = some b) : (wr t i b').bk[i]? = some b' := by
  rw [wr_get]; simp [lt_of_get h]

theorem wr_get_other {t : HT} {i j : Nat} {b' : Bucket} (h : j ≠ i) : (wr t i b').bk[j]? = t.bk[j]? := by
  rw [wr_get]; simp [Ne.symm h]

theorem chk_ok {t : LT} {i : Nat} (h : i < t.cap) : chk t i = pure () := by simp [chk, h]

/-- the bounds-checked access is the existing model's bucket read -/
theorem Sim.chk_rd {s : LS} {t : HT} (r : Rep s t) (i : Nat) :
    Sim (fun _ b => t.bk[i]? = some b) (chk s.t i) (rd t i) := by
  unfold chk rd
  rw [r.cap]
  by_cases h : i < t.bk.size
  · have : t.bk[i]? = some t.bk[i] := by simp [h]
    rw [if_pos h, this]
    exact Sim.pure rfl
  · have : t.bk[i]? = none := by simp; omega
    rw [if_neg h, this]
    by_cases h0 : t.bk.size = 0
    · simp only [h0, if_true]; exact Sim.stop _
    · simp only [h0, if_false]; exact Sim.stop _

/-- general bucket update: bucket `i` gets chain `c'` and clean bit `cst'`; the
other buckets keep head, bit, and the links and keys of their nodes -/
theorem Rep.update {s : LS} {t : HT} (r : Rep s t) {i : Nat} {b : Bucket} (hb : t.bk[i]? = some b)
    (nxt' keyOf' : Mem) (head' : Nat → Nat) (bcst' : Nat → Bool) (c' : List Node) (cst' : Bool)
    (hch : Chain nxt' (head' i) (ids c')) (hbit : bcst' i = cst') (hkey : ∀ n ∈ c', keyOf' n.id = n.key)
    (hhead : ∀ j, j ≠ i → head' j = s.t.head j) (hbits : ∀ j, j ≠ i → bcst' j = s.t.bcst j)
    (hnxt : ∀ (j : Nat) (bj : Bucket), j ≠ i → t.bk[j]? = some bj → ∀ a ∈ ids bj.chain,
      nxt' a = s.nxt a ∧ keyOf' a = s.keyOf a)
    (hfresh : ∀ (j : Nat) (bj : Bucket), j ≠ i → t.bk[j]? = some bj → ∀ a ∈ ids c', a ∉ ids bj.chain) :
    Rep { nxt := nxt', keyOf := keyOf', t := { s.t with head := head', bcst := bcst' } }
      (wr t i { chain := c', cst := cst' }) := by
  have hget : ∀ (j : Nat) (bj : Bucket), (wr t i { chain := c', cst := cst' }).bk[j]? = some bj →
      (j = i ∧ bj = { chain := c', cst := cst' }) ∨ (j ≠ i ∧ t.bk[j]? = some bj) := by
    intro j bj h
    by_cases hj : j = i
    · subst hj
      rw [wr_get_same hb] at h
      exact Or.inl ⟨rfl, (Option.some.inj h).symm⟩
    · rw [wr_get_other hj] at h
      exact Or.inr ⟨hj, h⟩
  refine ⟨by rw [wr_size]; exact r.cap, r.count, r.hash, r.cst, r.rhHash, r.rhCount, r.clean, r.size, ?_, ?_, ?_, ?_⟩
  · intro j bj h
    rcases hget j bj h with ⟨rfl, rfl⟩ | ⟨hj, h'⟩
    · exact hch
    · show Chain nxt' (head' j) (ids bj.chain)
      rw [hhead j hj]
      exact (r.chain j bj h').transfer (fun a ha => (hnxt j bj hj h' a ha).1)
  · intro j bj h
    rcases hget j bj h with ⟨rfl, rfl⟩ | ⟨hj, h'⟩
    · exact hbit
    · show bcst' j = bj.cst
      rw [hbits j hj]; exact r.bits j bj h'
  · intro j bj h n hn
    rcases hget j bj h with ⟨rfl, rfl⟩ | ⟨hj, h'⟩
    · exact hkey n hn
    · show keyOf' n.id = n.key
      rw [(hnxt j bj hj h' n.id (mem_ids.mpr ⟨n, hn, rfl⟩)).2]
      exact r.keys j bj h' n hn
  · intro j1 j2 b1 b2 h1 h2 a ha1 ha2
    rcases hget j1 b1 h1 with ⟨rfl, rfl⟩ | ⟨hj1, h1'⟩ <;> rcases hget j2 b2 h2 with ⟨rfl, rfl⟩ | ⟨hj2, h2'⟩
    · rfl
    · exact absurd ha2 (hfresh j2 b2 hj2 h2' a ha1)
    · exact absurd ha1 (hfresh j1 b1 hj1 h1' a ha2)
    · exact r.uniq j1 j2 b1 b2 h1' h2' a ha1 ha2

/-- ownership after a bucket update -/
theorem owns_wr {t : HT} {i : Nat} {b b' : Bucket} (hb : t.bk[i]? = some b) {a : Nat} :
    Owns (wr t i b') a ↔ a ∈ ids b'.chain ∨ ∃ (j : Nat) (bj : Bucket), j ≠ i ∧ t.bk[j]? = some bj ∧ a ∈ ids bj.chain := by
  constructor
  · rintro ⟨j, bj, hj, ha⟩
    by_cases hji : j = i
    · subst hji
      rw [wr_get_same hb] at hj
      cases hj
      exact Or.inl ha
    · rw [wr_get_other hji] at hj
      exact Or.inr ⟨j, bj, hji, hj, ha⟩
  · rintro (ha | ⟨j, bj, hji, hj, ha⟩)
    · exact ⟨i, b', wr_get_same hb, ha⟩
    · exact ⟨j, bj, by rw [wr_get_other hji]; exact hj, ha⟩

/-- a node of bucket `i` is in no other bucket -/
theorem Rep.not_other {s : LS} {t : HT} (r : Rep s t) {i : Nat} {b : Bucket} (hb : t.bk[i]? = some b)
    {a : Nat} (ha : a ∈ ids b.chain) {j : Nat} {bj : Bucket} (hj : j ≠ i) (hbj : t.bk[j]? = some bj) :
    a ∉ ids bj.chain :=
  fun h => hj (r.uniq j i bj b hbj hb a h ha)

/-! ### frames: what an operation on one table may have touched -/

/-- the step relation of operations that add no node: the result represents
`t'`, every node of `t'` was a node of `t`, there are no more nodes than before
(so the same fuel suffices), the `key` fields are untouched and only `next`
fields of nodes of `t` were written -/
structure Step (s : LS) (t : HT) (s' : LS) (t' : HT) : Prop where
  rep : Rep s' t'
  own : ∀ a, Owns t' a → Owns t a
  len : (nodes t').length ≤ (nodes t).length
  key : s'.keyOf = s.keyOf
  frame : ∀ a, ¬ Owns t a → s'.nxt a = s.nxt a

theorem Step.refl {s : LS} {t : HT} (r : Rep s t) : Step s t s t :=
  ⟨r, fun _ h => h, Nat.le_refl _, rfl, fun _ _ => rfl⟩

theorem Step.trans {s s1 s2 : LS} {t t1 t2 : HT} (h1 : Step s t s1 t1) (h2 : Step s1 t1 s2 t2) : Step s t s2 t2 :=
  ⟨h2.rep, fun a h => h1.own a (h2.own a h), Nat.le_trans h2.len h1.len, by rw [h2.key, h1.key],
    fun a h => by rw [h2.frame a (fun h' => h (h1.own a h')), h1.frame a h]⟩

/-- changing scalar members only -/
theorem Rep.scalars {s : LS} {t : HT} (r : Rep s t) {lt : LT} {t' : HT}
    (hh : lt.head = s.t.head) (hb : lt.bcst = s.t.bcst) (hbk : t'.bk = t.bk)
    (h1 : lt.cap = t'.bk.size) (h2 : lt.count = t'.count) (h3 : lt.hash = t'.hash) (h4 : lt.cst = t'.cst)
    (h5 : lt.rhHash = t'.rhHash) (h6 : lt.rhCount = t'.rhCount) (h7 : lt.clean = t'.clean) (h8 : lt.size = t'.size) :
    Rep { s with t := lt } t' := by
  refine ⟨h1, h2, h3, h4, h5, h6, h7, h8, ?_, ?_, ?_, ?_⟩
  · intro i b h; rw [hbk] at h; show Chain s.nxt (lt.head i) _; rw [hh]; exact r.chain i b h
  · intro i b h; rw [hbk] at h; show lt.bcst i = _; rw [hb]; exact r.bits i b h
  · intro i b h; rw [hbk] at h; exact r.keys i b h
  · intro i j b b' h h'; rw [hbk] at h h'; exact r.uniq i j b b' h h'

theorem owns_congr {t t' : HT} (h : t'.bk = t.bk) (a : Nat) : Owns t' a ↔ Owns t a := by
  unfold Owns; rw [h]

theorem Step.scalars {s : LS} {t : HT} (r : Rep s t) {lt : LT} {t' : HT}
    (hh : lt.head = s.t.head) (hb : lt.bcst = s.t.bcst) (hbk : t'.bk = t.bk)
    (h1 : lt.cap = t'.bk.size) (h2 : lt.count = t'.count) (h3 : lt.hash = t'.hash) (h4 : lt.cst = t'.cst)
    (h5 : lt.rhHash = t'.rhHash) (h6 : lt.rhCount = t'.rhCount) (h7 : lt.clean = t'.clean) (h8 : lt.size = t'.size) :
    Step s t { s with t := lt } t' :=
  ⟨r.scalars hh hb hbk h1 h2 h3 h4 h5 h6 h7 h8, fun a h => (owns_congr hbk a).mp h,
    by rw [Hash.nodes_congr hbk]; exact Nat.le_refl _, rfl, fun _ _ => rfl⟩

end Cstl.HashL
