import Cstl.Gen.HashLC
import Cstl.HashL.Lemmas
/-
Translator tie for the hash chain functions: the definitions in
`Cstl/Gen/HashLC.lean` are regenerated from /repo's src/hash.c by
tools/c2lean_hash.py on every check run; the theorems below (hand-written,
fixed) state that the hand-written link-level model functions are exactly those
translations.  A change to one of these C functions that alters its
translation makes the corresponding equality fail.

  __cstl_hash_get_bucket      = getBucket
  loop of cstl_clean_bucket   = relink            (induction on fuel)
  cstl_clean_bucket           = cleanBucket       (up to the ghost relocation counter)
  cstl_hash_bucket_foreach    = bucketForeach     (callback as a parameter; induction on fuel)
  cstl_hash_erase_visit       = eraseVisit
  cstl_hash_erase, after the keyed lookup  = eraseTail   (walk with erase_visit, splice, count)
  cstl_hash_insert, after the keyed lookup = insertTail  (key, chain-head insertion, count)
-/
namespace Cstl.HashL.Tie
open Cstl.HashL Cstl.Gen.HashLC
open Cstl.Hash (HashId Stop Tr Call AllocEv Node)

variable (hf : HashId → Nat → Nat → Nat)

theorem hang_bind {α β : Type} (f : α → LR β) : ((hang : LR α) >>= f) = hang := rfl
theorem stop_bind {α β : Type} (e : Stop) (f : α → LR β) : ((stop e : LR α) >>= f) = stop e := rfl

/-- `__cstl_hash_get_bucket` -/
theorem getBucket_tie (s : LS) (k : Nat) (f : Option HashId) (m : Nat) :
    c_priv_cstl_hash_get_bucket hf s k f m = getBucket hf f k m := rfl

/-- the `HASH_LIST_FOREACH` loop of `cstl_clean_bucket`: it ends with `n = nn = NULL` -/
theorem relink_tie (bk : Nat) : ∀ (fuel : Nat) (s : LS) (n nn : Nat),
    c_cstl_clean_bucket_loop1 hf bk fuel s n nn = (relink hf fuel s nn >>= fun s' => pure (s', 0, 0))
  | 0, s, n, nn => by
    simp only [c_cstl_clean_bucket_loop1, relink]
    by_cases h : nn = 0
    · subst h; simp
    · simp [h, hang_bind]
  | fuel + 1, s, n, nn => by
    simp only [c_cstl_clean_bucket_loop1, relink]
    by_cases h : nn = 0
    · subst h; simp
    · simp only [h, ne_eq, not_false_eq_true, if_true, if_false, getBucket_tie, bind_assoc]
      congr 1
      funext j
      congr 1
      funext _
      exact relink_tie bk fuel _ _ _

/-- what a tie "up to the ghost counter" compares: result / stop kind, hash-call log, allocation events -/
def obs {α : Type} (m : LR α) : Except LStop α × List Call × List AllocEv := (m.val, m.tr.calls, m.tr.evs)

theorem obs_bind_congr {α β : Type} (m : LR α) {f g : α → LR β} (h : ∀ a, obs (f a) = obs (g a)) :
    obs (m >>= f) = obs (m >>= g) := by
  cases hv : m.val with
  | error e => simp [obs, (bind_err (f := f) hv).1, (bind_err (f := f) hv).2, (bind_err (f := g) hv).1, (bind_err (f := g) hv).2]
  | ok a =>
    have := h a
    simp only [obs, Prod.mk.injEq] at this
    simp [obs, (bind_ok (f := f) hv).1, (bind_ok (f := f) hv).2, (bind_ok (f := g) hv).1, (bind_ok (f := g) hv).2,
      this.1, this.2.1, this.2.2]

theorem obs_tick {α : Type} (k : LR α) : obs (tickReloc >>= fun _ => k) = obs k := by
  have hv : (tickReloc : LR Unit).val = .ok () := rfl
  have h := bind_ok (f := fun _ => k) hv
  unfold obs
  rw [h.1, h.2]
  simp [tickReloc]

/-- `cstl_clean_bucket`: the translation is the model without its ghost relocation counter -/
theorem cleanBucket_tie (fuel : Nat) (s : LS) (bk : Nat) :
    obs (c_cstl_clean_bucket hf fuel s bk) = obs (cleanBucket hf fuel s bk) := by
  unfold c_cstl_clean_bucket cleanBucket
  refine obs_bind_congr _ (fun _ => ?_)
  by_cases h : s.t.cst ≠ s.t.bcst bk
  · rw [if_pos h, if_pos h]
    simp only [relink_tie, bind_assoc, pure_bind]
    refine obs_bind_congr _ (fun s2 => ?_)
    exact (obs_tick _).symm
  · rw [if_neg h, if_neg h]

/-- the loop of `cstl_hash_bucket_foreach`, entered with `res = 0` -/
theorem bucketForeach_loop_tie {π : Type} (visit : LS → π → Nat → LR (LS × π × Int)) :
    ∀ (fuel : Nat) (s : LS) (p : π) (n nn : Nat),
      (c_cstl_hash_bucket_foreach_loop1 visit fuel s p n nn 0 >>= fun l => pure (l.1, l.2.1, l.2.2.2.2)) =
        bucketForeach visit fuel s p nn
  | 0, s, p, n, nn => by
    simp only [c_cstl_hash_bucket_foreach_loop1, bucketForeach]
    by_cases h : nn = 0
    · subst h; simp
    · simp [h, hang_bind]
  | fuel + 1, s, p, n, nn => by
    simp only [c_cstl_hash_bucket_foreach_loop1, bucketForeach]
    by_cases h : nn = 0
    · subst h; simp
    · simp only [h, ne_eq, not_false_eq_true, if_true, if_false, bind_assoc]
      congr 1
      funext r
      by_cases hr : r.2.2 = 0
      · simp only [hr, not_true_eq_false, if_false]
        exact bucketForeach_loop_tie visit fuel _ _ _ _
      · simp [hr]

/-- `cstl_hash_bucket_foreach` for every visit function -/
theorem bucketForeach_tie {π : Type} (visit : LS → π → Nat → LR (LS × π × Int)) (fuel : Nat) (s : LS) (n : Nat) (p : π) :
    c_cstl_hash_bucket_foreach visit fuel s n p = bucketForeach visit fuel s p n := by
  unfold c_cstl_hash_bucket_foreach
  exact bucketForeach_loop_tie visit fuel s p n n

/-- `cstl_hash_erase_visit` -/
theorem eraseVisit_tie (s : LS) (p : EraseP) (e : Nat) : c_cstl_hash_erase_visit s p e = eraseVisit s p e := by
  unfold c_cstl_hash_erase_visit eraseVisit
  split <;> rfl

theorem chkN_bind {α : Type} (a : Nat) (k : LR α) :
    (chkN a >>= fun _ => k) = if a = 0 then stop .nullDeref else k := by
  unfold chkN
  by_cases h : a = 0
  · simp [h, stop_bind]
  · simp [h]

/-- `cstl_hash_erase` after the keyed lookup: the walk with `cstl_hash_erase_visit`,
the splice through the pointer-to-pointer, the count -/
theorem eraseTail_tie (fuel : Nat) (s : LS) (bk e : Nat) : c_cstl_hash_erase fuel s bk e = eraseTail fuel s bk e := by
  have hv : c_cstl_hash_erase_visit = eraseVisit := by
    funext s p e; exact eraseVisit_tie s p e
  unfold c_cstl_hash_erase eraseTail
  simp only [hv, bucketForeach_tie, chkN_bind]

/-- `cstl_hash_insert` after the keyed lookup: key field, chain-head insertion, count -/
theorem insertTail_tie (s : LS) (bk k e : Nat) : c_cstl_hash_insert s bk k e = insertTail s bk k e := rfl

end Cstl.HashL.Tie
