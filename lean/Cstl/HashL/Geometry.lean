import Cstl.HashL.Enum
/-
Refinement of the geometry operations: `__cstl_hash_set_capacity` (abstract
`realloc`), the initialisation of added buckets, `cstl_hash_resize`,
`cstl_hash_shrink_to_fit`.
-/
namespace Cstl.HashL
open Cstl.SList (Mem upd upd_same upd_other)
open Cstl.Hash (HashId Stop Tr Call AllocEv Node HT Bucket R nodes wr rd mem_nodes wr_get SameGeom WGeom Walk)

variable (hf : HashId → Nat → Nat → Nat)

theorem flatMap_take_len {α β : Type} (f : α → List β) (l : List α) (sz : Nat) :
    ((l.take sz).flatMap f).length ≤ (l.flatMap f).length := by
  have h := congrArg (fun l => (l.flatMap f).length) (List.take_append_drop sz l)
  simp only [List.flatMap_append, List.length_append] at h
  omega

theorem nodes_resizeArr_len (t : HT) (sz : Nat) :
    (nodes { t with bk := Hash.resizeArr t.bk sz }).length ≤ (nodes t).length := by
  unfold nodes Hash.resizeArr
  by_cases hs : sz ≤ t.bk.size
  · simp only [hs, if_true, Array.toList_extract, List.extract_eq_take_drop, List.drop_zero, Nat.sub_zero]
    exact flatMap_take_len _ _ _
  · simp only [hs, if_false, Array.toList_append, Array.toList_replicate, List.flatMap_append]
    have : (List.replicate (sz - t.bk.size) ({ chain := [], cst := false } : Bucket)).flatMap (·.chain) = [] := by
      apply List.flatMap_eq_nil_iff.mpr
      intro b hb
      rw [List.eq_of_mem_replicate hb]
    rw [this, List.append_nil]
    exact Nat.le_refl _

/-- a bucket of the re-allocated array is an old bucket or a fresh empty one -/
theorem resizeArr_get {t : HT} {sz i : Nat} {b : Bucket} (h : (Hash.resizeArr t.bk sz)[i]? = some b) :
    (i < t.bk.size ∧ t.bk[i]? = some b) ∨ (t.bk.size ≤ i ∧ b = Hash.emptyBucket) := by
  rw [Hash.getElem?_resizeArr] at h
  by_cases h1 : i < sz
  · rw [if_pos h1] at h
    by_cases h2 : i < t.bk.size
    · rw [if_pos h2] at h; exact Or.inl ⟨h2, h⟩
    · rw [if_neg h2] at h; exact Or.inr ⟨by omega, (Option.some.inj h).symm⟩
  · rw [if_neg h1] at h; cases h

theorem Step.realloc {s : LS} {t : HT} (r : Rep s t) (sz : Nat) :
    Step s t (s.realloc sz) { t with bk := Hash.resizeArr t.bk sz } := by
  refine ⟨⟨?_, r.count, r.hash, r.cst, r.rhHash, r.rhCount, r.clean, r.size, ?_, ?_, ?_, ?_⟩, ?_,
    nodes_resizeArr_len t sz, rfl, fun _ _ => rfl⟩
  · show sz = _; rw [Hash.size_resizeArr]
  · intro i b h
    show Chain s.nxt (if i < s.t.cap then s.t.head i else 0) _
    rcases resizeArr_get h with ⟨h1, h2⟩ | ⟨h1, rfl⟩
    · rw [r.cap, if_pos h1]; exact r.chain i b h2
    · rw [r.cap, if_neg (by omega)]; exact rfl
  · intro i b h
    show (if i < s.t.cap then s.t.bcst i else false) = _
    rcases resizeArr_get h with ⟨h1, h2⟩ | ⟨h1, rfl⟩
    · rw [r.cap, if_pos h1]; exact r.bits i b h2
    · rw [r.cap, if_neg (by omega)]; rfl
  · intro i b h n hn
    rcases resizeArr_get h with ⟨_, h2⟩ | ⟨_, rfl⟩
    · exact r.keys i b h2 n hn
    · simp [Hash.emptyBucket] at hn
  · intro i j b b' h h' a ha ha'
    rcases resizeArr_get h with ⟨_, h2⟩ | ⟨_, rfl⟩
    · rcases resizeArr_get h' with ⟨_, h2'⟩ | ⟨_, rfl⟩
      · exact r.uniq i j b b' h2 h2' a ha ha'
      · simp [Hash.emptyBucket] at ha'
    · simp [Hash.emptyBucket] at ha
  · rintro a ⟨i, b, h, ha⟩
    rcases resizeArr_get h with ⟨_, h2⟩ | ⟨_, rfl⟩
    · exact ⟨i, b, h2, ha⟩
    · simp [Hash.emptyBucket] at ha

/-- `__cstl_hash_set_capacity` (every allocation outcome) -/
theorem setCapacity_sim {s : LS} {t : HT} (r : Rep s t) (oracle : Nat → Bool) (sz : Nat) :
    Sim (fun s' t' => Step s t s' t') (setCapacity oracle s sz) (Hash.setCapacity oracle t sz) := by
  unfold setCapacity Hash.setCapacity
  refine Sim.ite Iff.rfl (fun _ => Sim.pure (Step.refl r)) (fun _ => ?_)
  refine Sim.ite Iff.rfl (fun _ => Sim.stop _) (fun _ => ?_)
  refine Sim.bind (Sim.logEv _) ?_
  intro _ _ _ _
  exact Sim.ite Iff.rfl (fun _ => Sim.pure (Step.realloc r sz)) (fun _ => Sim.pure (Step.refl r))

/-- the bucket-initialisation loop of `cstl_hash_resize` -/
theorem initBuckets_sim : ∀ (d : Nat) {s : LS} {t : HT} (lo : Nat), Rep s t →
    Sim (fun s' t' => Step s t s' t') (initBuckets s lo d) (Hash.initBuckets t lo d)
  | 0, s, t, lo, r => Sim.pure (Step.refl r)
  | d + 1, s, t, lo, r => by
    rw [Hash.initBuckets_succ]
    unfold initBuckets
    refine Sim.bind (Sim.chk_rd r lo) ?_
    intro _ b hb _
    have r1 : Rep ((s.setHead lo 0).setBcst lo (s.setHead lo 0).t.cst) (wr t lo { chain := [], cst := t.cst }) := by
      refine r.update hb s.nxt s.keyOf (upd s.t.head lo 0) (updB s.t.bcst lo s.t.cst) [] t.cst ?_ ?_ (by simp) ?_ ?_
        (fun _ _ _ _ _ _ => ⟨rfl, rfl⟩) (by simp)
      · simp
      · simp [updB, r.cst]
      · intro j hj; exact upd_other _ _ _ _ hj
      · intro j hj; simp [updB, hj]
    have st1 : Step s t ((s.setHead lo 0).setBcst lo (s.setHead lo 0).t.cst) (wr t lo { chain := [], cst := t.cst }) := by
      refine ⟨r1, fun a h => owns_wr_sub hb (by simp) h, ?_, rfl, fun _ _ => rfl⟩
      have := nodes_wr_len (b' := { chain := [], cst := t.cst }) hb
      simp at this
      omega
    refine (initBuckets_sim d (lo + 1) r1).mono ?_
    intro s' t' h _
    exact st1.trans h

/-- the part of `cstl_hash_resize` after the pending rehash has been forced -/
theorem resizeTail_sim {s : LS} {t : HT} (r : Rep s t) (n : Nat) (f : Option HashId) :
    Sim (fun s' t' => Step s t s' t') (resizeTail s n f) (Hash.resizeTail t n f) := by
  rw [Hash.resizeTail_unfold]
  unfold resizeTail
  have st0 : Step s t { s with t := { s.t with cst := !s.t.cst } } { t with cst := !t.cst } :=
    Step.scalars r rfl rfl rfl r.cap r.count r.hash (by show (!s.t.cst) = (!t.cst); rw [r.cst]) r.rhHash r.rhCount
      r.clean r.size
  show Sim _ (initBuckets { s with t := { s.t with cst := !s.t.cst } } s.t.count (n - s.t.count) >>= _) _
  rw [r.count]
  refine Sim.bind (initBuckets_sim _ _ st0.rep) ?_
  intro s4 t4 st4 _
  have st := st0.trans st4
  refine Sim.ite (by show s4.t.hash = none ↔ _; rw [st.rep.hash]) (fun _ => Sim.pure ?_) (fun _ => Sim.pure ?_)
  · exact st.trans (Step.scalars st.rep rfl rfl rfl st.rep.cap rfl (by show some _ = some _; rw [st.rep.hash])
      st.rep.cst rfl rfl rfl st.rep.size)
  · exact st.trans (Step.scalars st.rep rfl rfl rfl st.rep.cap st.rep.count st.rep.hash
      st.rep.cst (by show some _ = some _; rw [st.rep.hash]) rfl rfl st.rep.size)

theorem effCount_eq {s : LS} {t : HT} (r : Rep s t) : s.t.effCount = t.effCount := by
  unfold LT.effCount Hash.HT.effCount; rw [r.rhHash, r.rhCount, r.count]

theorem effHash_eq {s : LS} {t : HT} (r : Rep s t) : s.t.effHash = t.effHash := by
  unfold LT.effHash Hash.HT.effHash; rw [r.rhHash, r.hash]

/-- **`cstl_hash_resize`**: grow, shrink, other function, also while an earlier
one is pending, every allocation outcome -/
theorem resize_sim {s : LS} {t : HT} (r : Rep s t) {fuel : Nat} (hfuel : (nodes t).length ≤ fuel)
    (oracle : Nat → Bool) (n : Nat) (f : Option HashId) :
    Sim (fun s' t' => Step s t s' t') (resize hf fuel oracle s n f) (Hash.resize hf oracle t n f) := by
  rw [Hash.resize_unfold]
  unfold resize
  refine Sim.ite Iff.rfl (fun _ => Sim.pure (Step.refl r)) (fun _ => ?_)
  have hens : Sim (fun s' t' => Step s t s' t') (ensureCapacity oracle s n) (Hash.ensureCapacity oracle t n) := by
    unfold ensureCapacity Hash.ensureCapacity
    exact Sim.ite (by rw [r.cap]) (fun _ => setCapacity_sim r oracle n) (fun _ => Sim.pure (Step.refl r))
  refine Sim.bind hens ?_
  intro s1 t1 st1 _
  refine Sim.ite (by rw [st1.rep.cap, effCount_eq st1.rep, effHash_eq st1.rep]) (fun _ => ?_) (fun _ => Sim.pure st1)
  refine Sim.bind (rehash_sim hf st1.rep (Nat.le_trans st1.len hfuel)) ?_
  intro s2 t2 st2 _
  refine (resizeTail_sim st2.rep n f).mono ?_
  intro s' t' h _
  exact st1.trans (st2.trans h)

/-- **`cstl_hash_shrink_to_fit`** -/
theorem shrink_sim {s : LS} {t : HT} (r : Rep s t) {fuel : Nat} (hfuel : (nodes t).length ≤ fuel)
    (oracle : Nat → Bool) :
    Sim (fun s' t' => Step s t s' t') (shrink hf fuel oracle s) (Hash.shrink hf oracle t) := by
  unfold shrink Hash.shrink
  refine Sim.ite (by rw [r.cap, effCount_eq r]) (fun _ => ?_) (fun _ => Sim.pure (Step.refl r))
  refine Sim.bind (rehash_sim hf r hfuel) ?_
  intro s1 t1 st1 _
  rw [st1.rep.count]
  refine (setCapacity_sim st1.rep oracle t1.count).mono ?_
  intro s' t' h _
  exact st1.trans h

end Cstl.HashL
