import Cstl.HashL.Ops
/-
Refinement of the enumerations: `cstl_hash_bucket_foreach` under
`__cstl_hash_foreach` with a callback that may erase the element it is
visiting (the successor was read before the visit), the table walk,
`cstl_hash_foreach`, `cstl_hash_foreach_const`, `cstl_hash_clear`.
-/
namespace Cstl.HashL
open Cstl.SList (Mem upd upd_same upd_other)
open Cstl.Hash (HashId Stop Tr Call AllocEv Node HT Bucket R nodes wr rd mem_nodes wr_get SameGeom WGeom Walk)

variable (hf : HashId → Nat → Nat → Nat)

/-- no node of a NULL-terminated chain links back to the first node -/
theorem Chain.no_back {nxt : Mem} {x : Nat} {xs : List Nat} (h : Chain nxt x (x :: xs)) :
    ∀ y ∈ xs, nxt y ≠ x := by
  intro y hy e
  obtain ⟨p, q, hpq⟩ := List.append_of_mem hy
  have c1 : Chain nxt y (y :: q) := Chain.suffix p y q h.2.2 hpq
  have c2 : Chain nxt x q := by rw [← e]; exact c1.2.2
  have := Chain.functional c2 h
  rw [this] at hpq
  have hl := congrArg List.length hpq
  simp at hl
  omega

/-- which callbacks may erase the element they visit: none, or no rehash is pending -/
def LMode (visit : Nat → Node → Int × Bool) (t : HT) : Prop :=
  (∀ idx n, (visit idx n).2 = false) ∨ t.rhHash = none

theorem LMode.of_geom {visit : Nat → Node → Int × Bool} {t t' : HT} (h : LMode visit t) (g : WGeom t t') :
    LMode visit t' := by
  rcases h with h | h
  · exact Or.inl h
  · exact Or.inr (by rw [g.1]; exact h)

/-- link-level walk state against the existing model's `Walk` -/
def WRel (s0 : LS) (t0 : HT) (x : LS × WalkP × Int) (w : Walk) : Prop :=
  Step s0 t0 x.1 w.t ∧ WGeom t0 w.t ∧ x.2.1.idx = w.idx ∧ x.2.1.seen = w.seen ∧ x.2.2 = w.res

theorem WRel.trans {s0 s1 : LS} {t0 t1 : HT} {x : LS × WalkP × Int} {w : Walk} (st : Step s0 t0 s1 t1)
    (g : WGeom t0 t1) (h : WRel s1 t1 x w) : WRel s0 t0 x w :=
  ⟨st.trans h.1, g.trans h.2.1, h.2.2⟩

/-- **one bucket of an enumeration**: the pointer walk reads the successor
before the visit; the callback may stop the walk and (when no rehash is
pending) erase the element it is visiting through `cstl_hash_erase`.  It makes
the same callbacks in the same order as `Hash.bucketWalk` on the chain and
leaves a state representing the same table. -/
theorem bucketWalk_sim (fuel : Nat) (visit : Nat → Node → Int × Bool) :
    ∀ (ns : List Node) (fuel' : Nat) (s : LS) (w : Walk) (p : WalkP) (n : Nat),
      Rep s w.t → (nodes w.t).length ≤ fuel → LMode visit w.t → p.idx = w.idx → p.seen = w.seen → w.res = 0 →
      Chain s.nxt n (ids ns) → (∀ x ∈ ns, s.nodeOf x.id = x) → ns.length ≤ fuel' →
      Sim (WRel s w.t) (bucketForeach (userVisit hf fuel visit) fuel' s p n) (Hash.bucketWalk hf visit w ns)
  | [], fuel', s, w, p, n, r, _, _, hi, hs, hr, hc, _, _ => by
    have hn : n = 0 := hc
    subst hn
    rw [bucketForeach_null]
    exact Sim.pure ⟨Step.refl r, WGeom.refl _, hi, hs, hr.symm⟩
  | x :: xs, 0, _, _, _, _, _, _, _, _, _, _, _, _, hl => by simp at hl
  | x :: xs, fuel' + 1, s, w, p, n, r, hfuel, hmode, hi, hs, hr, hc, hk, hl => by
    have hc0 : Chain s.nxt n (x.id :: ids xs) := hc
    obtain ⟨hn, hx0, hc'⟩ := hc0
    subst hn
    have hkx : s.nodeOf x.id = x := hk x (by simp)
    have hkey : s.keyOf x.id = x.key := by rw [← hkx]; rfl
    have huv : userVisit hf fuel visit s p x.id =
        ((if (visit p.idx (s.nodeOf x.id)).2 = true then erase hf fuel s x.id else pure s) >>= fun s' =>
          pure (s', { idx := p.idx + 1, seen := s.nodeOf x.id :: p.seen }, (visit p.idx (s.nodeOf x.id)).1)) := rfl
    rw [bucketForeach_succ _ _ _ _ hx0, Hash.bucketWalk_cons, huv, bind_assoc, hkx, ← hi, ← hs]
    -- the callback: possibly an erase of the element being visited
    have hvisit : Sim (fun s' t' => Erased s w.t x.id s' t')
        (if (visit p.idx x).2 = true then erase hf fuel s x.id else pure s)
        (Hash.visitErase hf w.t (visit p.idx x).2 x) := by
      unfold Hash.visitErase
      refine Sim.ite Iff.rfl (fun her => ?_) (fun _ => Sim.pure ⟨Step.refl r, WGeom.refl _, fun _ _ => rfl⟩)
      have hset : w.t.rhHash = none := by
        rcases hmode with h | h
        · rw [h] at her; cases her
        · exact h
      rw [← hkey]
      exact erase_settled_sim hf r hfuel x.id hset
    refine Sim.bind hvisit ?_
    intro s' t' er _
    rw [pure_bind]
    have hback := Chain.no_back (nxt := s.nxt) (x := x.id) (xs := ids xs) ⟨rfl, hx0, hc'⟩
    refine Sim.ite Iff.rfl (fun _ => Sim.pure ⟨er.step, er.geom, rfl, rfl, rfl⟩) (fun hz => ?_)
    have hc1 : Chain s'.nxt (s.nxt x.id) (ids xs) :=
      hc'.transfer (fun a ha => er.fine a (hback a ha))
    have hk1 : ∀ y ∈ xs, s'.nodeOf y.id = y := by
      intro y hy
      have := hk y (by simp [hy])
      unfold LS.nodeOf at this ⊢
      rw [er.step.key]; exact this
    have hz' : (visit p.idx x).1 = 0 := Classical.not_not.mp hz
    have hl' : xs.length ≤ fuel' := by simp at hl; omega
    refine (bucketWalk_sim fuel visit xs fuel' s'
      { t := t', idx := p.idx + 1, seen := x :: p.seen, res := (visit p.idx x).1 }
      { idx := p.idx + 1, seen := x :: p.seen } (s.nxt x.id) er.step.rep
      (Nat.le_trans er.step.len hfuel) (hmode.of_geom er.geom) rfl rfl hz' hc1 hk1 hl').mono ?_
    intro y w' h _
    exact WRel.trans er.step er.geom h

theorem bound_eq {s : LS} {t : HT} (r : Rep s t) : s.t.bound = t.bound := by
  unfold LT.bound Hash.HT.bound
  rw [r.rhHash, r.count, r.rhCount]

/-- **the bucket loop of `__cstl_hash_foreach`** (its bound computed once, before the loop) -/
theorem tableWalk_sim (fuel : Nat) (visit : Nat → Node → Int × Bool) (B : Nat) :
    ∀ (d : Nat) (s : LS) (w : Walk) (p : WalkP) (res : Int) (i : Nat),
      Rep s w.t → (nodes w.t).length ≤ fuel → LMode visit w.t → p.idx = w.idx → p.seen = w.seen → res = w.res →
      w.t.bound = B →
      Sim (WRel s w.t) (tableWalk hf fuel visit B s p res i d) (Hash.tableWalk hf visit w i d)
  | 0, s, w, p, res, i, r, _, _, hi, hs, hr, _ => Sim.pure ⟨Step.refl r, WGeom.refl _, hi, hs, hr⟩
  | d + 1, s, w, p, res, i, r, hfuel, hmode, hi, hs, hr, hB => by
    rw [Hash.tableWalk_succ]
    unfold tableWalk
    refine Sim.ite (by rw [hB, hr]) ?_ (fun _ => Sim.pure ⟨Step.refl r, WGeom.refl _, hi, hs, hr⟩)
    intro hcond
    refine Sim.bind (Sim.chk_rd r i) ?_
    intro _ b hb _
    have hlen : b.chain.length ≤ fuel := Nat.le_trans (chain_le_nodes hb) hfuel
    have hres : w.res = 0 := by rw [← hr]; exact hcond.2
    refine Sim.bind (bucketWalk_sim hf fuel visit b.chain fuel s w p (s.t.head i) r hfuel hmode hi hs hres
      (r.chain i b hb) (fun x hx => r.node_eq hb hx) hlen) ?_
    rintro ⟨s1, p1, res1⟩ w1 ⟨st, g, h1, h2, h3⟩ _
    simp only at st g h1 h2 h3
    refine (tableWalk_sim fuel visit B d s1 w1 p1 res1 (i + 1) st.rep (Nat.le_trans st.len hfuel)
      (hmode.of_geom g) h1 h2 h3 (by rw [g.bound]; exact hB)).mono ?_
    intro y w' h _
    exact WRel.trans st g h

/-- `__cstl_hash_foreach` -/
theorem hforeach_sim {s : LS} {t : HT} (r : Rep s t) {fuel : Nat} (hfuel : (nodes t).length ≤ fuel)
    (visit : Nat → Node → Int × Bool) (hmode : LMode visit t) :
    Sim (WRel s t) (hforeach hf fuel s visit) (Hash.hforeach hf t visit) := by
  unfold hforeach Hash.hforeach
  rw [bound_eq r]
  exact tableWalk_sim hf fuel visit t.bound t.bound s { t := t, idx := 0, seen := [], res := 0 }
    { idx := 0, seen := [] } 0 0 r hfuel hmode rfl rfl rfl rfl

/-- **`cstl_hash_foreach`** (forces a pending rehash, then walks; callbacks may
erase their element and stop the walk): same callbacks in the same order, same
result, the state left represents the table `Hash.foreach` leaves -/
theorem foreach_sim {s : LS} {t : HT} (r : Rep s t) (inv : Hash.Inv hf t) {fuel : Nat}
    (hfuel : (nodes t).length ≤ fuel) (visit : Nat → Node → Int × Bool) :
    Sim (fun x y => Step s t x.1 y.1 ∧ x.2 = y.2) (foreach hf fuel s visit) (Hash.foreach hf t visit) := by
  rw [Hash.foreach_unfold]
  unfold foreach
  refine Sim.bind (rehash_sim hf r hfuel) ?_
  intro s1 t1 st hval
  have hset : t1.rhHash = none := ((Hash.rehash_spec hf inv).of_ok hval).2.1
  refine Sim.bind (hforeach_sim hf st.rep (Nat.le_trans st.len hfuel) visit (Or.inr hset)) ?_
  rintro ⟨s2, p2, res2⟩ w ⟨st2, _, _, h2, h3⟩ _
  simp only at st2 h2 h3
  refine Sim.pure ⟨st.trans st2, ?_⟩
  show (res2, p2.seen.reverse) = (w.res, w.seen.reverse)
  rw [h2, h3]

/-- **`cstl_hash_foreach_const`** at any stage of a pending rehash -/
theorem foreachConst_sim {s : LS} {t : HT} (r : Rep s t) {fuel : Nat} (hfuel : (nodes t).length ≤ fuel)
    (visit : Nat → Node → Int) :
    Sim (fun x y => x = y) (foreachConst hf fuel s visit) (Hash.foreachConst hf t visit) := by
  rw [Hash.foreachConst_unfold]
  unfold foreachConst
  refine Sim.bind (hforeach_sim hf r hfuel _ (Or.inl (fun _ _ => rfl))) ?_
  rintro ⟨s2, p2, res2⟩ w ⟨_, _, _, h2, h3⟩ _
  simp only at h2 h3
  refine Sim.pure ?_
  show (res2, p2.seen.reverse) = (w.res, w.seen.reverse)
  rw [h2, h3]

/-- **`cstl_hash_clear`** at any stage of a pending rehash: the callback gets
the same elements in the same order; the emptied table is represented -/
theorem clear_sim {s : LS} {t : HT} (r : Rep s t) {fuel : Nat} (hfuel : (nodes t).length ≤ fuel) (withCb : Bool) :
    Sim (fun x y => Step s t x.1 y.1 ∧ x.2 = y.2) (clear hf fuel s withCb) (Hash.clear hf t withCb) := by
  rw [Hash.clear_unfold]
  unfold clear Hash.clearWalk
  have hwalk : Sim (WRel s t)
      (if withCb = true then hforeach hf fuel s (fun _ _ => (0, false)) else pure (s, { idx := 0, seen := [] }, 0))
      (if withCb = true then Hash.hforeach hf t (fun _ _ => (0, false))
       else pure { t := t, idx := 0, seen := [], res := 0 }) :=
    Sim.ite Iff.rfl (fun _ => hforeach_sim hf r hfuel _ (Or.inl (fun _ _ => rfl)))
      (fun _ => Sim.pure ⟨Step.refl r, WGeom.refl _, rfl, rfl, rfl⟩)
  refine Sim.bind hwalk ?_
  rintro ⟨s2, p2, res2⟩ w ⟨st2, _, _, h2, _⟩ _
  simp only at st2 h2
  have hfree : Sim (fun _ _ => True) (if s.t.cap ≠ 0 then logEv .free else pure ()) (Hash.freeArr t) := by
    unfold Hash.freeArr
    exact Sim.ite (by rw [r.cap]) (fun _ => Sim.logEv _) (fun _ => Sim.pure trivial)
  refine Sim.bind hfree ?_
  intro _ _ _ _
  refine Sim.pure ⟨⟨?_, ?_, ?_, st2.key, st2.frame⟩, ?_⟩
  · refine ⟨rfl, rfl, rfl, st2.rep.cst, rfl, st2.rep.rhCount, st2.rep.clean, rfl, ?_, ?_, ?_, ?_⟩
    · intro i b h; simp at h
    · intro i b h; simp at h
    · intro i b h; simp at h
    · intro i j b b' h; simp at h
  · rintro a ⟨i, b, h, _⟩; simp at h
  · simp [nodes]
  · show p2.seen.reverse = w.seen.reverse
    rw [h2]

end Cstl.HashL
