import Cstl.HashFn.Model
/-
Vocabulary of the translation of `cstl_hash_div` / `cstl_hash_mul` (tools/c2lean_hashfn.py
regenerates `Cstl.Gen.HashFnC` from the clang AST of src/hash.c on every check run).

A non-negative binary32 value is carried *exactly* as a pair `⟨n, s⟩` meaning `n · 2^-s`
(`n` has at most 24 significant bits after every rounding; no exponent-range effect can occur in
`cstl_hash_mul`, see Model.lean).  Each C operation on `float` operands becomes one function
below, with one rounding (`rnd`, round-to-nearest-even on 24 significant bits) per arithmetic
operation, exactly as IEEE-754 prescribes with `FLT_EVAL_METHOD == 0`:

  (float) <size_t expr>                `ofSizeT`   IntegralToFloating: the integer, rounded
  <float literal>f                     `lit n s`   the translator converts the literal to its binary32
                                                   bit pattern (it CHECKS that the literal's type is
                                                   float) and emits significand and scale
  a * b   (both float)                 `fmul`      exact product, one rounding
  a - b   (both float, a ≥ b)          `fsub`      exact difference at the finer scale, one rounding
  floorf(a)                            `ffloor`    exact
  (size_t) <float expr>                `toSizeT`   FloatingToIntegral truncates
  k % m   (size_t)                     `Nat.mod`

An operand of type `double` (or any other type) is *not* in the vocabulary: the translator reports
the function as not translated and the tie theorems fail.
-/
namespace Cstl.HashFn.CSem
open Cstl.HashFn

/-- `n · 2^-s`. -/
structure F32 where
  n : Nat
  s : Nat
  deriving Repr, DecidableEq

def lit (n s : Nat) : F32 := ⟨n, s⟩

def ofSizeT (k : Nat) : F32 := ⟨rnd k, 0⟩

def fmul (a b : F32) : F32 := ⟨rnd (a.n * b.n), a.s + b.s⟩

/-- both operands are brought to the finer of the two scales (exact), then one rounding;
truncated subtraction: the translation is only tied where `a ≥ b` (here `M ≥ floorf(M)`). -/
def fsub (a b : F32) : F32 :=
  let s := max a.s b.s
  ⟨rnd (a.n * 2 ^ (s - a.s) - b.n * 2 ^ (s - b.s)), s⟩

def ffloor (a : F32) : F32 := ⟨a.n / 2 ^ a.s * 2 ^ a.s, a.s⟩

def toSizeT (a : F32) : Nat := a.n / 2 ^ a.s

end Cstl.HashFn.CSem
