/-
Model of the two built-in bucket-selection functions of src/hash.c (C17a).

    size_t cstl_hash_div(const size_t k, const size_t m) { return k % m; }

    size_t cstl_hash_mul(const size_t k, const size_t m)
    {
        static const float phi = 1.61803398875f;
        const float M = phi * k;
        return (M - floorf(M)) * m;
    }

IEEE-754 binary32 arithmetic is modelled on *scaled naturals* (core Lean only,
so the driver links and the kernel can compute with it; Lean's `Float32` is
opaque to the kernel):

* `rnd n` rounds the natural `n` to 24 significant bits, ties to even.  It is
  scale independent (`rnd (n * 2^s) = rnd n * 2^s`), so the same function
  rounds a value that is carried as an integer multiple of `2^-23`.
* No exponent-range effect can occur in `cstl_hash_mul`: every intermediate
  value is `0` or lies in `[2^-23, 2^65)`, far inside the normal range
  `[2^-126, 2^128)` of binary32; `FLT_EVAL_METHOD == 0` is asserted by the
  harness (every operation is rounded to binary32, no excess precision).

Values carried at scale `2^-23` are marked `(×2^-23)` below.
-/
namespace Cstl.HashFn

/-- Round to 24 significant bits, round-half-to-even (binary32 `RNE`).
For `n ≥ 2^24`: `e = ⌊log2 n⌋ - 23` is the exponent of the unit in the last
place, `q` the 24-bit significand obtained by truncation, `r` the discarded
part, `2^(e-1)` the half-way point. -/
def rnd (n : Nat) : Nat :=
  if n < 2 ^ 24 then n
  else
    let e := Nat.log2 n - 23
    let q := n / 2 ^ e
    let r := n % 2 ^ e
    let h := 2 ^ (e - 1)
    if h < r ∨ (r = h ∧ q % 2 = 1) then (q + 1) * 2 ^ e else q * 2 ^ e

/-- The binary32 value of the literal `1.61803398875f` is `PHI * 2^-23`
(bit pattern `0x3FCF1BBD`: exponent 0, significand `0x4F1BBD + 2^23`). -/
def PHI : Nat := 13573053

/-- The first statement and the parenthesised factor of the second one:
`M - floorf(M)` for `M = phi * k`, operation by operation, in the order of the
C code.  Result at scale `2^-23`. -/
def frac (k : Nat) : Nat :=
  let kf := rnd k                       -- (float)k            : size_t → float conversion
  let M  := rnd (PHI * kf)              -- phi * k   (×2^-23)  : one rounded multiplication
  let fl := (M / 2 ^ 23) * 2 ^ 23       -- floorf(M) (×2^-23)  : exact by definition of floorf
  rnd (M - fl)                          -- M - floorf(M) (×2^-23) : one rounded subtraction

/-- `cstl_hash_mul`: `(size_t)((M - floorf(M)) * m)`. -/
def hashMul (k m : Nat) : Nat :=
  let fr := frac k
  let mf := rnd m                       -- (float)m            : size_t → float conversion
  let P  := rnd (fr * mf)               -- (..) * m  (×2^-23)  : one rounded multiplication
  P / 2 ^ 23                            -- (size_t)            : float → size_t truncates

/-- `cstl_hash_div` (domain of the property: `m ≥ 1`; `k % 0` traps in C). -/
def hashDiv (k m : Nat) : Nat := k % m

end Cstl.HashFn
