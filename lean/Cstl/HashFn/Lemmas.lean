import Cstl.HashFn.Model
/-
Helper lemmas for C17a: the rounding function `rnd` of the binary32 model
(decomposition, bounds, monotonicity, fixed points, scale independence) and
the existence of a representable value in `[(1-2^-23)·(float)m, m)`.
Core Lean only (`omega`, `grind`, `simp`).
-/
namespace Cstl.HashFn

/-- `n` is a binary32-representable magnitude: at most 24 significant bits. -/
def Rep (n : Nat) : Prop := ∃ q e, q < 2 ^ 24 ∧ n = q * 2 ^ e

theorem rnd_of_lt {n : Nat} (h : n < 2 ^ 24) : rnd n = n := by
  simp [rnd, h]

/-- The pieces `rnd` computes for `n ≥ 2^24`. -/
structure Dec (n e q r : Nat) : Prop where
  he  : 1 ≤ e
  hn  : n = q * 2 ^ e + r
  hr  : r < 2 ^ e
  hq1 : 2 ^ 23 ≤ q
  hq2 : q < 2 ^ 24
  hh  : 2 * 2 ^ (e - 1) = 2 ^ e

theorem two_pow_pos (e : Nat) : 0 < 2 ^ e := Nat.pow_pos (by decide)

theorem dec_big {n : Nat} (h : 2 ^ 24 ≤ n) :
    Dec n (n.log2 - 23) (n / 2 ^ (n.log2 - 23)) (n % 2 ^ (n.log2 - 23)) := by
  have hn0 : n ≠ 0 := by
    intro h0; subst h0; simp at h
  have hL : 24 ≤ n.log2 := (Nat.le_log2 hn0).2 h
  have h1 : 2 ^ n.log2 ≤ n := Nat.log2_self_le hn0
  have h2 : n < 2 ^ (n.log2 + 1) := Nat.lt_log2_self
  generalize hLe : n.log2 = L at *
  obtain ⟨e, rfl⟩ : ∃ e, L = 23 + (e + 1) := ⟨L - 24, by omega⟩
  have he : 23 + (e + 1) - 23 = e + 1 := by omega
  rw [he]
  have hP : 0 < 2 ^ (e + 1) := two_pow_pos _
  have e1 : 2 ^ (23 + (e + 1)) = 2 ^ 23 * 2 ^ (e + 1) := Nat.pow_add ..
  have e2 : 2 ^ (23 + (e + 1) + 1) = 2 ^ 24 * 2 ^ (e + 1) := by
    rw [show 23 + (e + 1) + 1 = 24 + (e + 1) by omega, Nat.pow_add]
  rw [e1] at h1; rw [e2] at h2
  refine ⟨by omega, ?_, Nat.mod_lt _ hP, ?_, ?_, ?_⟩
  · have := Nat.div_add_mod n (2 ^ (e + 1)); rw [Nat.mul_comm] at this; omega
  · exact (Nat.le_div_iff_mul_le hP).2 h1
  · exact (Nat.div_lt_iff_lt_mul hP).2 h2
  · show 2 * 2 ^ (e + 1 - 1) = 2 ^ (e + 1)
    rw [Nat.add_sub_cancel, Nat.pow_succ, Nat.mul_comm]

theorem rnd_big {n : Nat} (h : 2 ^ 24 ≤ n) :
    ∃ e q r, e = n.log2 - 23 ∧ q = n / 2 ^ e ∧ r = n % 2 ^ e ∧ Dec n e q r ∧
      ((rnd n = q * 2 ^ e ∧ (2 * r < 2 ^ e ∨ (2 * r = 2 ^ e ∧ q % 2 = 0))) ∨
       (rnd n = (q + 1) * 2 ^ e ∧ (2 ^ e < 2 * r ∨ (2 * r = 2 ^ e ∧ q % 2 = 1)))) := by
  have d := dec_big h
  refine ⟨_, _, _, rfl, rfl, rfl, d, ?_⟩
  have hh := d.hh
  have hlt : ¬ n < 2 ^ 24 := by omega
  unfold rnd
  simp only [hlt, if_false]
  generalize 2 ^ (n.log2 - 23 - 1) = H at *
  generalize n % 2 ^ (n.log2 - 23) = r at *
  generalize n / 2 ^ (n.log2 - 23) = q at *
  generalize 2 ^ (n.log2 - 23) = P at *
  by_cases c : H < r ∨ (r = H ∧ q % 2 = 1)
  · rw [if_pos c]; right; refine ⟨rfl, ?_⟩; omega
  · rw [if_neg c]; left; refine ⟨rfl, ?_⟩; omega


theorem log2_mono {a b : Nat} (ha : a ≠ 0) (h : a ≤ b) : a.log2 ≤ b.log2 := by
  have hb : b ≠ 0 := by omega
  exact (Nat.le_log2 hb).2 (Nat.le_trans (Nat.log2_self_le ha) h)

/-- `rnd n` lies between the truncated significand and its successor, both at
the exponent of `n`. -/
theorem rnd_big_bounds {n : Nat} (h : 2 ^ 24 ≤ n) :
    2 ^ 23 * 2 ^ (n.log2 - 23) ≤ rnd n ∧ rnd n ≤ 2 ^ 24 * 2 ^ (n.log2 - 23) := by
  obtain ⟨e, q, r, he, _, _, d, hc⟩ := rnd_big h
  subst he
  have l1 : 2 ^ 23 * 2 ^ (n.log2 - 23) ≤ q * 2 ^ (n.log2 - 23) := Nat.mul_le_mul_right _ d.hq1
  have l2 : (q + 1) * 2 ^ (n.log2 - 23) ≤ 2 ^ 24 * 2 ^ (n.log2 - 23) :=
    Nat.mul_le_mul_right _ d.hq2
  have l3 : q * 2 ^ (n.log2 - 23) ≤ (q + 1) * 2 ^ (n.log2 - 23) :=
    Nat.mul_le_mul_right _ (Nat.le_succ q)
  rcases hc with ⟨hr, _⟩ | ⟨hr, _⟩ <;> rw [hr] <;> omega

theorem rnd_le_rnd {a b : Nat} (hab : a ≤ b) : rnd a ≤ rnd b := by
  by_cases ha : a < 2 ^ 24
  · rw [rnd_of_lt ha]
    by_cases hb : b < 2 ^ 24
    · rw [rnd_of_lt hb]; exact hab
    · have hb' : 2 ^ 24 ≤ b := by omega
      have := (rnd_big_bounds hb').1
      have hP : 1 ≤ 2 ^ (b.log2 - 23) := two_pow_pos _
      have : 2 ^ 23 * 1 ≤ 2 ^ 23 * 2 ^ (b.log2 - 23) := Nat.mul_le_mul_left _ hP
      obtain ⟨e, q, r, he, _, _, d, _⟩ := rnd_big hb'
      subst he
      have h2 : 2 ≤ 2 ^ (b.log2 - 23) := by
        have := Nat.pow_le_pow_right (n := 2) (by decide) d.he
        simpa using this
      have : 2 ^ 23 * 2 ≤ 2 ^ 23 * 2 ^ (b.log2 - 23) := Nat.mul_le_mul_left _ h2
      omega
  · have ha' : 2 ^ 24 ≤ a := by omega
    have hb' : 2 ^ 24 ≤ b := by omega
    have ha0 : a ≠ 0 := by intro h0; subst h0; simp at ha'
    have hL := log2_mono ha0 hab
    by_cases hE : a.log2 - 23 < b.log2 - 23
    · -- different exponents: a whole binade lies between
      have h1 := (rnd_big_bounds ha').2
      have h2 := (rnd_big_bounds hb').1
      have h3 : 2 ^ (a.log2 - 23 + 1) ≤ 2 ^ (b.log2 - 23) :=
        Nat.pow_le_pow_right (by decide) hE
      rw [Nat.pow_succ] at h3
      have h4 : 2 ^ 23 * (2 ^ (a.log2 - 23) * 2) ≤ 2 ^ 23 * 2 ^ (b.log2 - 23) :=
        Nat.mul_le_mul_left _ h3
      have h5 : 2 ^ 23 * (2 ^ (a.log2 - 23) * 2) = 2 ^ 24 * 2 ^ (a.log2 - 23) := by
        rw [Nat.mul_comm (2 ^ (a.log2 - 23)) 2, ← Nat.mul_assoc]
      omega
    · -- same exponent
      have hE' : a.log2 - 23 = b.log2 - 23 := by omega
      obtain ⟨ea, qa, ra, hea, hqa, _, da, ca⟩ := rnd_big ha'
      obtain ⟨eb, qb, rb, heb, hqb, _, db, cb⟩ := rnd_big hb'
      have hee : ea = eb := by omega
      subst hee
      have hq : qa ≤ qb := by rw [hqa, hqb]; exact Nat.div_le_div_right hab
      have hna := da.hn
      have hnb := db.hn
      have hra := da.hr
      have hrb := db.hr
      by_cases hqq : qa = qb
      · subst hqq
        have hX : (qa + 1) * 2 ^ ea = qa * 2 ^ ea + 2 ^ ea := by
          rw [Nat.add_mul, Nat.one_mul]
        generalize (qa + 1) * 2 ^ ea = Y at *
        generalize qa * 2 ^ ea = X at *
        generalize 2 ^ ea = P at *
        rcases ca with ⟨hr1, c1⟩ | ⟨hr1, c1⟩ <;> rcases cb with ⟨hr2, c2⟩ | ⟨hr2, c2⟩ <;>
          rw [hr1, hr2] <;> omega
      · have hlt : qa + 1 ≤ qb := by omega
        have h1 : (qa + 1) * 2 ^ ea ≤ qb * 2 ^ ea := Nat.mul_le_mul_right _ hlt
        have h2 : qa * 2 ^ ea ≤ (qa + 1) * 2 ^ ea := Nat.mul_le_mul_right _ (Nat.le_succ _)
        have h3 : qb * 2 ^ ea ≤ (qb + 1) * 2 ^ ea := Nat.mul_le_mul_right _ (Nat.le_succ _)
        rcases ca with ⟨hr1, _⟩ | ⟨hr1, _⟩ <;> rcases cb with ⟨hr2, _⟩ | ⟨hr2, _⟩ <;>
          rw [hr1, hr2] <;> omega


theorem rnd_eq_self {n : Nat} (h : Rep n) : rnd n = n := by
  by_cases hn : n < 2 ^ 24
  · exact rnd_of_lt hn
  · have hn' : 2 ^ 24 ≤ n := by omega
    obtain ⟨q, s, hq, rfl⟩ := h
    have hn0 : q * 2 ^ s ≠ 0 := by intro h0; rw [h0] at hn'; simp at hn'
    obtain ⟨e, q', r, he, _, hr, d, hc⟩ := rnd_big hn'
    -- the exponent of n is at most s, so 2^e divides n and nothing is discarded
    have hlt : q * 2 ^ s < 2 ^ (24 + s) := by
      rw [Nat.pow_add]; exact Nat.mul_lt_mul_of_lt_of_le hq (Nat.le_refl _) (two_pow_pos _)
    have hL : (q * 2 ^ s).log2 < 24 + s := (Nat.log2_lt hn0).2 hlt
    have hes : e ≤ s := by omega
    have hdvd : 2 ^ e ∣ q * 2 ^ s := Nat.dvd_trans (Nat.pow_dvd_pow 2 hes) (Nat.dvd_mul_left _ _)
    have hr0 : r = 0 := by rw [hr]; exact Nat.mod_eq_zero_of_dvd hdvd
    have hP := two_pow_pos e
    have hn := d.hn
    rcases hc with ⟨h1, _⟩ | ⟨_, h2⟩
    · rw [h1]; omega
    · omega

theorem rep_rnd (n : Nat) : Rep (rnd n) := by
  by_cases hn : n < 2 ^ 24
  · rw [rnd_of_lt hn]; exact ⟨n, 0, hn, by simp⟩
  · have hn' : 2 ^ 24 ≤ n := by omega
    obtain ⟨e, q, r, _, _, _, d, hc⟩ := rnd_big hn'
    rcases hc with ⟨h1, _⟩ | ⟨h1, _⟩
    · exact ⟨q, e, d.hq2, h1⟩
    · by_cases hq : q + 1 < 2 ^ 24
      · exact ⟨q + 1, e, hq, h1⟩
      · have hq' : q + 1 = 2 ^ 23 * 2 := by have := d.hq2; omega
        refine ⟨2 ^ 23, e + 1, by decide, ?_⟩
        rw [h1, hq']; grind

theorem log2_eq_of {n L : Nat} (h1 : 2 ^ L ≤ n) (h2 : n < 2 ^ (L + 1)) : n.log2 = L := by
  have hn0 : n ≠ 0 := by have := two_pow_pos L; omega
  have a : L ≤ n.log2 := (Nat.le_log2 hn0).2 h1
  have b : n.log2 < L + 1 := (Nat.log2_lt hn0).2 h2
  omega

/-- `rnd` is scale independent: it can be applied to a value carried as an
integer multiple of any power of two. -/
theorem rnd_scale (n s : Nat) : rnd (n * 2 ^ s) = rnd n * 2 ^ s := by
  by_cases hn : n < 2 ^ 24
  · rw [rnd_of_lt hn]; exact rnd_eq_self ⟨n, s, hn, rfl⟩
  · have hb : 2 ^ 24 ≤ n := by omega
    have hS := two_pow_pos s
    have hb' : ¬ n * 2 ^ s < 2 ^ 24 := by
      have := Nat.le_mul_of_pos_right n hS; omega
    have hn0 : n ≠ 0 := by omega
    have hL : 24 ≤ n.log2 := (Nat.le_log2 hn0).2 hb
    have hlog : (n * 2 ^ s).log2 = n.log2 + s := by
      apply log2_eq_of
      · rw [Nat.pow_add]; exact Nat.mul_le_mul_right _ (Nat.log2_self_le hn0)
      · rw [show n.log2 + s + 1 = (n.log2 + 1) + s by omega, Nat.pow_add]
        exact Nat.mul_lt_mul_of_lt_of_le Nat.lt_log2_self (Nat.le_refl _) hS
    have he : (n * 2 ^ s).log2 - 23 = (n.log2 - 23) + s := by omega
    have he1 : (n.log2 - 23) + s - 1 = (n.log2 - 23 - 1) + s := by omega
    unfold rnd
    rw [if_neg hb', if_neg hn]
    simp only [he, he1, Nat.pow_add, Nat.mul_div_mul_right _ _ hS, Nat.mul_mod_mul_right]
    generalize 2 ^ (n.log2 - 23 - 1) = H
    generalize n % 2 ^ (n.log2 - 23) = r
    generalize n / 2 ^ (n.log2 - 23) = q
    generalize 2 ^ (n.log2 - 23) = P
    have c1 : H * 2 ^ s < r * 2 ^ s ↔ H < r := Nat.mul_lt_mul_right hS
    have c2 : r * 2 ^ s = H * 2 ^ s ↔ r = H := Nat.mul_left_inj (by omega)
    simp only [c1, c2]
    split <;> simp [Nat.mul_assoc]

/-- The key fact behind `hashMul_lt`: below `m` (at scale `2^-23`) there is a
representable value that is at least `(1 - 2^-23) · (float)m`. -/
theorem exists_rep_between {m : Nat} (hm : 1 ≤ m) :
    ∃ R, Rep R ∧ (2 ^ 23 - 1) * rnd m ≤ R ∧ R < 2 ^ 23 * m := by
  by_cases hs : m < 2 ^ 24
  · -- (float)m = m;  R = m·2^23 - 2^⌊log2 m⌋  (the predecessor of m·2^23)
    rw [rnd_of_lt hs]
    have hm0 : m ≠ 0 := by omega
    have h1 : 2 ^ m.log2 ≤ m := Nat.log2_self_le hm0
    have h2 : m < 2 ^ (m.log2 + 1) := Nat.lt_log2_self
    have hL : m.log2 < 24 := (Nat.log2_lt hm0).2 hs
    generalize m.log2 = L at *
    obtain ⟨j, hj⟩ : ∃ j, j + L = 23 := ⟨23 - L, by omega⟩
    have hp : 2 ^ j * 2 ^ L = 2 ^ 23 := by rw [← Nat.pow_add, hj]
    have hq : m * 2 ^ j < 2 ^ 24 := by
      have : m * 2 ^ j < 2 ^ (L + 1) * 2 ^ j :=
        Nat.mul_lt_mul_of_lt_of_le h2 (Nat.le_refl _) (two_pow_pos _)
      rw [← Nat.pow_add, show L + 1 + j = 24 by omega] at this
      exact this
    have hq1 : 1 ≤ m * 2 ^ j := Nat.mul_pos hm (two_pow_pos _)
    obtain ⟨t, ht⟩ : ∃ t, m * 2 ^ j = t + 1 := ⟨m * 2 ^ j - 1, by omega⟩
    have hP := two_pow_pos L
    have key : (t + 1) * 2 ^ L = m * 2 ^ 23 := by rw [← ht, Nat.mul_assoc, hp]
    refine ⟨t * 2 ^ L, ⟨t, L, by omega, rfl⟩, ?_, ?_⟩
    · generalize 2 ^ L = PL at *; grind
    · generalize 2 ^ L = PL at *; grind
  · have hb : 2 ^ 24 ≤ m := by omega
    obtain ⟨e, q, r, _, _, _, d, hc⟩ := rnd_big hb
    have hP := two_pow_pos e
    have hX : 2 ^ 23 * 2 ^ e ≤ q * 2 ^ e := Nat.mul_le_mul_right _ d.hq1
    have hn := d.hn
    have hq1 := d.hq1
    have hq2 := d.hq2
    have hpow : 2 ^ (e + 23) = 2 ^ e * 2 ^ 23 := Nat.pow_add ..
    rcases hc with ⟨h1, c⟩ | ⟨h1, c⟩
    · -- rounded down: R = (q-1)·2^e (×2^23)
      obtain ⟨t, rfl⟩ : ∃ t, q = t + 1 := ⟨q - 1, by omega⟩
      refine ⟨t * 2 ^ (e + 23), ⟨t, e + 23, by omega, rfl⟩, ?_, ?_⟩
      · rw [h1, hpow]; generalize 2 ^ e = P at *; grind
      · rw [hpow]; generalize 2 ^ e = P at *; grind
    · -- rounded up: R = q·2^e (×2^23), and something non-zero was discarded
      have hr : 0 < r := by omega
      refine ⟨q * 2 ^ (e + 23), ⟨q, e + 23, hq2, rfl⟩, ?_, ?_⟩
      · rw [h1, hpow]; generalize 2 ^ e = P at *; grind
      · rw [hpow]; generalize 2 ^ e = P at *; grind

end Cstl.HashFn
