import Cstl.Base.Driver
import Cstl.HashFn.Model
/-
Driver for the hashfn area (C17a).  Stateless; same line protocol as
harness/hashfn.c:

    mul <k> <m>   ->  "<cstl_hash_mul(k,m)> | -"
    div <k> <m>   ->  "<cstl_hash_div(k,m)> | -"     (m = 0: "STOP signal", SIGFPE in C)

Arguments are size_t values (decimal, `M`, `M-k` as in Cstl.parseNat?).
-/
open Cstl Cstl.HashFn

def hstep (s : Unit) (ws : List String) : Unit × String :=
  let arg (a : String) : Option Nat := do
    let n ← parseNat? a
    if n < 2 ^ 64 then some n else none
  match ws with
  | ["mul", k, m] =>
    match arg k, arg m with
    | some k, some m => (s, toString (hashMul k m) ++ " | -")
    | _, _ => (s, "STOP bad-op")
  | ["div", k, m] =>
    match arg k, arg m with
    | some k, some m =>
      if m = 0 then (s, "STOP signal") else (s, toString (hashDiv k m) ++ " | -")
    | _, _ => (s, "STOP bad-op")
  | _ => (s, "STOP bad-op")

def main : IO Unit := runArea { init := (), step := hstep }
