import Cstl.HashFn.Lemmas
/-
C17 (numeric half): `cstl_hash_div` and `cstl_hash_mul` return a value in
`[0, m)` for every key and every table size `m ≥ 1`.

`hashMul` / `hashDiv` (Model.lean) compute what the C functions compute,
operation by operation, on binary32 values carried as scaled naturals; the
correspondence check runs the compiled functions against them on the float
boundary grid on every run.  The theorems below are about *all* naturals
`k`, `m`, hence in particular about all 64-bit `size_t` values.

Trusted, not proved: that the FPU implements round-to-nearest-even binary32
with `FLT_EVAL_METHOD == 0` (asserted by the harness, validated by the
correspondence check).
-/
namespace Cstl.HashFn

/-! ### division hash -/

theorem hashDiv_lt (k m : Nat) (hm : 1 ≤ m) : hashDiv k m < m :=
  Nat.mod_lt _ hm

example : hashDiv (2 ^ 64 - 1) (2 ^ 64 - 2) = 1 := by decide

/-! ### the rounding function is IEEE round-to-nearest on 24-bit significands -/

/-- Monotone. -/
theorem rnd_mono {a b : Nat} (h : a ≤ b) : rnd a ≤ rnd b := rnd_le_rnd h

/-- Values with at most 24 significant bits are fixed … -/
theorem rnd_fixed {n : Nat} (h : n < 2 ^ 24) : rnd n = n := rnd_of_lt h

/-- … at every scale (`Rep n`: `n = q·2^e` with `q < 2^24`). -/
theorem rnd_fixed_rep {n : Nat} (h : Rep n) : rnd n = n := rnd_eq_self h

example : Rep (16777215 * 2 ^ 40) ∧ ¬ (16777215 * 2 ^ 40 < 2 ^ 24) :=
  ⟨⟨16777215, 40, by decide, rfl⟩, by decide⟩

/-- Faithful rounding: the result is representable, and no representable value
lies strictly between the argument and the result. -/
theorem rnd_faithful (n : Nat) :
    Rep (rnd n) ∧ ∀ x, Rep x → (x ≤ n → x ≤ rnd n) ∧ (n ≤ x → rnd n ≤ x) := by
  refine ⟨rep_rnd n, fun x hx => ⟨fun h => ?_, fun h => ?_⟩⟩
  · have := rnd_le_rnd h; rwa [rnd_eq_self hx] at this
  · have := rnd_le_rnd h; rwa [rnd_eq_self hx] at this

/-- Round to *nearest*: the error is at most half a unit in the last place
(`2^(⌊log2 n⌋-23)` is the unit in the last place of a 24-bit significand). -/
theorem rnd_nearest {n : Nat} (h : 2 ^ 24 ≤ n) :
    2 * (rnd n - n) ≤ 2 ^ (n.log2 - 23) ∧ 2 * (n - rnd n) ≤ 2 ^ (n.log2 - 23) := by
  obtain ⟨e, q, r, he, _, _, d, hc⟩ := rnd_big h
  subst he
  have hn := d.hn
  have hr := d.hr
  have hX : (q + 1) * 2 ^ (n.log2 - 23) = q * 2 ^ (n.log2 - 23) + 2 ^ (n.log2 - 23) := by
    rw [Nat.add_mul, Nat.one_mul]
  generalize (q + 1) * 2 ^ (n.log2 - 23) = Y at *
  generalize q * 2 ^ (n.log2 - 23) = X at *
  generalize 2 ^ (n.log2 - 23) = P at *
  rcases hc with ⟨h1, c⟩ | ⟨h1, c⟩ <;> rw [h1] <;> omega

/-- Ties go to the even significand. -/
theorem rnd_ties_even {n : Nat} (h : 2 ^ 24 ≤ n)
    (htie : 2 * (n % 2 ^ (n.log2 - 23)) = 2 ^ (n.log2 - 23)) :
    (rnd n / 2 ^ (n.log2 - 23)) % 2 = 0 := by
  obtain ⟨e, q, r, he, _, hr, d, hc⟩ := rnd_big h
  subst he
  subst hr
  have hP := two_pow_pos (n.log2 - 23)
  rcases hc with ⟨h1, c⟩ | ⟨h1, c⟩ <;> rw [h1, Nat.mul_div_cancel _ hP] <;> omega

/-- Scale independence: the same function rounds a value that is carried as an
integer multiple of `2^-s` (used at `s = 23` in `frac` and `hashMul`). -/
theorem rnd_scale_indep (n s : Nat) : rnd (n * 2 ^ s) = rnd n * 2 ^ s := rnd_scale n s

-- both directions of rounding and a tie occur
example : rnd (2 ^ 24 + 1) = 2 ^ 24 ∧ rnd (2 ^ 24 + 3) = 2 ^ 24 + 4 ∧
    rnd (2 ^ 25 + 5) = 2 ^ 25 + 4 ∧ rnd (2 ^ 25 + 7) = 2 ^ 25 + 8 := by decide
-- `(float)m` can exceed `m`: the case the proof of `hashMul_lt` has to survive
example : (2 ^ 64 - 1) < rnd (2 ^ 64 - 1) := by decide

/-! ### multiplicative hash -/

/-- `M - floorf(M)` is at most `1 - 2^-23` (scale `2^-23`). -/
theorem frac_le (k : Nat) : frac k ≤ 2 ^ 23 - 1 := by
  have : frac k < 2 ^ 23 := by
    unfold frac
    simp only
    generalize rnd (PHI * rnd k) = M
    have hm : M - M / 2 ^ 23 * 2 ^ 23 = M % 2 ^ 23 := by
      have := Nat.div_add_mod M (2 ^ 23); omega
    rw [hm]
    have hlt : M % 2 ^ 23 < 2 ^ 23 := Nat.mod_lt _ (by decide)
    rw [rnd_of_lt (by omega)]
    exact hlt
  omega

example : frac 1 = 5184445 ∧ frac 3 = 7164728 ∧ frac (2 ^ 40) = 0 := by decide

/-- **C17a.**  The multiplicative hash is in range for every key and every
table size `m ≥ 1` — all naturals, so in particular all 64-bit values.

`fr·(float)m ≤ (1-2^-23)·(float)m ≤ R < m` for a representable `R`
(`exists_rep_between`), and rounding is monotone and fixes `R`. -/
theorem hashMul_lt (k m : Nat) (hm : 1 ≤ m) : hashMul k m < m := by
  obtain ⟨R, hR, h1, h2⟩ := exists_rep_between hm
  have hx : frac k * rnd m ≤ R :=
    Nat.le_trans (Nat.mul_le_mul_right _ (frac_le k)) h1
  have hP : rnd (frac k * rnd m) ≤ R := by
    have := rnd_le_rnd hx; rwa [rnd_eq_self hR] at this
  unfold hashMul
  simp only
  apply (Nat.div_lt_iff_lt_mul (by decide)).2
  omega

/-- For `size_t` arguments the product that is converted back to `size_t` is
below `2^64`, so the float → `size_t` conversion is defined, and the result is
a valid bucket index. -/
theorem hashMul_size_t (k m : Nat) (_hk : k < 2 ^ 64) (hm1 : 1 ≤ m) (hm : m < 2 ^ 64) :
    rnd (frac k * rnd m) < 2 ^ 64 * 2 ^ 23 ∧ hashMul k m < m := by
  refine ⟨?_, hashMul_lt k m hm1⟩
  obtain ⟨R, hR, h1, h2⟩ := exists_rep_between hm1
  have hx : frac k * rnd m ≤ R :=
    Nat.le_trans (Nat.mul_le_mul_right _ (frac_le k)) h1
  have hP : rnd (frac k * rnd m) ≤ R := by
    have := rnd_le_rnd hx; rwa [rnd_eq_self hR] at this
  omega

example : hashMul 1 (2 ^ 64 - 1) = 11400715122130288640 ∧ hashMul 3 16777217 = 14329456 ∧
    hashMul 1 1 = 0 := by decide

end Cstl.HashFn
