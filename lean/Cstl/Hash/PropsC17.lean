import Cstl.Hash.Examples
/-
C17, part b — bucket selection is fail-stop for ARBITRARY hash functions.

`hf` is uninterpreted.  For every entry point: (1) on any table satisfying the
invariant the operation never answers `oob` / `nullDeref`, i.e. every bucket
index it uses is below the capacity and no NULL function or array is used;
(2) on ANY table state it stops with `abort` if and only if a hash result it
consulted was >= the bucket count it was asked for.  (The numeric range of
cstl_hash_div / cstl_hash_mul is part a, area hashfn.)
-/
namespace Cstl.Hash

variable (hf : HashId → Nat → Nat → Nat)

/-- the fail-stop verdict of one model operation -/
structure FailStopOK {α : Type} (m : R α) : Prop where
  no_oob : m.val ≠ .error .oob
  no_null : m.val ≠ .error .nullDeref
  abort_iff : m.val = .error .abort ↔ ∃ c ∈ m.tr.calls, c.m ≤ hf c.fn c.key c.m

theorem FailStopOK.of {α : Type} {m : R α} {P : Tr → α → Prop} (hs : m.Spec P) (hfs : m.FailStop hf) :
    FailStopOK hf m :=
  ⟨hs.not_fault.1, hs.not_fault.2, hfs⟩

/-- `__cstl_hash_get_bucket`: the check itself — abort iff the result is out of range -/
theorem getBucket_failstop (fn : HashId) (k m : Nat) :
    ((getBucket hf (some fn) k m).val = .error .abort ↔ m ≤ hf fn k m) ∧
    ∀ i, (getBucket hf (some fn) k m).val = .ok i → i = hf fn k m ∧ i < m := by
  unfold getBucket
  simp only [bind_def, R.bind, logCall]
  by_cases h : m ≤ hf fn k m
  · simp [h, stop]
  · simp [h, pure_def, R.pure]
    omega

theorem insert_failstop {t : HT} (k e : Nat) (inv : Inv hf t) (hr : t.hash.isSome)
    (hfresh : ∀ n ∈ nodes t, n.id ≠ e) : FailStopOK hf (insert hf t k e) :=
  .of hf (insert_spec hf k e inv hr hfresh) (insert_FS hf t k e)

theorem find_failstop {t : HT} (k : Nat) (acc : Option (Nat → Node → Bool)) (inv : Inv hf t) (hr : t.hash.isSome) :
    FailStopOK hf (find hf t k acc) :=
  .of hf (find_spec hf k acc inv hr) (find_FS hf t k acc)

theorem erase_failstop {t : HT} (k e : Nat) (inv : Inv hf t) (hr : t.hash.isSome)
    (hkey : ∀ n ∈ nodes t, n.id = e → n.key = k) : FailStopOK hf (erase hf t k e) :=
  .of hf (erase_spec hf k e inv hr hkey) (erase_FS hf t k e)

theorem resize_failstop (oracle : Nat → Bool) {t : HT} (n : Nat) (f : Option HashId) (inv : Inv hf t) :
    FailStopOK hf (resize hf oracle t n f) :=
  .of hf (resize_spec hf oracle n f inv) (resize_FS hf oracle t n f)

theorem rehash_failstop {t : HT} (inv : Inv hf t) : FailStopOK hf (rehash hf t) :=
  .of hf (rehash_spec hf inv) (rehash_FS hf t)

theorem shrink_failstop (oracle : Nat → Bool) {t : HT} (inv : Inv hf t) : FailStopOK hf (shrink hf oracle t) :=
  .of hf (shrink_spec hf oracle inv) (shrink_FS hf oracle t)

theorem foreach_failstop (visit : Nat → Node → Int × Bool) {t : HT} (inv : Inv hf t) :
    FailStopOK hf (foreach hf t visit) :=
  .of hf (foreach_spec hf visit inv) (foreach_FS hf t visit)

theorem foreachConst_failstop (visit : Nat → Node → Int) {t : HT} (inv : Inv hf t) :
    FailStopOK hf (foreachConst hf t visit) :=
  .of hf (foreachConst_spec hf visit inv) (foreachConst_FS hf t visit)

theorem clear_failstop (withCb : Bool) {t : HT} (inv : Inv hf t) : FailStopOK hf (clear hf t withCb) :=
  .of hf (clear_spec hf withCb inv) (clear_FS hf t withCb)

/-- a function that always answers `m` (out of range): the lookup on the
pending example table aborts, and the theorem applies to it -/
example : (find (fun _ _ m => m) Ex.t1 3 none).val = .error .abort := rfl

/-- an in-range run: no abort, and the verdict structure is inhabited on the pending table -/
example : FailStopOK Ex.hf0 (find Ex.hf0 Ex.tPending 5 none) ∧ ∃ r, (find Ex.hf0 Ex.tPending 5 none).val = .ok r :=
  ⟨find_failstop Ex.hf0 5 none Ex.tPending_inv rfl, _, rfl⟩

theorem step_FS (s : Sys) (op : Op) : (step hf s op).FailStop hf := by
  cases op with
  | insert tb k e => exact R.FailStop.bind hf (insert_FS hf _ _ _) (fun _ _ => R.FailStop.pure hf _)
  | find tb k acc => exact R.FailStop.bind hf (find_FS hf _ _ _) (fun _ _ => R.FailStop.pure hf _)
  | erase tb e => exact R.FailStop.bind hf (erase_FS hf _ _ _) (fun _ _ => R.FailStop.pure hf _)
  | resize tb n f oracle => exact R.FailStop.bind hf (resize_FS hf _ _ _ _) (fun _ _ => R.FailStop.pure hf _)
  | rehash tb => exact R.FailStop.bind hf (rehash_FS hf _) (fun _ _ => R.FailStop.pure hf _)
  | shrink tb oracle => exact R.FailStop.bind hf (shrink_FS hf _ _) (fun _ _ => R.FailStop.pure hf _)
  | swap => exact R.FailStop.pure hf _
  | foreach tb visit => exact R.FailStop.bind hf (foreach_FS hf _ _) (fun _ _ => R.FailStop.pure hf _)
  | foreachConst tb visit => exact R.FailStop.bind hf (foreachConst_FS hf _ _) (fun _ _ => R.FailStop.pure hf _)
  | clear tb withCb => exact R.FailStop.bind hf (clear_FS hf _ _) (fun _ _ => R.FailStop.pure hf _)

theorem run_FS : ∀ (ops : List Op) (s : Sys), (run hf s ops).FailStop hf
  | [], _ => R.FailStop.pure hf _
  | op :: ops, s =>
    R.FailStop.bind hf (step_FS hf s op) (fun r _ =>
      R.FailStop.bind hf (run_FS ops r.1) (fun _ _ => R.FailStop.pure hf _))

/-- **History level**: along every history inside the documented domain, for an
arbitrary hash-function family, the library never touches memory outside a
bucket array and never calls through NULL; the history stops with `abort`
exactly when a consulted hash result was out of range. -/
theorem run_failstop (ops : List Op) (hv : ValidFrom hf Sys.init ops) : FailStopOK hf (run hf Sys.init ops) :=
  .of hf (run_refines hf ops hv) (run_FS hf ops Sys.init)

/-- a hash-function family that honours its contract: a value in `[0, m)` for every `m ≥ 1` -/
def InRange : Prop := ∀ f k m, 1 ≤ m → hf f k m < m

/-- with an in-range family an operation that satisfies a fail-stop triple does
not stop at all: it returns, and the postcondition holds -/
theorem returns_of_in_range {α : Type} {m : R α} {P : Tr → α → Prop} (hr : InRange hf) (hs : m.Spec P)
    (hfs : m.FailStop hf) : ∃ a, m.val = .ok a ∧ P m.tr a := by
  cases hv : m.val with
  | ok a => exact ⟨a, rfl, hs.of_ok hv⟩
  | error e =>
    exfalso
    have he : e = .abort := by have := hs.2; rw [hv] at this; exact this
    subst he
    obtain ⟨c, hc, hbad⟩ := hfs.mp hv
    have := hr c.fn c.key c.m (hs.pos c hc)
    unfold Call.bad at hbad
    omega

/-- **In-range families never abort**: for every history inside the documented
domain the run returns, the invariant holds and every answer is the one the
multiset specification prescribes (C03/C04 without the `abort` alternative).
`cstl_hash_div` and `cstl_hash_mul` are in range by part a of C17. -/
theorem run_total_in_range (hr : InRange hf) (ops : List Op) (hv : ValidFrom hf Sys.init ops) :
    ∃ r, (run hf Sys.init ops).val = .ok r ∧ SysInv hf r.1 ∧ SpecRun (absOf Sys.init) ops r.2 (absOf r.1) := by
  obtain ⟨r, h1, h2⟩ := returns_of_in_range hf hr (run_refines hf ops hv) (run_FS hf ops Sys.init)
  exact ⟨r, h1, h2.1⟩

/-- the harness's `k mod m` / `(k/2) mod m` / constant-0 family is in range -/
example : InRange Ex.hf0 := by
  intro f k m hm
  unfold Ex.hf0
  split
  · exact Nat.mod_lt _ (by omega)
  · split
    · exact Nat.mod_lt _ (by omega)
    · omega

end Cstl.Hash
