import Cstl.Hash.Examples
import Cstl.Hash.Incremental
/-
C19 — Rehash is incremental, finishes in bounded operations, lands where
requested.  Every operation reports (in its trace) the hash calls it made and
the number of buckets whose chain it detached and re-inserted.
-/
namespace Cstl.Hash

variable (hf : HashId → Nat → Nat → Nat)

/-- `cstl_hash_load` is size / (pending count if a rehash is pending, else the
current count), and size is the number of live elements -/
theorem load_spec {t : HT} (inv : Inv hf t) : t.load = ((nodes t).length, t.effCount) := by
  unfold HT.load; rw [inv.size_eq]

/-- **lands where requested**: a resize request for `n ≥ 1` buckets that can be
satisfied (array large enough or `realloc` succeeds) — also one issued while an
earlier resize is still pending, also back to the current count — makes `n`
the count and `f` (else the function the table was heading for, else
`cstl_hash_mul`) the function the table is heading for: `cstl_hash_load`
reports size/`n` immediately. -/
theorem resize_lands (oracle : Nat → Bool) {t : HT} (n : Nat) (f : Option HashId) (inv : Inv hf t)
    (hs : Satisfiable oracle t n) :
    (resize hf oracle t n f).Spec (fun _ t' =>
      t'.effCount = n ∧ t'.effHash = some (reqHash t f) ∧ t'.load = ((nodes t).length, n) ∧ t'.hash.isSome) := by
  refine (resize_spec hf oracle n f inv).mono ?_
  rintro _ t' ⟨i', hp, hsz, hsat, _⟩
  obtain ⟨h1, h2, h3⟩ := hsat hs
  refine ⟨h1, h2, ?_, h3⟩
  unfold HT.load; rw [h1, hsz, inv.size_eq]

/-- defect #4 witness shape: 2 → 4 pending, request 2 (the current count) again -/
example : (resize Ex.hf0 Ex.yes Ex.tPending 2 none).Spec (fun _ t' =>
    t'.effCount = 2 ∧ t'.effHash = some (reqHash Ex.tPending none) ∧ t'.load = ((nodes Ex.tPending).length, 2) ∧
    t'.hash.isSome) :=
  resize_lands Ex.hf0 Ex.yes 2 none Ex.tPending_inv ⟨by omega, Or.inl (by simp [Ex.tPending])⟩

/-- keyed operations, forced rehash, shrink-to-fit and enumeration keep the
geometry the table is heading for -/
theorem heading_kept_keyed {t : HT} (op : KOp) (inv : Inv hf t) (hr : t.hash.isSome) (hv : KValid t op) :
    (kstep hf t op).Spec (fun _ t' => t'.effCount = t.effCount ∧ t'.effHash = t.effHash) :=
  (kstep_spec hf op inv hr hv).mono (fun _ _ h => ⟨h.2.effCount, h.2.effHash⟩)

theorem heading_kept_rehash {t : HT} (inv : Inv hf t) :
    (rehash hf t).Spec (fun _ t' => t'.effCount = t.effCount ∧ t'.effHash = t.effHash ∧ t'.rhHash = none) := by
  refine (rehash_spec hf inv).mono ?_
  rintro _ t' ⟨_, hs, _, _, _, _, _, hc, hh, _⟩
  refine ⟨?_, ?_, hs⟩
  · unfold HT.effCount at hc ⊢; rw [hs]; exact hc
  · unfold HT.effHash at hh ⊢; rw [hs]; exact hh

theorem heading_kept_shrink (oracle : Nat → Bool) {t : HT} (inv : Inv hf t) :
    (shrink hf oracle t).Spec (fun _ t' => t'.effCount = t.effCount ∧ t'.effHash = t.effHash) :=
  (shrink_spec hf oracle inv).mono (fun _ _ h => ⟨h.2.2.2.1, h.2.2.2.2.1⟩)

/-- **once the rehash has finished every lookup consults the hash function
exactly once**, with the bucket count and the function the table was heading
for (= the ones most recently requested, by `resize_lands` and `heading_kept_*`) -/
theorem settled_single_call {t : HT} (op : KOp) (inv : Inv hf t) (hr : t.hash.isSome) (hv : KValid t op)
    (hs : t.rhHash = none) :
    (kstep hf t op).Spec (fun tr t' => ∃ g, t.effHash = some g ∧ tr.calls = [⟨g, op.key, t.effCount⟩] ∧
      t'.rhHash = none ∧ tr.reloc ≤ 3) := by
  refine (kstep_spec hf op inv hr hv).mono ?_
  rintro tr t' ⟨_, g⟩
  obtain ⟨h1, _, _, h, hh, hc⟩ := g.settled_case hs
  refine ⟨h, ?_, ?_, h1, g.reloc⟩
  · unfold HT.effHash; rw [hs]; exact hh
  · unfold HT.effCount; rw [hs]; exact hc

example : (kstep Ex.hf0 Ex.t4 (.find 5 none)).Spec (fun tr t' => ∃ g, Ex.t4.effHash = some g ∧
    tr.calls = [⟨g, 5, Ex.t4.effCount⟩] ∧ t'.rhHash = none ∧ tr.reloc ≤ 3) :=
  settled_single_call Ex.hf0 (.find 5 none) Ex.t4_inv rfl trivial rfl

/-- **incremental**: while a rehash is pending a keyed operation relocates the
contents of at most three buckets, makes no allocation request, and either
finishes the rehash (the table is then settled on the pending geometry) or
advances the sweep index by at least one -/
theorem keyed_cost_and_progress {t : HT} (op : KOp) (inv : Inv hf t) (hr : t.hash.isSome) (hv : KValid t op)
    (hp : t.rhHash.isSome) :
    (kstep hf t op).Spec (fun tr t' => tr.reloc ≤ 3 ∧ tr.evs = [] ∧
      ((t'.rhHash = none ∧ t'.count = t.rhCount ∧ t'.hash = t.rhHash) ∨
       (t'.rhHash = t.rhHash ∧ t'.count = t.count ∧ t'.rhCount = t.rhCount ∧ t.clean + 1 ≤ t'.clean))) := by
  refine (kstep_spec hf op inv hr hv).mono ?_
  rintro tr t' ⟨_, g⟩
  refine ⟨g.reloc, g.evs, ?_⟩
  rcases g.pending_case hp with h | ⟨a, b, _, d, e, _⟩
  · exact Or.inl h
  · exact Or.inr ⟨a, b, d, e⟩

example : (kstep Ex.hf0 Ex.tPending (.insert 7 13)).Spec (fun tr t' => tr.reloc ≤ 3 ∧ tr.evs = [] ∧
    ((t'.rhHash = none ∧ t'.count = Ex.tPending.rhCount ∧ t'.hash = Ex.tPending.rhHash) ∨
     (t'.rhHash = Ex.tPending.rhHash ∧ t'.count = Ex.tPending.count ∧ t'.rhCount = Ex.tPending.rhCount ∧
       Ex.tPending.clean + 1 ≤ t'.clean))) :=
  keyed_cost_and_progress Ex.hf0 (.insert 7 13) Ex.tPending_inv rfl (by simp [KValid, nodes, Ex.tPending]) rfl

/-- **the rehash finishes** after no more keyed operations than there were
buckets: any sequence of at least `count` keyed operations (inserts, finds,
erases, in any mix) issued while a rehash is pending leaves the table settled
on the pending geometry -/
theorem rehash_finishes (ops : List KOp) {t : HT} (inv : Inv hf t) (hr : t.hash.isSome)
    (hv : KValidFrom hf t ops) (hp : t.rhHash.isSome) (hlen : t.count ≤ ops.length) :
    (krun hf t ops).Spec (fun _ t' => Inv hf t' ∧ t'.rhHash = none ∧ t'.count = t.rhCount ∧ t'.hash = t.rhHash) := by
  have h1 : 1 ≤ t.count := inv.ready hr
  exact krun_finishes hf ops t inv hr hv hp (by omega) (by omega)

/-- sharper: `count - clean` operations suffice (at least one) -/
theorem rehash_finishes_sharp (ops : List KOp) {t : HT} (inv : Inv hf t) (hr : t.hash.isSome)
    (hv : KValidFrom hf t ops) (hp : t.rhHash.isSome) (h1 : 1 ≤ ops.length) (hlen : t.count - t.clean ≤ ops.length) :
    (krun hf t ops).Spec (fun _ t' => Inv hf t' ∧ t'.rhHash = none ∧ t'.count = t.rhCount ∧ t'.hash = t.rhHash) :=
  krun_finishes hf ops t inv hr hv hp h1 hlen

example : (krun Ex.hf0 Ex.tPending [.find 1 none, .find 9 none]).Spec (fun _ t' => Inv Ex.hf0 t' ∧ t'.rhHash = none ∧
    t'.count = 4 ∧ t'.hash = some 2) :=
  rehash_finishes Ex.hf0 _ Ex.tPending_inv rfl ⟨trivial, fun _ _ => ⟨trivial, fun _ _ => trivial⟩⟩ rfl (by simp [Ex.tPending])

/-- **no operation does work proportional to the table**: a keyed operation
touches at most three buckets — every bucket outside a set of at most three
indices keeps its chain as a suffix of its new chain (nodes relocated into it
are put in front, nothing is removed or reordered).  Holds on every table
state and for every `hf`. -/
theorem keyed_touches_three (t : HT) (op : KOp) (t' : HT) (h : (kstep hf t op).val = .ok t') :
    ∃ touched : List Nat, touched.length ≤ 3 ∧
      ∀ (j : Nat) (b : Bucket), j ∉ touched → t.bk[j]? = some b → ∃ b', t'.bk[j]? = some b' ∧ b.chain <:+ b'.chain :=
  keyed_untouched_buckets hf t op t' h

example : ∃ t', (kstep Ex.hf0 Ex.tPending (.find 5 none)).val = .ok t' ∧
    ∃ touched : List Nat, touched.length ≤ 3 ∧ ∀ (j : Nat) (b : Bucket), j ∉ touched → Ex.tPending.bk[j]? = some b →
      ∃ b', t'.bk[j]? = some b' ∧ b.chain <:+ b'.chain :=
  ⟨_, rfl, keyed_touches_three Ex.hf0 Ex.tPending (.find 5 none) _ rfl⟩

end Cstl.Hash
