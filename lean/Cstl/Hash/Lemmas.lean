import Cstl.Hash.Model
/-
Helper lemmas for the hash area: the trace monad `R`, the multiset of nodes of
a table (`nodes`), bucket reads/writes.
-/
namespace Cstl.Hash

/-! ### the trace monad -/

@[simp] theorem Tr.append_calls (a b : Tr) : (a.append b).calls = a.calls ++ b.calls := rfl
@[simp] theorem Tr.append_reloc (a b : Tr) : (a.append b).reloc = a.reloc + b.reloc := rfl
@[simp] theorem Tr.append_evs (a b : Tr) : (a.append b).evs = a.evs ++ b.evs := rfl
@[simp] theorem Tr.empty_calls : ({} : Tr).calls = [] := rfl
@[simp] theorem Tr.empty_reloc : ({} : Tr).reloc = 0 := rfl
@[simp] theorem Tr.empty_evs : ({} : Tr).evs = [] := rfl

theorem Tr.ext' {a b : Tr} (h1 : a.calls = b.calls) (h2 : a.reloc = b.reloc) (h3 : a.evs = b.evs) : a = b := by
  cases a; cases b; simp_all

@[simp] theorem Tr.empty_append (a : Tr) : Tr.append {} a = a := by
  apply Tr.ext' <;> simp
@[simp] theorem Tr.append_empty (a : Tr) : Tr.append a {} = a := by
  apply Tr.ext' <;> simp

theorem bind_def {α β : Type} (m : R α) (f : α → R β) : (m >>= f) = R.bind m f := rfl
theorem pure_def {α : Type} (a : α) : (pure a : R α) = R.pure a := rfl

@[simp] theorem pure_val {α : Type} (a : α) : (pure a : R α).val = .ok a := rfl
@[simp] theorem pure_tr {α : Type} (a : α) : (pure a : R α).tr = {} := rfl
@[simp] theorem stop_val {α : Type} (e : Stop) : (stop e : R α).val = .error e := rfl
@[simp] theorem stop_tr {α : Type} (e : Stop) : (stop e : R α).tr = {} := rfl

theorem bind_ok {α β : Type} {m : R α} {f : α → R β} {a : α} (h : m.val = .ok a) :
    (m >>= f).val = (f a).val ∧ (m >>= f).tr = m.tr.append (f a).tr := by
  simp [bind_def, R.bind, h]

theorem bind_err {α β : Type} {m : R α} {f : α → R β} {e : Stop} (h : m.val = .error e) :
    (m >>= f).val = .error e ∧ (m >>= f).tr = m.tr := by
  simp [bind_def, R.bind, h]

/-- the operation returned `a` with trace `tr` -/
def R.Ret {α : Type} (m : R α) (tr : Tr) (a : α) : Prop := m.val = .ok a ∧ m.tr = tr

theorem bind_val_ok {α β : Type} {m : R α} {f : α → R β} {b : β} :
    (m >>= f).val = .ok b ↔ ∃ a, m.val = .ok a ∧ (f a).val = .ok b := by
  cases h : m.val with
  | ok a => simp [(bind_ok (f := f) h).1]
  | error e => simp [(bind_err (f := f) h).1]

theorem bind_val_err {α β : Type} {m : R α} {f : α → R β} {e : Stop} :
    (m >>= f).val = .error e ↔ m.val = .error e ∨ ∃ a, m.val = .ok a ∧ (f a).val = .error e := by
  cases h : m.val with
  | ok a => simp [(bind_ok (f := f) h).1]
  | error e' => simp [(bind_err (f := f) h).1]

/-- Partial-correctness-with-fail-stop triple: every hash function call the
operation made (also when it stops) was made with a table size `m ≥ 1`, and the
operation either returns a value satisfying `P` (together with its trace) or
stops with `abort`; it never answers `oob` / `nullDeref`. -/
def R.Spec {α : Type} (m : R α) (P : Tr → α → Prop) : Prop :=
  (∀ c ∈ m.tr.calls, 1 ≤ c.m) ∧
  match m.val with
  | .ok a => P m.tr a
  | .error e => e = .abort

theorem R.Spec.pure {α : Type} {a : α} {P : Tr → α → Prop} (h : P {} a) : (Pure.pure a : R α).Spec P :=
  ⟨by simp, h⟩

/-- an operation that returned `a` with trace `tr` -/
theorem R.Spec.mk_ok {α : Type} {tr : Tr} {a : α} {P : Tr → α → Prop} (hpos : ∀ c ∈ tr.calls, 1 ≤ c.m)
    (h : P tr a) : ({ tr := tr, val := .ok a } : R α).Spec P := ⟨hpos, h⟩

theorem R.Spec.pos {α : Type} {m : R α} {P : Tr → α → Prop} (hm : m.Spec P) : ∀ c ∈ m.tr.calls, 1 ≤ c.m := hm.1

theorem R.Spec.bind {α β : Type} {m : R α} {f : α → R β} {P : Tr → α → Prop} {Q : Tr → β → Prop}
    (hm : m.Spec P) (hf : ∀ tr a, P tr a → (f a).Spec (fun tr' b => Q (tr.append tr') b)) :
    (m >>= f).Spec Q := by
  obtain ⟨hpos, hm⟩ := hm
  unfold R.Spec
  cases h : m.val with
  | ok a =>
    rw [h] at hm
    have hb := bind_ok (f := f) h
    obtain ⟨hpos2, this⟩ := hf _ _ hm
    rw [hb.1, hb.2]
    refine ⟨?_, ?_⟩
    · intro c hc
      simp only [Tr.append_calls, List.mem_append] at hc
      rcases hc with hc | hc
      · exact hpos c hc
      · exact hpos2 c hc
    · cases h2 : (f a).val with
      | ok b => rw [h2] at this; exact this
      | error e => rw [h2] at this; exact this
  | error e =>
    rw [h] at hm
    rw [(bind_err (f := f) h).1, (bind_err (f := f) h).2]; exact ⟨hpos, hm⟩

theorem R.Spec.mono {α : Type} {m : R α} {P Q : Tr → α → Prop} (hm : m.Spec P) (h : ∀ tr a, P tr a → Q tr a) :
    m.Spec Q := by
  obtain ⟨hpos, hm⟩ := hm
  refine ⟨hpos, ?_⟩
  cases hv : m.val with
  | ok a => rw [hv] at hm; exact h _ _ hm
  | error e => rw [hv] at hm; exact hm

theorem R.Spec.of_ok {α : Type} {m : R α} {P : Tr → α → Prop} (hm : m.Spec P) {a : α} (h : m.val = .ok a) :
    P m.tr a := by
  have := hm.2; rw [h] at this; exact this

theorem R.Spec.not_fault {α : Type} {m : R α} {P : Tr → α → Prop} (hm : m.Spec P) :
    m.val ≠ .error .oob ∧ m.val ≠ .error .nullDeref := by
  have hm := hm.2
  cases hv : m.val with
  | ok a => simp
  | error e => rw [hv] at hm; subst hm; simp

theorem R.Spec.with_val {α : Type} {m : R α} {P : Tr → α → Prop} (hm : m.Spec P) :
    m.Spec (fun tr a => P tr a ∧ m.val = .ok a) := by
  obtain ⟨hpos, hm⟩ := hm
  refine ⟨hpos, ?_⟩
  cases h : m.val with
  | ok a => rw [h] at hm; exact ⟨hm, rfl⟩
  | error e => rw [h] at hm; exact hm

/-! ### fail-stop bookkeeping: a stop with `abort` happens exactly when the last
logged hash call was out of range; all earlier calls were in range -/

section failstop
variable (hf : HashId → Nat → Nat → Nat)

def Call.bad (c : Call) : Prop := c.m ≤ hf c.fn c.key c.m

/-- `abort` iff some consulted hash result was out of range -/
def R.FailStop {α : Type} (m : R α) : Prop :=
  (m.val = .error .abort ↔ ∃ c ∈ m.tr.calls, Call.bad hf c)

theorem R.FailStop.pure {α : Type} (a : α) : (Pure.pure a : R α).FailStop hf := by
  simp [R.FailStop]

theorem R.FailStop.stop_ne {α : Type} {e : Stop} (h : e ≠ .abort) : (stop e : R α).FailStop hf := by
  simp [R.FailStop, h]

theorem R.FailStop.bind {α β : Type} {m : R α} {f : α → R β}
    (hm : m.FailStop hf) (hf' : ∀ a, m.val = .ok a → (f a).FailStop hf) : (m >>= f).FailStop hf := by
  unfold R.FailStop at hm ⊢
  cases h : m.val with
  | ok a =>
    have hb := bind_ok (f := f) h
    rw [hb.1, hb.2]
    have h1 := hf' a h
    unfold R.FailStop at h1
    rw [h] at hm
    have hno : ¬ ∃ c ∈ m.tr.calls, Call.bad hf c := by
      intro hc; have := hm.2 hc; simp at this
    constructor
    · intro hab
      obtain ⟨c, hc, hbad⟩ := h1.1 hab
      exact ⟨c, by simp [hc], hbad⟩
    · rintro ⟨c, hc, hbad⟩
      simp at hc
      rcases hc with hc | hc
      · exact absurd ⟨c, hc, hbad⟩ hno
      · exact h1.2 ⟨c, hc, hbad⟩
  | error e =>
    have hb := bind_err (f := f) h
    rw [hb.1, hb.2]
    rw [h] at hm
    simpa using hm

end failstop

/-! ### nodes of a table -/

/-- all nodes of the table, bucket by bucket -/
def nodes (t : HT) : List Node := t.bk.toList.flatMap (·.chain)

/-- chain of bucket `i` (empty outside the array) -/
def chainAt (t : HT) (i : Nat) : List Node :=
  match t.bk[i]? with
  | some b => b.chain
  | none => []

theorem mem_nodes {t : HT} {n : Node} :
    n ∈ nodes t ↔ ∃ (i : Nat) (b : Bucket), t.bk[i]? = some b ∧ n ∈ b.chain := by
  unfold nodes
  simp only [List.mem_flatMap]
  constructor
  · rintro ⟨b, hb, hn⟩
    obtain ⟨i, hi, rfl⟩ := List.getElem_of_mem hb
    refine ⟨i, t.bk.toList[i], ?_, hn⟩
    simp at hi
    simp [hi]
  · rintro ⟨i, b, hb, hn⟩
    refine ⟨b, ?_, hn⟩
    have := Array.mem_of_getElem? hb
    simpa using this

theorem flatMap_set_perm {α β : Type} (f : α → List β) :
    ∀ (l : List α) (i : Nat) (a : α) (h : i < l.length),
      List.Perm ((l.set i a).flatMap f ++ f l[i]) (l.flatMap f ++ f a)
  | [], i, a, h => by simp at h
  | x :: xs, 0, a, _ => by
    simp only [List.set_cons_zero, List.flatMap_cons, List.getElem_cons_zero]
    -- f a ++ rest ++ f x ~ f x ++ rest ++ f a
    have h1 : List.Perm (f a ++ xs.flatMap f ++ f x) (f x ++ (f a ++ xs.flatMap f)) := List.perm_append_comm
    have h2 : List.Perm (f a ++ xs.flatMap f) (xs.flatMap f ++ f a) := List.perm_append_comm
    exact h1.trans (by simpa using (List.Perm.append_left (f x) h2))
  | x :: xs, i + 1, a, h => by
    simp only [List.set_cons_succ, List.flatMap_cons, List.getElem_cons_succ, List.append_assoc]
    exact List.Perm.append_left (f x) (flatMap_set_perm f xs i a (by simpa using h))

theorem nodes_wr_perm {t : HT} {i : Nat} {b b' : Bucket} (h : t.bk[i]? = some b) :
    List.Perm (nodes (wr t i b') ++ b.chain) (nodes t ++ b'.chain) := by
  have hi : i < t.bk.toList.length := by
    have := (Array.getElem?_eq_some_iff.mp h).1
    simpa using this
  have hb : t.bk.toList[i] = b := by
    have := (Array.getElem?_eq_some_iff.mp h).2
    simpa using this
  have := flatMap_set_perm (fun b : Bucket => b.chain) t.bk.toList i b' hi
  rw [hb] at this
  simpa [nodes, wr] using this

end Cstl.Hash
