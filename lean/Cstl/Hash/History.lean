import Cstl.Hash.Enum
/-
Histories: two tables (so that swap is covered) and the key fields of the
elements, driven by arbitrary lists of operations from the initial state.
The abstract specification is a pair of multisets of (key, id) nodes.
-/
namespace Cstl.Hash

variable (hf : HashId → Nat → Nat → Nat)

/-- two hash tables and the memory of the elements' key fields -/
structure Sys where
  a : HT
  b : HT
  key : Nat → Nat

def Sys.init : Sys := { a := HT.init, b := HT.init, key := fun _ => 0 }

def Sys.sel (s : Sys) (tb : Bool) : HT := if tb then s.b else s.a
def Sys.put (s : Sys) (tb : Bool) (t : HT) : Sys := if tb then { s with b := t } else { s with a := t }

/-- the operations named by properties C03 and C04 -/
inductive Op where
  | insert (tb : Bool) (k e : Nat)
  | find (tb : Bool) (k : Nat) (acc : Option (Nat → Node → Bool))
  | erase (tb : Bool) (e : Nat)
  | resize (tb : Bool) (n : Nat) (f : Option HashId) (oracle : Nat → Bool)
  | rehash (tb : Bool)
  | shrink (tb : Bool) (oracle : Nat → Bool)
  | swap
  | foreach (tb : Bool) (visit : Nat → Node → Int × Bool)
  | foreachConst (tb : Bool) (visit : Nat → Node → Int)
  | clear (tb : Bool) (withCb : Bool)

inductive Out where
  | unit
  | found (r : Option Node) (offers : List Node)
  | visited (res : Int) (seen : List Node)

/-- one operation on the system -/
def step (s : Sys) : Op → R (Sys × Out)
  | .insert tb k e => do
    let t ← insert hf (s.sel tb) k e
    pure ({ s.put tb t with key := fun x => if x = e then k else s.key x }, .unit)
  | .find tb k acc => do
    let r ← find hf (s.sel tb) k acc
    pure (s.put tb r.1, .found r.2.1 r.2.2)
  | .erase tb e => do
    let t ← erase hf (s.sel tb) (s.key e) e
    pure (s.put tb t, .unit)
  | .resize tb n f oracle => do
    let t ← resize hf oracle (s.sel tb) n f
    pure (s.put tb t, .unit)
  | .rehash tb => do
    let t ← rehash hf (s.sel tb)
    pure (s.put tb t, .unit)
  | .shrink tb oracle => do
    let t ← shrink hf oracle (s.sel tb)
    pure (s.put tb t, .unit)
  | .swap => pure ({ s with a := s.b, b := s.a }, .unit)
  | .foreach tb visit => do
    let r ← foreach hf (s.sel tb) visit
    pure (s.put tb r.1, .visited r.2.1 r.2.2)
  | .foreachConst tb visit => do
    let r ← foreachConst hf (s.sel tb) visit
    pure (s, .visited r.1 r.2)
  | .clear tb withCb => do
    let r ← clear hf (s.sel tb) withCb
    pure (s.put tb r.1, .visited 0 r.2)

/-- documented domain: keyed operations need a table that has been resized;
an element is inserted only while it is in no table -/
def Valid (s : Sys) : Op → Prop
  | .insert tb _ e => (s.sel tb).hash.isSome ∧ (∀ n ∈ nodes s.a, n.id ≠ e) ∧ (∀ n ∈ nodes s.b, n.id ≠ e)
  | .find tb _ _ => (s.sel tb).hash.isSome
  | .erase tb _ => (s.sel tb).hash.isSome
  | _ => True

def run (s : Sys) : List Op → R (Sys × List Out)
  | [] => pure (s, [])
  | op :: ops => do
    let r ← step hf s op
    let r' ← run r.1 ops
    pure (r'.1, r.2 :: r'.2)

/-- every operation of the history is inside the documented domain when it is issued -/
def ValidFrom (s : Sys) : List Op → Prop
  | [] => True
  | op :: ops => Valid s op ∧ ∀ s' out, (step hf s op).val = .ok (s', out) → ValidFrom s' ops

/-- system invariant: both tables satisfy the table invariant, the key field
of every stored element is the key of its node, no element is in both tables -/
structure SysInv (s : Sys) : Prop where
  ia : Inv hf s.a
  ib : Inv hf s.b
  ka : ∀ n ∈ nodes s.a, s.key n.id = n.key
  kb : ∀ n ∈ nodes s.b, s.key n.id = n.key
  disj : ∀ n ∈ nodes s.a, ∀ m ∈ nodes s.b, n.id ≠ m.id

/-! ### the abstract specification: two multisets of nodes -/

abbrev Abs := List Node × List Node

def Abs.sel (m : Abs) (tb : Bool) : List Node := if tb then m.2 else m.1
def Abs.other (m : Abs) (tb : Bool) : List Node := if tb then m.1 else m.2

def absOf (s : Sys) : Abs := (nodes s.a, nodes s.b)

/-- what one operation may do to the multisets and what it may answer -/
def SpecStep (m m' : Abs) : Op → Out → Prop
  | .insert tb k e, _ => List.Perm (m'.sel tb) ({ key := k, id := e } :: m.sel tb) ∧ m'.other tb = m.other tb
  | .find tb k acc, out => List.Perm (m'.sel tb) (m.sel tb) ∧ m'.other tb = m.other tb ∧
      ∃ r offers cands, out = .found r offers ∧ List.Perm cands ((m.sel tb).filter (fun n => n.key = k)) ∧
        FindOK acc cands r offers
  | .erase tb e, _ => m'.other tb = m.other tb ∧
      ((∀ n ∈ m.sel tb, n.id ≠ e) → List.Perm (m'.sel tb) (m.sel tb)) ∧
      (∀ n ∈ m.sel tb, n.id = e → List.Perm (m.sel tb) (n :: m'.sel tb))
  | .resize tb _ _ _, _ => List.Perm (m'.sel tb) (m.sel tb) ∧ m'.other tb = m.other tb
  | .rehash tb, _ => List.Perm (m'.sel tb) (m.sel tb) ∧ m'.other tb = m.other tb
  | .shrink tb _, _ => List.Perm (m'.sel tb) (m.sel tb) ∧ m'.other tb = m.other tb
  | .swap, _ => m' = (m.2, m.1)
  | .foreach tb visit, out => m'.other tb = m.other tb ∧
      ∃ L, List.Perm L (m.sel tb) ∧ out = .visited (visitList visit 0 L).2.1 (visitList visit 0 L).1 ∧
        List.Perm L ((visitList visit 0 L).2.2 ++ m'.sel tb)
  | .foreachConst tb visit, out => m' = m ∧
      ∃ L, List.Perm L (m.sel tb) ∧
        out = .visited (visitList (fun i n => (visit i n, false)) 0 L).2.1 (visitList (fun i n => (visit i n, false)) 0 L).1
  | .clear tb withCb, out => m'.other tb = m.other tb ∧ m'.sel tb = [] ∧
      ∃ seen, out = .visited 0 seen ∧ (withCb = true → List.Perm seen (m.sel tb)) ∧ (withCb = false → seen = [])

/-- a run of the specification along a history -/
def SpecRun : Abs → List Op → List Out → Abs → Prop
  | m, [], [], m' => m' = m
  | m, op :: ops, out :: outs, m' => ∃ m1, SpecStep m m1 op out ∧ SpecRun m1 ops outs m'
  | _, _, _, _ => False

end Cstl.Hash

namespace Cstl.Hash
variable (hf : HashId → Nat → Nat → Nat)

theorem absOf_sel (s : Sys) (tb : Bool) : (absOf s).sel tb = nodes (s.sel tb) := by
  cases tb <;> rfl

theorem absOf_put_sel (s : Sys) (tb : Bool) (t : HT) : (absOf (s.put tb t)).sel tb = nodes t := by
  cases tb <;> rfl

theorem absOf_put_other (s : Sys) (tb : Bool) (t : HT) : (absOf (s.put tb t)).other tb = (absOf s).other tb := by
  cases tb <;> rfl

theorem SysInv.sel {s : Sys} (si : SysInv hf s) (tb : Bool) : Inv hf (s.sel tb) := by
  cases tb
  · exact si.ia
  · exact si.ib

theorem SysInv.ksel {s : Sys} (si : SysInv hf s) (tb : Bool) : ∀ n ∈ nodes (s.sel tb), s.key n.id = n.key := by
  cases tb
  · exact si.ka
  · exact si.kb

/-- replacing one table by one whose nodes are among the old ones keeps the system invariant -/
theorem SysInv.put_sub {s : Sys} (si : SysInv hf s) (tb : Bool) {t' : HT} (inv : Inv hf t')
    (hsub : ∀ n ∈ nodes t', n ∈ nodes (s.sel tb)) : SysInv hf (s.put tb t') := by
  cases tb
  · exact ⟨inv, si.ib, fun n hn => si.ka n (hsub n hn), si.kb, fun n hn m hm => si.disj n (hsub n hn) m hm⟩
  · exact ⟨si.ia, inv, si.ka, fun n hn => si.kb n (hsub n hn), fun n hn m hm => si.disj n hn m (hsub m hm)⟩

theorem step_refines {s : Sys} (si : SysInv hf s) (op : Op) (hv : Valid s op) :
    (step hf s op).Spec (fun tr r => (SysInv hf r.1 ∧ SpecStep (absOf s) (absOf r.1) op r.2) ∧
      ∀ c ∈ tr.calls, 1 ≤ c.m) := by
  cases op with
  | insert tb k e =>
    obtain ⟨hr, hfa, hfb⟩ := hv
    have hfresh : ∀ n ∈ nodes (s.sel tb), n.id ≠ e := by cases tb <;> assumption
    refine R.Spec.bind (insert_spec hf k e (si.sel hf tb) hr hfresh) ?_
    rintro tr t' ⟨inv', hperm, _, kg⟩
    refine R.Spec.pure ⟨⟨?_, ?_⟩, by simpa using kg.pos⟩
    · cases tb
      · refine ⟨inv', si.ib, ?_, ?_, ?_⟩
        · intro n hn
          rcases List.mem_cons.mp (hperm.subset hn) with rfl | hn'
          · simp
          · have : n.id ≠ e := hfa n hn'
            simp only [this, if_false]; exact si.ka n hn'
        · intro n hn
          have : n.id ≠ e := hfb n hn
          simp only [this, if_false]; exact si.kb n hn
        · intro n hn m hm
          rcases List.mem_cons.mp (hperm.subset hn) with rfl | hn'
          · exact fun h => hfb m hm h.symm
          · exact si.disj n hn' m hm
      · refine ⟨si.ia, inv', ?_, ?_, ?_⟩
        · intro n hn
          have : n.id ≠ e := hfa n hn
          simp only [this, if_false]; exact si.ka n hn
        · intro n hn
          rcases List.mem_cons.mp (hperm.subset hn) with rfl | hn'
          · simp
          · have : n.id ≠ e := hfb n hn'
            simp only [this, if_false]; exact si.kb n hn'
        · intro n hn m hm
          rcases List.mem_cons.mp (hperm.subset hm) with rfl | hm'
          · exact hfa n hn
          · exact si.disj n hn m hm'
    · refine ⟨?_, ?_⟩
      · cases tb <;> exact hperm
      · cases tb <;> rfl
  | find tb k acc =>
    refine R.Spec.bind (find_spec hf k acc (si.sel hf tb) hv) ?_
    rintro tr ⟨t', r, offers⟩ ⟨inv', hperm, _, kg, cands, hc, hok⟩
    simp only at inv' hperm hc hok kg
    refine R.Spec.pure ⟨⟨si.put_sub hf tb inv' (fun n hn => hperm.subset hn), ?_, ?_, ?_⟩, by simpa using kg.pos⟩
    · rw [absOf_put_sel, absOf_sel]; exact hperm
    · exact absOf_put_other s tb t'
    · exact ⟨r, offers, cands, rfl, by rw [absOf_sel]; exact hc, hok⟩
  | erase tb e =>
    have hkey : ∀ n ∈ nodes (s.sel tb), n.id = e → n.key = s.key e := by
      intro n hn hid
      rw [← hid]; exact (si.ksel hf tb n hn).symm
    refine R.Spec.bind (erase_spec hf (s.key e) e (si.sel hf tb) hv hkey) ?_
    rintro tr t' ⟨inv', kg, hno, hyes⟩
    have hsub : ∀ n ∈ nodes t', n ∈ nodes (s.sel tb) := by
      intro n hn
      by_cases hex : ∃ m ∈ nodes (s.sel tb), m.id = e
      · obtain ⟨m, hm, hid⟩ := hex
        have := (hyes m hm hid).1
        exact this.symm.subset (List.mem_cons_of_mem _ hn)
      · have : ∀ m ∈ nodes (s.sel tb), m.id ≠ e := fun m hm hid => hex ⟨m, hm, hid⟩
        exact (hno this).1.subset hn
    refine R.Spec.pure ⟨⟨si.put_sub hf tb inv' hsub, absOf_put_other s tb t', ?_, ?_⟩, by simpa using kg.pos⟩
    · intro h
      rw [absOf_put_sel]; rw [absOf_sel] at h ⊢
      exact (hno h).1
    · intro n hn hid
      rw [absOf_put_sel]; rw [absOf_sel] at hn ⊢
      exact (hyes n hn hid).1
  | resize tb n f oracle =>
    refine R.Spec.bind (resize_spec hf oracle n f (si.sel hf tb)) ?_
    rintro tr t' ⟨inv', hperm, _, _, _, pos⟩
    refine R.Spec.pure ⟨⟨si.put_sub hf tb inv' (fun n hn => hperm.subset hn), ?_, absOf_put_other s tb t'⟩,
      by simpa using pos⟩
    rw [absOf_put_sel, absOf_sel]; exact hperm
  | rehash tb =>
    refine R.Spec.bind (rehash_spec hf (si.sel hf tb)) ?_
    rintro tr t' ⟨inv', _, _, _, _, hperm, _, _, _, hnop, hcalls⟩
    have pos : ∀ c ∈ tr.calls, 1 ≤ c.m := by
      intro c hc
      by_cases hp : (s.sel tb).rhHash.isSome
      · rw [hcalls c hc]; exact ((si.sel hf tb).pend hp).2.1
      · have : tr = {} := (hnop (by simpa using hp)).2
        rw [this] at hc; simp at hc
    refine R.Spec.pure ⟨⟨si.put_sub hf tb inv' (fun n hn => hperm.subset hn), ?_, absOf_put_other s tb t'⟩,
      by simpa using pos⟩
    rw [absOf_put_sel, absOf_sel]; exact hperm
  | shrink tb oracle =>
    refine R.Spec.bind (shrink_spec hf oracle (si.sel hf tb)) ?_
    rintro tr t' ⟨inv', hperm, _, _, _, _, _, pos⟩
    refine R.Spec.pure ⟨⟨si.put_sub hf tb inv' (fun n hn => hperm.subset hn), ?_, absOf_put_other s tb t'⟩,
      by simpa using pos⟩
    rw [absOf_put_sel, absOf_sel]; exact hperm
  | swap =>
    refine R.Spec.pure ⟨⟨⟨si.ib, si.ia, si.kb, si.ka, fun n hn m hm h => si.disj m hm n hn h.symm⟩, rfl⟩, by simp⟩
  | foreach tb visit =>
    refine R.Spec.bind (foreach_spec hf visit (si.sel hf tb)) ?_
    rintro tr ⟨t', r, seen⟩ ⟨L, hL, hs, hr, inv', hp, _, _, _, pos⟩
    simp only at hs hr inv' hp
    have hsub : ∀ n ∈ nodes t', n ∈ nodes (s.sel tb) := fun n hn =>
      hL.subset (hp.symm.subset (List.mem_append_right _ hn))
    refine R.Spec.pure ⟨⟨si.put_sub hf tb inv' hsub, absOf_put_other s tb t', L, ?_, ?_, ?_⟩, by simpa using pos⟩
    · rw [absOf_sel]; exact hL
    · show Out.visited r seen = _
      rw [hs, hr]
    · rw [absOf_put_sel]; exact hp
  | foreachConst tb visit =>
    refine R.Spec.bind (foreachConst_spec hf visit (si.sel hf tb)) ?_
    rintro tr ⟨r, seen⟩ ⟨hs, hr, _, pos⟩
    simp only at hs hr
    refine R.Spec.pure ⟨⟨si, rfl, nodes (s.sel tb), by rw [absOf_sel], ?_⟩, by simpa using pos⟩
    show Out.visited r seen = _
    rw [hs, hr]
  | clear tb withCb =>
    refine R.Spec.bind (clear_spec hf withCb (si.sel hf tb)) ?_
    rintro tr ⟨t', seen⟩ ⟨hs, inv', _, _, _, _, _, hn, _, pos⟩
    simp only at hs inv' hn
    refine R.Spec.pure ⟨⟨si.put_sub hf tb inv' (fun n hn' => by rw [hn] at hn'; simp at hn'),
      absOf_put_other s tb t', by rw [absOf_put_sel]; exact hn, seen, rfl, ?_, ?_⟩, by simpa using pos⟩
    · intro h; rw [hs, h, absOf_sel]; exact List.Perm.refl _
    · intro h; rw [hs, h]; rfl

theorem HT.init_inv : Inv hf HT.init := by
  refine ⟨⟨Nat.le_refl _, fun _ => ⟨rfl, rfl, rfl⟩, fun h => (by cases h), fun h => (by cases h)⟩,
    ⟨fun i b hb => (by simp [HT.init] at hb), fun _ h hh => (by cases hh), fun g h hg => (by cases hg)⟩,
    ⟨by simp [nodes, HT.init], by simp [nodes, HT.init]⟩⟩

theorem Sys.init_inv : SysInv hf Sys.init :=
  ⟨HT.init_inv hf, HT.init_inv hf, fun n hn => by simp [Sys.init, nodes, HT.init] at hn,
    fun n hn => by simp [Sys.init, nodes, HT.init] at hn, fun n hn => by simp [Sys.init, nodes, HT.init] at hn⟩

/-- History theorem: along every history inside the documented domain, for every
hash-function family `hf` (in range or not), every allocation oracle and every
visit function, the run either stops with `abort` (only possible when `hf`
leaves its range, see C17) or the invariant holds at the end and the answers
and final contents are those of the multiset specification.  It never reads
or writes outside the bucket array. -/
theorem run_refines_from : ∀ (ops : List Op) (s : Sys), SysInv hf s → ValidFrom hf s ops →
    (run hf s ops).Spec (fun tr r => (SysInv hf r.1 ∧ SpecRun (absOf s) ops r.2 (absOf r.1)) ∧
      ∀ c ∈ tr.calls, 1 ≤ c.m)
  | [], s, si, _ => R.Spec.pure ⟨⟨si, rfl⟩, by simp⟩
  | op :: ops, s, si, hv => by
    show (step hf s op >>= fun r => run hf r.1 ops >>= fun r' => pure (r'.1, r.2 :: r'.2)).Spec _
    refine R.Spec.bind (R.Spec.with_val (step_refines hf si op hv.1)) ?_
    rintro tr r ⟨⟨⟨si1, sp1⟩, pos1⟩, hval⟩
    have hv' := hv.2 r.1 r.2 hval
    refine R.Spec.bind (run_refines_from ops r.1 si1 hv') ?_
    rintro tr2 r' ⟨⟨si2, sp2⟩, pos2⟩
    refine R.Spec.pure ⟨⟨si2, absOf r.1, sp1, sp2⟩, ?_⟩
    intro c hc
    simp only [Tr.append_calls, Tr.empty_calls, List.append_nil, List.mem_append] at hc
    rcases hc with h | h
    · exact pos1 c h
    · exact pos2 c h

/-- the same from the initial state (both tables as left by `cstl_hash_init`) -/
theorem run_refines (ops : List Op) (hv : ValidFrom hf Sys.init ops) :
    (run hf Sys.init ops).Spec (fun tr r => (SysInv hf r.1 ∧ SpecRun (absOf Sys.init) ops r.2 (absOf r.1)) ∧
      ∀ c ∈ tr.calls, 1 ≤ c.m) :=
  run_refines_from hf ops Sys.init (Sys.init_inv hf) hv

end Cstl.Hash
