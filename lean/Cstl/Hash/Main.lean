import Cstl.Base.Driver
import Cstl.Hash.Model
/-
Driver for the hash area.  Two tables (0 and 1, for swap); elements are ids
1..NE, each with a key field (what `cstl_hash_insert` last wrote there, 0
initially) that `erase` reads.  Same line protocol and dump as harness/hash.c.

Hash functions by id (the model itself is parametric in them):
  0  cstl_hash_mul (the library's default; its calls are not observable on the
     C side, so they are not printed)         1  k mod m      2  (k/2) mod m
  3  constant 0        4  m      5  m+1      6  SIZE_MAX
  7/8/9  like 4/5/6 for keys with k mod 4 = 3, k mod m otherwise
-/
open Cstl Cstl.Hash

def NE : Nat := 256

def hashMul (k m : Nat) : Nat :=
  let phi : Float32 := Float32.ofBits 0x3FCF1BBD
  let M := phi * Float32.ofNat k
  ((M - M.floor) * Float32.ofNat m).toUInt64.toNat

def modm (k m : Nat) : Nat := if m = 0 then 0 else k % m

def hfImpl (f k m : Nat) : Nat :=
  match f with
  | 0 => if m = 0 then 0 else hashMul k m
  | 1 => modm k m
  | 2 => modm (k / 2) m
  | 3 => 0
  | 4 => m
  | 5 => (m + 1) % 2 ^ 64
  | 6 => 2 ^ 64 - 1
  | 7 => if k % 4 = 3 then m else modm k m
  | 8 => if k % 4 = 3 then (m + 1) % 2 ^ 64 else modm k m
  | 9 => if k % 4 = 3 then 2 ^ 64 - 1 else modm k m
  | 10 => k % 8
  | 11 => if m ≥ 4 then modm k m else (if k % 2 = 1 then m else 0)
  | 12 => if m ≤ 4 then modm k m else (if k % 4 = 3 then (m + 1) % 2 ^ 64 else modm k m)
  | 13 => if k % 4 = 3 then 2 ^ 32 + modm k m else modm k m
  | 14 => 2 ^ 63 + modm k m
  | _ => 0

structure HState where
  tabs : Array HT
  keyOf : Array Nat

def hinit : HState := { tabs := #[HT.init, HT.init], keyOf := Array.replicate (NE + 1) 0 }

def hexDigit (n : Nat) : Char := (if n < 10 then Char.ofNat (48 + n) else Char.ofNat (87 + n))

def hex8 (n : Nat) : String :=
  String.ofList ((List.range 8).reverse.map (fun i => hexDigit ((n / 16 ^ i) % 16)))

def b2s (b : Bool) : String := if b then "1" else "0"

def optId : Option Nat → String
  | none => "-"
  | some n => toString n

def dumpBucket (b : Bucket) : String :=
  b2s b.cst ++ ":" ++ ".".intercalate (b.chain.map (fun n => toString n.id ++ "/" ++ toString n.key))

def dumpTable (t : HT) : String :=
  let lim0 := if t.rhHash.isSome then max t.count t.rhCount else t.count
  let lim := min lim0 t.bk.size
  let n := t.effCount
  let ld := if n = 0 then "-" else hex8 ((Float32.ofNat t.size / Float32.ofNat n).toBits.toNat)
  "n=" ++ toString t.count ++ " cap=" ++ toString t.bk.size ++ " h=" ++ optId t.hash ++ " c=" ++ b2s t.cst
    ++ " rh=" ++ (match t.rhHash with
                  | none => "-"
                  | some g => toString g ++ ":" ++ toString t.rhCount ++ ":" ++ toString t.clean)
    ++ " sz=" ++ toString t.size ++ " ld=" ++ ld
    ++ " [" ++ ",".intercalate ((t.bk.toList.take lim).map dumpBucket) ++ "]"

def dump (s : HState) : String := " | ".intercalate (s.tabs.toList.map dumpTable)

def showTr (tr : Tr) : String :=
  let cs := tr.calls.filter (fun c => c.fn ≠ 0)
  "hc=[" ++ ",".intercalate (cs.map (fun c => toString c.fn ++ "/" ++ toString c.key ++ "/" ++ toString c.m)) ++ "]"
    ++ " rl=" ++ toString tr.reloc
    ++ " ev=[" ++ ",".intercalate (tr.evs.map (fun e => match e with
        | .realloc b ok => "R" ++ toString b ++ (if ok then "+" else "!")
        | .free => "F")) ++ "]"

def stopS : Stop → String
  | .abort => "STOP abort"
  | .oob => "STOP asan"
  | .nullDeref => "STOP segv"

def ids (ns : List Node) : String := showList (ns.map (·.id))

def parseTab (s : String) : Option Nat :=
  match s.toNat? with
  | some i => if i < 2 then some i else none
  | none => none

def parseFn (s : String) : Option (Option Nat) :=
  if s = "-" then some none else s.toNat?.map some

def parseElem (s : String) : Option Nat :=
  match s.toNat? with
  | some e => if 1 ≤ e ∧ e ≤ NE then some e else none
  | none => none

def hstep (s : HState) (ws : List String) : HState × String :=
  let bad := (s, "STOP bad-op")
  let hf := hfImpl
  let oracle (p : Bool) : Nat → Bool := fun bytes => p && decide (bytes ≤ 2 ^ 40)
  /- finish: install table `i`, print result, trace, dump -/
  let fin {α : Type} (r : R α) (k : α → HState × String) : HState × String :=
    match r.val with
    | .error e => (s, stopS e)
    | .ok a =>
      let (s', res) := k a
      (s', res ++ " " ++ showTr r.tr ++ " | " ++ dump s')
  let setT (s : HState) (i : Nat) (t : HT) : HState := { s with tabs := s.tabs.setIfInBounds i t }
  match ws with
  | ["ins", t, k, e] =>
    match parseTab t, parseNat? k, parseElem e with
    | some i, some k, some e =>
      let s1 := { s with keyOf := s.keyOf.setIfInBounds e k }
      fin (insert hf s.tabs[i]! k e) (fun t' => (setT s1 i t', "ok"))
    | _, _, _ => bad
  | ["find", t, k, a] =>
    match parseTab t, parseNat? k with
    | some i, some k =>
      let acc : Option (Option (Nat → Node → Bool)) :=
        if a = "n" then some none
        else match parseInt? a with
          | some ai => some (some (fun idx _ => (idx : Int) = ai))
          | none => none
      match acc with
      | none => bad
      | some acc =>
        fin (find hf s.tabs[i]! k acc) (fun (t', r, offers) =>
          (setT s i t', "r=" ++ (match r with | none => "0" | some n => toString n.id) ++ " of=" ++ ids offers))
    | _, _ => bad
  | ["erase", t, e] =>
    match parseTab t, parseElem e with
    | some i, some e =>
      fin (erase hf s.tabs[i]! s.keyOf[e]! e) (fun t' => (setT s i t', "ok"))
    | _, _ => bad
  | ["resize", t, n, f, p] =>
    match parseTab t, parseNat? n, parseFn f with
    | some i, some n, some f =>
      fin (resize hf (oracle (p = "1")) s.tabs[i]! n f) (fun t' => (setT s i t', "ok"))
    | _, _, _ => bad
  | ["rehash", t] =>
    match parseTab t with
    | some i => fin (rehash hf s.tabs[i]!) (fun t' => (setT s i t', "ok"))
    | _ => bad
  | ["shrink", t, p] =>
    match parseTab t with
    | some i => fin (shrink hf (oracle (p = "1")) s.tabs[i]!) (fun t' => (setT s i t', "ok"))
    | _ => bad
  | ["swap"] =>
    fin (pure () : R Unit) (fun _ => ({ s with tabs := #[s.tabs[1]!, s.tabs[0]!] }, "ok"))
  | ["foreach", t, stopAt, mask] =>
    match parseTab t, parseInt? stopAt, parseNat? mask with
    | some i, some st, some mask =>
      let visit : Nat → Node → Int × Bool := fun idx _ =>
        (if (idx : Int) = st then stopValue st else 0, mask.testBit (idx % 62))
      fin (foreach hf s.tabs[i]! visit) (fun (t', r, seen) =>
        (setT s i t', "r=" ++ toString r ++ " v=" ++ ids seen))
    | _, _, _ => bad
  | ["fconst", t, stopAt] =>
    match parseTab t, parseInt? stopAt with
    | some i, some st =>
      let visit : Nat → Node → Int := fun idx _ => if (idx : Int) = st then stopValue st else 0
      fin (foreachConst hf s.tabs[i]! visit) (fun (r, seen) =>
        (s, "r=" ++ toString r ++ " v=" ++ ids seen))
    | _, _ => bad
  | ["clear", t, cb] =>
    match parseTab t with
    | some i =>
      fin (clear hf s.tabs[i]! (cb = "1")) (fun (t', seen) => (setT s i t', "v=" ++ ids seen))
    | _ => bad
  | _ => bad

def main : IO Unit := runArea { init := hinit, step := hstep }
