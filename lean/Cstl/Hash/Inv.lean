import Cstl.Hash.Lemmas
/-
The inductive invariant of the hash table (DESIGN 4/C03) and its preservation
by the primitives of src/hash.c: bucket read/write, `__cstl_hash_get_bucket`,
chain-head insertion, `cstl_clean_bucket`, `__cstl_hash_rehash`,
`cstl_hash_get_bucket`.
-/
namespace Cstl.Hash

variable (hf : HashId → Nat → Nat → Nat)

/-- buckets below this index are in use -/
def HT.ubound (t : HT) : Nat := if t.rhHash.isSome then max t.count t.rhCount else t.count

/-- numeric part of the invariant -/
structure Geom (t : HT) : Prop where
  cnt_le : t.count ≤ t.bk.size
  unready : t.hash = none → t.count = 0 ∧ t.rhHash = none ∧ t.bk.size = 0
  ready : t.hash.isSome → 1 ≤ t.count
  pend : t.rhHash.isSome → t.hash.isSome ∧ 1 ≤ t.rhCount ∧ t.rhCount ≤ t.bk.size ∧ t.clean ≤ t.count

/-- where nodes sit and which buckets are clean:
no rehash pending — every node sits in the bucket its key hashes to, in-use
buckets are clean; rehash pending — every node is *new-placed* (bucket given by
the pending geometry) or *old-placed in a dirty bucket*; buckets below the sweep
index and buckets added by the pending geometry are clean; nothing beyond the
buckets in use. -/
structure Placed (t : HT) : Prop where
  beyond : ∀ (i : Nat) (b : Bucket), t.bk[i]? = some b → t.ubound ≤ i → b.chain = []
  settled : t.rhHash = none → ∀ h, t.hash = some h → ∀ (i : Nat) (b : Bucket), t.bk[i]? = some b →
      (i < t.count → b.cst = t.cst) ∧ ∀ n ∈ b.chain, hf h n.key t.count = i
  pending : ∀ g h, t.rhHash = some g → t.hash = some h → ∀ (i : Nat) (b : Bucket), t.bk[i]? = some b →
      ((i < t.clean ∨ (t.count ≤ i ∧ i < t.rhCount)) → b.cst = t.cst) ∧
      ∀ n ∈ b.chain, (i < t.rhCount ∧ hf g n.key t.rhCount = i)
                      ∨ (b.cst ≠ t.cst ∧ i < t.count ∧ hf h n.key t.count = i)

/-- element identities are distinct and `size` counts the nodes -/
structure Counted (t : HT) : Prop where
  nodup : ((nodes t).map (·.id)).Nodup
  size_eq : t.size = (nodes t).length

structure Inv (t : HT) : Prop extends Geom t, Placed hf t, Counted t

/-- everything but the bucket array is the same -/
def SameGeom (t t' : HT) : Prop :=
  t'.count = t.count ∧ t'.hash = t.hash ∧ t'.cst = t.cst ∧ t'.rhHash = t.rhHash ∧
  t'.rhCount = t.rhCount ∧ t'.clean = t.clean ∧ t'.size = t.size ∧ t'.bk.size = t.bk.size

theorem SameGeom.refl (t : HT) : SameGeom t t := by simp [SameGeom]

theorem SameGeom.trans {a b c : HT} (h1 : SameGeom a b) (h2 : SameGeom b c) : SameGeom a c := by
  unfold SameGeom at *
  grind

theorem SameGeom.geom {t t' : HT} (h : SameGeom t t') (g : Geom t) : Geom t' := by
  obtain ⟨h1, h2, h3, h4, h5, h6, h7, h8⟩ := h
  constructor
  · rw [h1, h8]; exact g.cnt_le
  · rw [h2, h1, h4, h8]; exact g.unready
  · rw [h2, h1]; exact g.ready
  · rw [h4, h2, h5, h8, h6, h1]; exact g.pend

theorem SameGeom.ubound {t t' : HT} (h : SameGeom t t') : t'.ubound = t.ubound := by
  obtain ⟨h1, h2, h3, h4, h5, h6, h7, h8⟩ := h
  simp [HT.ubound, h1, h4, h5]

theorem Counted.of_perm {t t' : HT} (c : Counted t) (hp : List.Perm (nodes t') (nodes t))
    (hs : t'.size = t.size) : Counted t' := by
  constructor
  · exact (hp.map _).nodup_iff.mpr c.nodup
  · rw [hs, c.size_eq, hp.length_eq]

/-! ### bucket read / write -/

theorem rd_some {t : HT} {i : Nat} {b : Bucket} (h : t.bk[i]? = some b) : rd t i = pure b := by
  simp [rd, h]

theorem rd_spec {t : HT} {i : Nat} (h : i < t.bk.size) :
    (rd t i).Spec (fun tr b => tr = {} ∧ t.bk[i]? = some b) := by
  have : t.bk[i]? = some t.bk[i] := by simp [h]
  rw [rd_some this]
  exact R.Spec.pure ⟨rfl, this⟩

theorem wr_get {t : HT} {i j : Nat} {b : Bucket} :
    (wr t i b).bk[j]? = if i = j then (if i < t.bk.size then some b else none) else t.bk[j]? := by
  simp [wr, Array.getElem?_setIfInBounds]

theorem wr_sameGeom (t : HT) (i : Nat) (b : Bucket) : SameGeom t (wr t i b) := by
  simp [SameGeom, wr]

/-! ### transfer of the placement invariant along pointwise bucket changes -/

/-- node `n` is correctly placed in bucket `j` under the geometry the table is heading for -/
def NewOK (t : HT) (j : Nat) (n : Node) : Prop :=
  (t.rhHash = none → ∀ h, t.hash = some h → j < t.count ∧ hf h n.key t.count = j) ∧
  (∀ g, t.rhHash = some g → j < t.rhCount ∧ hf g n.key t.rhCount = j)

theorem NewOK.lt_ubound {t : HT} {j : Nat} {n : Node} (_g : Geom t) (hr : t.hash.isSome) (h : NewOK hf t j n) :
    j < t.ubound := by
  unfold HT.ubound
  cases hrh : t.rhHash with
  | none =>
    obtain ⟨h', hh⟩ := Option.isSome_iff_exists.mp hr
    have := (h.1 hrh h' hh).1
    simp; exact this
  | some g' =>
    have := (h.2 g' hrh).1
    simp; omega

/-- Buckets keep their clean bit and only lose nodes or gain correctly placed
ones, or become clean holding only correctly placed nodes: placement is kept. -/
theorem Placed.transfer {t t' : HT} (sg : SameGeom t t') (gm : Geom t) (p : Placed hf t)
    (H : ∀ (j : Nat) (b' : Bucket), t'.bk[j]? = some b' → ∃ b, t.bk[j]? = some b ∧
        ((b'.cst = b.cst ∧ ∀ n ∈ b'.chain, n ∈ b.chain ∨ NewOK hf t j n) ∨
         (b'.cst = t.cst ∧ ∀ n ∈ b'.chain, NewOK hf t j n))) : Placed hf t' := by
  have hub := sg.ubound
  obtain ⟨h1, h2, h3, h4, h5, h6, h7, h8⟩ := sg
  constructor
  · intro j b' hb' hj
    obtain ⟨b, hb, hc⟩ := H j b' hb'
    rw [hub] at hj
    have hbe := p.beyond j b hb hj
    cases hch : b'.chain with
    | nil => rfl
    | cons n ns =>
      exfalso
      have hn : n ∈ b'.chain := by simp [hch]
      have hnew : NewOK hf t j n := by
        rcases hc with ⟨_, hc⟩ | ⟨_, hc⟩
        · rcases hc n hn with h | h
          · simp [hbe] at h
          · exact h
        · exact hc n hn
      have hr : t.hash.isSome := by
        cases hh : t.hash with
        | some x => simp
        | none =>
          have := (gm.unready hh).2.2
          have := (Array.getElem?_eq_some_iff.mp hb).1
          omega
      have := NewOK.lt_ubound hf gm hr hnew
      omega
  · intro hrh h hh j b' hb'
    rw [h4] at hrh; rw [h2] at hh
    obtain ⟨b, hb, hc⟩ := H j b' hb'
    have hs := p.settled hrh h hh j b hb
    rw [h1, h3]
    rcases hc with ⟨hc1, hc2⟩ | ⟨hc1, hc2⟩
    · refine ⟨fun hj => by rw [hc1]; exact hs.1 hj, fun n hn => ?_⟩
      rcases hc2 n hn with hm | hm
      · exact hs.2 n hm
      · exact (hm.1 hrh h hh).2
    · exact ⟨fun _ => hc1, fun n hn => ((hc2 n hn).1 hrh h hh).2⟩
  · intro g h hrh hh j b' hb'
    rw [h4] at hrh; rw [h2] at hh
    obtain ⟨b, hb, hc⟩ := H j b' hb'
    have hs := p.pending g h hrh hh j b hb
    rw [h1, h3, h5, h6]
    rcases hc with ⟨hc1, hc2⟩ | ⟨hc1, hc2⟩
    · refine ⟨fun hj => by rw [hc1]; exact hs.1 hj, fun n hn => ?_⟩
      rcases hc2 n hn with hm | hm
      · rw [hc1]; exact hs.2 n hm
      · exact Or.inl (hm.2 g hrh)
    · exact ⟨fun _ => hc1, fun n hn => Or.inl ((hc2 n hn).2 g hrh)⟩

/-! ### `__cstl_hash_get_bucket`, chain-head insertion, the loop of `cstl_clean_bucket` -/

theorem getBucket_spec (fn : HashId) (k : Nat) {m : Nat} (hm : 1 ≤ m) :
    (getBucket hf (some fn) k m).Spec
      (fun tr i => tr = { calls := [⟨fn, k, m⟩] } ∧ i = hf fn k m ∧ i < m) := by
  unfold getBucket
  simp only [bind_def, R.bind, logCall]
  by_cases h : m ≤ hf fn k m
  · simp [R.Spec, h, stop, hm]
  · simp only [h, if_false]
    simp [R.Spec, pure_def, R.pure, Tr.append, hm]
    omega

theorem pushHead_spec {t : HT} {j : Nat} {n : Node} (hj : j < t.bk.size) :
    (pushHead t j n).Spec (fun tr t' => tr = {} ∧ ∃ b, t.bk[j]? = some b ∧ t' = wr t j { b with chain := n :: b.chain }) := by
  have hb : t.bk[j]? = some t.bk[j] := by simp [hj]
  unfold pushHead
  rw [rd_some hb]
  simp only [bind_def, R.bind, pure_def, R.pure]
  simp [R.Spec, Tr.append]
  exact ⟨_, hb, rfl⟩

theorem reinsert_cons (t : HT) (n : Node) (ns : List Node) :
    reinsert hf t (n :: ns) =
      (getBucket hf t.rhHash n.key t.rhCount >>= fun j => pushHead t j n >>= fun t' => reinsert hf t' ns) := rfl

theorem reinsert_spec (g : HashId) : ∀ (ns : List Node) (t : HT), t.rhHash = some g → t.rhCount ≤ t.bk.size →
    1 ≤ t.rhCount →
    (reinsert hf t ns).Spec (fun tr t' =>
      SameGeom t t' ∧ (∀ n ∈ ns, hf g n.key t.rhCount < t.rhCount) ∧
      (∀ (j : Nat) (b' : Bucket), t'.bk[j]? = some b' → ∃ b, t.bk[j]? = some b ∧ b'.cst = b.cst ∧
          ∀ n, n ∈ b'.chain ↔ (n ∈ b.chain ∨ (n ∈ ns ∧ hf g n.key t.rhCount = j))) ∧
      List.Perm (nodes t') (ns ++ nodes t) ∧
      tr = { calls := ns.map (fun n => ⟨g, n.key, t.rhCount⟩) })
  | [], t, _, _, _ => by
    simp only [reinsert]
    refine R.Spec.pure ⟨SameGeom.refl t, by simp, ?_, by simp, by simp⟩
    intro j b' hb'
    exact ⟨b', hb', rfl, by simp⟩
  | n :: ns, t, hg, hle, hone => by
    rw [reinsert_cons, hg]
    refine R.Spec.bind (getBucket_spec hf g n.key hone) ?_
    rintro tr j ⟨rfl, rfl, hlt⟩
    have hj : hf g n.key t.rhCount < t.bk.size := by omega
    refine R.Spec.bind (pushHead_spec hj) ?_
    rintro tr1 t1 ⟨rfl, b, hb, rfl⟩
    have sg1 := wr_sameGeom t (hf g n.key t.rhCount) { b with chain := n :: b.chain }
    have hg1 : (wr t (hf g n.key t.rhCount) { b with chain := n :: b.chain }).rhHash = some g := by
      simpa [wr] using hg
    have hle1 : (wr t (hf g n.key t.rhCount) { b with chain := n :: b.chain }).rhCount ≤
        (wr t (hf g n.key t.rhCount) { b with chain := n :: b.chain }).bk.size := by
      simpa [wr] using hle
    refine (reinsert_spec g ns _ hg1 hle1 hone).mono ?_
    rintro tr2 t2 ⟨sg2, hr2, hp2, hperm2, rfl⟩
    have hrc : (wr t (hf g n.key t.rhCount) { b with chain := n :: b.chain }).rhCount = t.rhCount := by
      simp [wr]
    rw [hrc] at hr2 hp2
    refine ⟨sg1.trans sg2, ?_, ?_, ?_, ?_⟩
    · intro m hm
      rcases List.mem_cons.mp hm with rfl | hm
      · exact hlt
      · exact hr2 m hm
    · intro j' b' hb'
      obtain ⟨b1, hb1, hc1, hm1⟩ := hp2 j' b' hb'
      rw [wr_get] at hb1
      by_cases hjj : hf g n.key t.rhCount = j'
      · subst hjj
        simp only [if_true, hj] at hb1
        cases hb1
        refine ⟨b, hb, hc1, ?_⟩
        intro m
        rw [hm1 m]
        simp only [List.mem_cons]
        constructor
        · rintro (h | h)
          · rcases h with rfl | h
            · exact Or.inr ⟨Or.inl rfl, rfl⟩
            · exact Or.inl h
          · exact Or.inr ⟨Or.inr h.1, h.2⟩
        · rintro (h | ⟨h1, h2⟩)
          · exact Or.inl (Or.inr h)
          · rcases h1 with rfl | h1
            · exact Or.inl (Or.inl rfl)
            · exact Or.inr ⟨h1, h2⟩
      · simp only [hjj, if_false] at hb1
        refine ⟨b1, hb1, hc1, ?_⟩
        intro m
        rw [hm1 m]
        simp only [List.mem_cons]
        constructor
        · rintro (h | h)
          · exact Or.inl h
          · exact Or.inr ⟨Or.inr h.1, h.2⟩
        · rintro (h | ⟨h1, h2⟩)
          · exact Or.inl h
          · rcases h1 with rfl | h1
            · exact absurd h2 hjj
            · exact Or.inr ⟨h1, h2⟩
    · have hw := nodes_wr_perm (b' := { b with chain := n :: b.chain }) hb
      -- nodes (wr ..) ++ b.chain ~ nodes t ++ n :: b.chain
      have h3 : List.Perm (nodes (wr t (hf g n.key t.rhCount) { b with chain := n :: b.chain })) (n :: nodes t) := by
        have h4 : List.Perm (nodes t ++ n :: b.chain) ((n :: nodes t) ++ b.chain) := by
          simpa using (List.perm_middle (a := n) (l₁ := nodes t) (l₂ := b.chain))
        exact (List.perm_append_right_iff b.chain).mp (hw.trans h4)
      refine hperm2.trans ?_
      have h5 : List.Perm (ns ++ n :: nodes t) (n :: (ns ++ nodes t)) := List.perm_middle
      exact (List.Perm.append_left ns h3).trans (by simpa using h5)
    · simp [Tr.append, wr]

/-! ### `cstl_clean_bucket` -/

theorem cleanBucket_unfold (t : HT) (i : Nat) :
    cleanBucket hf t i = (rd t i >>= fun b =>
      if b.cst = t.cst then pure t
      else (reinsert hf (wr t i { b with chain := [] }) b.chain >>= fun t2 =>
        tickReloc >>= fun _ => rd t2 i >>= fun b2 => pure (wr t2 i { b2 with cst := t.cst }))) := rfl

theorem tickReloc_spec : tickReloc.Spec (fun tr _ => tr = { reloc := 1 }) := by
  simp [R.Spec, tickReloc]

/-- what one bucket cleaning does to the table -/
structure CleanStep (t t' : HT) (i : Nat) (tr : Tr) : Prop where
  inv : Inv hf t'
  same : SameGeom t t'
  perm : List.Perm (nodes t') (nodes t)
  clean_i : ∀ b', t'.bk[i]? = some b' → b'.cst = t.cst
  cst_other : ∀ (j : Nat) (b b' : Bucket), t.bk[j]? = some b → t'.bk[j]? = some b' →
      b'.cst = b.cst ∨ (j = i ∧ b'.cst = t.cst)
  reloc_le : tr.reloc ≤ 1
  evs : tr.evs = []
  calls : ∀ c ∈ tr.calls, c.fn = t.rhHash.getD 0 ∧ c.m = t.rhCount

theorem cleanBucket_spec {t : HT} (inv : Inv hf t) {g : HashId} (hg : t.rhHash = some g) {i : Nat}
    (hi : i < t.bk.size) : (cleanBucket hf t i).Spec (fun tr t' => CleanStep hf t t' i tr) := by
  rw [cleanBucket_unfold]
  refine R.Spec.bind (rd_spec hi) ?_
  rintro tr0 b ⟨rfl, hb⟩
  by_cases hc : b.cst = t.cst
  · simp only [hc, if_true]
    refine R.Spec.pure ?_
    refine ⟨inv, SameGeom.refl t, List.Perm.refl _, ?_, ?_, by simp, by simp, by simp⟩
    · intro b' hb'; rw [hb] at hb'; cases hb'; exact hc
    · intro j b1 b2 h1 h2; rw [h1] at h2; cases h2; exact Or.inl rfl
  · simp only [hc, if_false]
    have sg1 := wr_sameGeom t i { b with chain := [] }
    have hle : t.rhCount ≤ t.bk.size := (inv.pend (by simp [hg])).2.2.1
    have hg1 : (wr t i { b with chain := [] }).rhHash = some g := by simpa [wr] using hg
    have hle1 : (wr t i { b with chain := [] }).rhCount ≤ (wr t i { b with chain := [] }).bk.size := by
      simpa [wr] using hle
    refine R.Spec.bind (reinsert_spec hf g b.chain _ hg1 hle1 (inv.pend (by simp [hg])).2.1) ?_
    rintro tr1 t2 ⟨sg2, hr2, hp2, hperm2, rfl⟩
    refine R.Spec.bind tickReloc_spec ?_
    rintro tr2 _ rfl
    have hi2 : i < t2.bk.size := by
      have := sg2.2.2.2.2.2.2.2; have := sg1.2.2.2.2.2.2.2; omega
    refine R.Spec.bind (rd_spec hi2) ?_
    rintro tr3 b2 ⟨rfl, hb2⟩
    refine R.Spec.pure ?_
    have hrc : (wr t i { b with chain := [] }).rhCount = t.rhCount := by simp [wr]
    rw [hrc] at hr2 hp2
    have sg3 := wr_sameGeom t2 i { b2 with cst := t.cst }
    have sg : SameGeom t (wr t2 i { b2 with cst := t.cst }) := (sg1.trans sg2).trans sg3
    -- pointwise description of the final buckets
    have hpt : ∀ (j : Nat) (b' : Bucket), (wr t2 i { b2 with cst := t.cst }).bk[j]? = some b' →
        ∃ bj, t.bk[j]? = some bj ∧
          ((j = i ∧ b'.cst = t.cst ∧ ∀ n, n ∈ b'.chain ↔ (n ∈ b.chain ∧ hf g n.key t.rhCount = j)) ∨
           (j ≠ i ∧ b'.cst = bj.cst ∧ ∀ n, n ∈ b'.chain ↔ (n ∈ bj.chain ∨ (n ∈ b.chain ∧ hf g n.key t.rhCount = j)))) := by
      intro j b' hb'
      rw [wr_get] at hb'
      by_cases hji : i = j
      · subst hji
        simp only [if_true, hi2] at hb'
        cases hb'
        obtain ⟨b1, hb1, _, hm1⟩ := hp2 i b2 hb2
        rw [wr_get] at hb1
        simp only [if_true, hi] at hb1
        cases hb1
        refine ⟨b, hb, Or.inl ⟨rfl, rfl, ?_⟩⟩
        intro n
        simpa using hm1 n
      · simp only [hji, if_false] at hb'
        obtain ⟨b1, hb1, hc1, hm1⟩ := hp2 j b' hb'
        rw [wr_get] at hb1
        simp only [hji, if_false] at hb1
        exact ⟨b1, hb1, Or.inr ⟨fun h => hji h.symm, hc1, hm1⟩⟩
    have hnew : ∀ (j : Nat) (n : Node), n ∈ b.chain → hf g n.key t.rhCount = j → NewOK hf t j n := by
      intro j n hn hj
      refine ⟨fun h => by simp [hg] at h, fun g' hg' => ?_⟩
      rw [hg] at hg'; cases hg'
      exact ⟨by rw [← hj]; exact hr2 n hn, hj⟩
    have hplaced : Placed hf (wr t2 i { b2 with cst := t.cst }) := by
      refine Placed.transfer hf sg inv.toGeom inv.toPlaced ?_
      intro j b' hb'
      obtain ⟨bj, hbj, h⟩ := hpt j b' hb'
      refine ⟨bj, hbj, ?_⟩
      rcases h with ⟨_, hcst, hm⟩ | ⟨_, hcst, hm⟩
      · exact Or.inr ⟨hcst, fun n hn => hnew j n ((hm n).mp hn).1 ((hm n).mp hn).2⟩
      · refine Or.inl ⟨hcst, fun n hn => ?_⟩
        rcases (hm n).mp hn with h | ⟨h1, h2⟩
        · exact Or.inl h
        · exact Or.inr (hnew j n h1 h2)
    have hperm : List.Perm (nodes (wr t2 i { b2 with cst := t.cst })) (nodes t) := by
      have h1 := nodes_wr_perm (b' := { b2 with cst := t.cst }) hb2
      have h2 : List.Perm (nodes (wr t2 i { b2 with cst := t.cst })) (nodes t2) :=
        (List.perm_append_right_iff b2.chain).mp h1
      have h3 := nodes_wr_perm (b' := { b with chain := [] }) hb
      simp only [List.append_nil] at h3
      -- nodes t1 ++ b.chain ~ nodes t
      exact h2.trans (hperm2.trans (List.perm_append_comm.trans h3))
    refine ⟨⟨sg.geom inv.toGeom, hplaced, inv.toCounted.of_perm hperm sg.2.2.2.2.2.2.1⟩, sg, hperm, ?_, ?_, ?_, ?_, ?_⟩
    · intro b' hb'
      obtain ⟨bj, hbj, h⟩ := hpt i b' hb'
      rcases h with ⟨_, hcst, _⟩ | ⟨hne, _, _⟩
      · exact hcst
      · exact absurd rfl hne
    · intro j b1 b' h1 h2
      obtain ⟨bj, hbj, h⟩ := hpt j b' h2
      rw [h1] at hbj; cases hbj
      rcases h with ⟨hji, hcst, _⟩ | ⟨_, hcst, _⟩
      · exact Or.inr ⟨hji, hcst⟩
      · exact Or.inl hcst
    · simp [Tr.append]
    · simp [Tr.append]
    · intro c hc
      simp [Tr.append, wr] at hc
      obtain ⟨n, _, rfl⟩ := hc
      simp [hg]

/-! ### `__cstl_hash_rehash` -/

theorem nodes_congr {t t' : HT} (h : t'.bk = t.bk) : nodes t' = nodes t := by simp [nodes, h]

theorem Inv.setClean {t : HT} (inv : Inv hf t) (_hp : t.rhHash.isSome) {c : Nat} (hc : c ≤ t.count)
    (hcl : ∀ (i : Nat) (b : Bucket), t.bk[i]? = some b → t.clean ≤ i → i < c → b.cst = t.cst) :
    Inv hf { t with clean := c } := by
  refine ⟨⟨inv.cnt_le, inv.unready, inv.ready, fun h => ?_⟩, ⟨?_, ?_, ?_⟩, ⟨?_, ?_⟩⟩
  · have := inv.pend h; exact ⟨this.1, this.2.1, this.2.2.1, hc⟩
  · exact inv.beyond
  · exact inv.settled
  · intro g h hg hh i b hb
    have := inv.pending g h hg hh i b hb
    refine ⟨fun hi => ?_, this.2⟩
    rcases hi with hi | hi
    · by_cases h' : i < t.clean
      · exact this.1 (Or.inl h')
      · exact hcl i b hb (by omega) hi
    · exact this.1 (Or.inr hi)
  · exact inv.nodup
  · exact inv.size_eq

theorem Inv.adopt {t : HT} (inv : Inv hf t) {g : HashId} (hg : t.rhHash = some g) (hc : t.count ≤ t.clean) :
    Inv hf { t with count := t.rhCount, hash := t.rhHash, rhHash := none } := by
  have hpend := inv.pend (by simp [hg])
  obtain ⟨h, hh⟩ := Option.isSome_iff_exists.mp hpend.1
  have key : ∀ (i : Nat) (b : Bucket), t.bk[i]? = some b →
      (i < t.rhCount → b.cst = t.cst) ∧ ∀ n ∈ b.chain, i < t.rhCount ∧ hf g n.key t.rhCount = i := by
    intro i b hb
    have hp := inv.pending g h hg hh i b hb
    have hcl : i < t.count ∨ i < t.rhCount → b.cst = t.cst := by
      intro hi
      by_cases h1 : i < t.count
      · exact hp.1 (Or.inl (by omega))
      · exact hp.1 (Or.inr ⟨by omega, by omega⟩)
    refine ⟨fun hi => hcl (Or.inr hi), fun n hn => ?_⟩
    rcases hp.2 n hn with h1 | ⟨h1, h2, _⟩
    · exact h1
    · exact absurd (hcl (Or.inl h2)) h1
  refine ⟨⟨?_, ?_, ?_, ?_⟩, ⟨?_, ?_, ?_⟩, ⟨?_, ?_⟩⟩
  · exact hpend.2.2.1
  · intro h'; simp [hg] at h'
  · intro _; exact hpend.2.1
  · intro h'; simp at h'
  · intro i b hb hi
    simp only [HT.ubound, Option.isSome_none] at hi
    apply List.eq_nil_iff_forall_not_mem.mpr
    intro n hn
    have := ((key i b hb).2 n hn).1
    simp at hi
    omega
  · intro _ h' hh' i b hb
    simp only [hg] at hh'; cases hh'
    exact ⟨(key i b hb).1, fun n hn => ((key i b hb).2 n hn).2⟩
  · intro g' h' hg'; simp at hg'
  · exact inv.nodup
  · exact inv.size_eq

/-- the sweep loops only move the sweep index forward and clean buckets -/
structure SweepStep (t t' : HT) : Prop where
  inv : Inv hf t'
  bksz : t'.bk.size = t.bk.size
  count : t'.count = t.count
  hash : t'.hash = t.hash
  cst : t'.cst = t.cst
  rhHash : t'.rhHash = t.rhHash
  rhCount : t'.rhCount = t.rhCount
  size : t'.size = t.size
  clean_ge : t.clean ≤ t'.clean
  perm : List.Perm (nodes t') (nodes t)
  mono : ∀ (j : Nat) (b b' : Bucket), t.bk[j]? = some b → t'.bk[j]? = some b' → b.cst = t.cst → b'.cst = t.cst

theorem SweepStep.refl {t : HT} (inv : Inv hf t) : SweepStep hf t t :=
  ⟨inv, rfl, rfl, rfl, rfl, rfl, rfl, rfl, Nat.le_refl _, List.Perm.refl _,
    fun j b b' h1 h2 h3 => by rw [h1] at h2; cases h2; exact h3⟩

theorem SweepStep.trans {a b c : HT} (h1 : SweepStep hf a b) (h2 : SweepStep hf b c) : SweepStep hf a c := by
  refine ⟨h2.inv, by rw [h2.bksz, h1.bksz], by rw [h2.count, h1.count], by rw [h2.hash, h1.hash],
    by rw [h2.cst, h1.cst], by rw [h2.rhHash, h1.rhHash], by rw [h2.rhCount, h1.rhCount],
    by rw [h2.size, h1.size], Nat.le_trans h1.clean_ge h2.clean_ge, h2.perm.trans h1.perm, ?_⟩
  intro j ba bc ha hc hcl
  have hj : j < b.bk.size := by
    have := (Array.getElem?_eq_some_iff.mp ha).1
    rw [h1.bksz]; exact this
  have hb : b.bk[j]? = some b.bk[j] := by simp [hj]
  have := h1.mono j ba _ ha hb hcl
  have := h2.mono j _ bc hb hc (by rw [h1.cst]; exact this)
  rw [← h1.cst]; exact this

theorem skipClean_succ (t : HT) (d : Nat) :
    skipClean t (d + 1) = if t.clean < t.count then
      (rd t t.clean >>= fun b => if b.cst = t.cst then skipClean { t with clean := t.clean + 1 } d else pure t)
      else pure t := rfl

theorem skipClean_spec : ∀ (d : Nat) (t : HT), Inv hf t → t.rhHash.isSome →
    (skipClean t d).Spec (fun tr t' => tr = {} ∧ SweepStep hf t t' ∧ t'.bk = t.bk)
  | 0, t, inv, _ => R.Spec.pure ⟨rfl, SweepStep.refl hf inv, rfl⟩
  | d + 1, t, inv, hp => by
    have _ := hp
    rw [skipClean_succ]
    by_cases hc : t.clean < t.count
    · simp only [hc, if_true]
      have hi : t.clean < t.bk.size := Nat.lt_of_lt_of_le hc inv.cnt_le
      refine R.Spec.bind (rd_spec hi) ?_
      rintro tr b ⟨rfl, hb⟩
      by_cases hcl : b.cst = t.cst
      · simp only [hcl, if_true]
        have inv1 : Inv hf { t with clean := t.clean + 1 } := by
          refine inv.setClean hf hp (by omega) ?_
          intro i b' hb' h1 h2
          have : i = t.clean := by omega
          subst this
          rw [hb] at hb'; cases hb'; exact hcl
        refine (skipClean_spec d _ inv1 hp).mono ?_
        rintro tr t' ⟨rfl, st, hbk⟩
        refine ⟨by simp, ?_, hbk⟩
        have st0 : SweepStep hf t { t with clean := t.clean + 1 } :=
          ⟨inv1, rfl, rfl, rfl, rfl, rfl, rfl, rfl, by simp, List.Perm.refl _,
            fun j b b' h1 h2 h3 => by rw [h1] at h2; cases h2; exact h3⟩
        exact st0.trans hf st
      · simp only [hcl, if_false]
        exact R.Spec.pure ⟨rfl, SweepStep.refl hf inv, rfl⟩
    · simp only [hc, if_false]
      exact R.Spec.pure ⟨rfl, SweepStep.refl hf inv, rfl⟩

theorem CleanStep.toSweep {t t' : HT} {i : Nat} {tr : Tr} (c : CleanStep hf t t' i tr) : SweepStep hf t t' := by
  obtain ⟨h1, h2, h3, h4, h5, h6, h7, h8⟩ := c.same
  refine ⟨c.inv, h8, h1, h2, h3, h4, h5, h7, by omega, c.perm, ?_⟩
  intro j b b' hb hb' hcl
  rcases c.cst_other j b b' hb hb' with h | ⟨_, h⟩
  · rw [h]; exact hcl
  · exact h

theorem CleanStep.advance {t t' : HT} {tr : Tr} (c : CleanStep hf t t' t.clean tr) (hp : t.rhHash.isSome)
    (hlt : t.clean < t.count) : SweepStep hf t { t' with clean := t'.clean + 1 } := by
  have st := c.toSweep
  obtain ⟨h1, h2, h3, h4, h5, h6, h7, h8⟩ := c.same
  have inv1 : Inv hf { t' with clean := t'.clean + 1 } := by
    refine c.inv.setClean hf (by rw [h4]; exact hp) (by omega) ?_
    intro i b' hb' hi1 hi2
    have : i = t.clean := by omega
    subst this
    rw [h3]; exact c.clean_i b' hb'
  exact ⟨inv1, st.bksz, st.count, st.hash, st.cst, st.rhHash, st.rhCount, st.size,
    by simp; omega, st.perm, st.mono⟩

theorem sweep_succ (t : HT) (n : Option Nat) (d : Nat) :
    sweep hf t n (d + 1) = if t.clean < t.count ∧ n ≠ some 0 then
      (cleanBucket hf t t.clean >>= fun t' => sweep hf { t' with clean := t'.clean + 1 } (n.map (· - 1)) d)
      else pure t := rfl

/-- result of the second loop of `__cstl_hash_rehash` -/
structure SweepRes (t t' : HT) (n : Option Nat) (d : Nat) (tr : Tr) : Prop where
  step : SweepStep hf t t'
  reloc : tr.reloc ≤ t'.clean - t.clean
  evs : tr.evs = []
  bounded : ∀ k, n = some k → t'.clean ≤ t.clean + k
  progress : t.clean < t.count → n ≠ some 0 → 0 < d → t.clean + 1 ≤ t'.clean
  complete : n = none → t.count - t.clean ≤ d → t'.count ≤ t'.clean
  le_count : t.clean ≤ t.count → t'.clean ≤ t'.count
  calls : ∀ c ∈ tr.calls, c.m = t.rhCount

theorem sweep_spec : ∀ (d : Nat) (t : HT) (n : Option Nat), Inv hf t → t.rhHash.isSome →
    (sweep hf t n d).Spec (fun tr t' => SweepRes hf t t' n d tr)
  | 0, t, n, inv, _ => by
    refine R.Spec.pure ⟨SweepStep.refl hf inv, by simp, by simp, fun k _ => by omega, fun _ _ h => by omega,
      fun _ h => by omega, fun h => h, by simp⟩
  | d + 1, t, n, inv, hp => by
    rw [sweep_succ]
    by_cases hc : t.clean < t.count ∧ n ≠ some 0
    · rw [if_pos hc]
      have hi : t.clean < t.bk.size := Nat.lt_of_lt_of_le hc.1 inv.cnt_le
      obtain ⟨g, hg⟩ := Option.isSome_iff_exists.mp hp
      refine R.Spec.bind (cleanBucket_spec hf inv hg hi) ?_
      intro tr1 t1 cs
      have st1 := cs.advance hf hp hc.1
      have hp1 : ({ t1 with clean := t1.clean + 1 } : HT).rhHash.isSome := by
        have := st1.rhHash; simp at this; simp [this, hp]
      refine (sweep_spec d _ (n.map (· - 1)) st1.inv hp1).mono ?_
      intro tr2 t2 r
      have hcl1 : t1.clean = t.clean := cs.same.2.2.2.2.2.1
      have hcn1 : t1.count = t.count := cs.same.1
      have hr := r.reloc; have hs := r.step.clean_ge
      simp only at hr hs
      refine ⟨st1.trans hf r.step, ?_, ?_, ?_, ?_, ?_, ?_, ?_⟩
      · have := cs.reloc_le
        simp only [Tr.append_reloc]
        omega
      · simp [cs.evs, r.evs]
      · intro k hk
        subst hk
        have := r.bounded (k - 1) (by simp)
        simp only at this
        have hk0 : k ≠ 0 := by intro h; subst h; exact hc.2 rfl
        omega
      · intro _ _ _; omega
      · intro hn hd
        subst hn
        have := r.complete (by simp) (by simp only; omega)
        exact this
      · intro _
        have := r.le_count (by simp only; omega)
        exact this
      · intro c hc'
        simp only [Tr.append_calls, List.mem_append] at hc'
        rcases hc' with h | h
        · exact (cs.calls c h).2
        · have := r.calls c h
          simp only at this
          rw [this]; exact cs.same.2.2.2.2.1
    · rw [if_neg hc]
      refine R.Spec.pure ⟨SweepStep.refl hf inv, by simp, by simp, fun k _ => by omega, ?_, ?_, fun h => h, by simp⟩
      · intro h1 h2 _; exact absurd ⟨h1, h2⟩ hc
      · intro hn _
        subst hn
        simp at hc
        exact hc

theorem rehashN_unfold (t : HT) (n : Option Nat) :
    rehashN hf t n = (skipClean t (t.count - t.clean) >>= fun t1 =>
      sweep hf t1 n (t1.count - t1.clean) >>= fun t2 =>
        if t2.count ≤ t2.clean then pure { t2 with count := t2.rhCount, hash := t2.rhHash, rhHash := none }
        else pure t2) := rfl

/-- result of `__cstl_hash_rehash(h, n)` on a table with a pending rehash -/
structure RehashRes (t t' : HT) (n : Option Nat) (tr : Tr) : Prop where
  inv : Inv hf t'
  bksz : t'.bk.size = t.bk.size
  cst : t'.cst = t.cst
  size : t'.size = t.size
  perm : List.Perm (nodes t') (nodes t)
  evs : tr.evs = []
  reloc : ∀ k, n = some k → tr.reloc ≤ k
  calls : ∀ c ∈ tr.calls, c.m = t.rhCount
  outcome :
    (t'.rhHash = t.rhHash ∧ t'.count = t.count ∧ t'.hash = t.hash ∧ t'.rhCount = t.rhCount ∧
      t'.clean < t'.count ∧ t.clean ≤ t'.clean ∧ (n ≠ some 0 → t.clean + 1 ≤ t'.clean) ∧ n ≠ none ∧
      (∀ (j : Nat) (b b' : Bucket), t.bk[j]? = some b → t'.bk[j]? = some b' → b.cst = t.cst → b'.cst = t.cst))
    ∨ (t'.rhHash = none ∧ t'.count = t.rhCount ∧ t'.hash = t.rhHash)

theorem rehashN_spec {t : HT} (n : Option Nat) (inv : Inv hf t) (hp : t.rhHash.isSome) :
    (rehashN hf t n).Spec (fun tr t' => RehashRes hf t t' n tr) := by
  rw [rehashN_unfold]
  refine R.Spec.bind (skipClean_spec hf _ t inv hp) ?_
  rintro tr1 t1 ⟨rfl, st1, hbk1⟩
  have hp1 : t1.rhHash.isSome := by rw [st1.rhHash]; exact hp
  refine R.Spec.bind (sweep_spec hf _ t1 n st1.inv hp1) ?_
  intro tr2 t2 r
  have st := st1.trans hf r.step
  have hle1 : t1.clean ≤ t1.count := (st1.inv.pend hp1).2.2.2
  have hle2 := r.le_count hle1
  have hcalls : ∀ c ∈ (Tr.append (Tr.append {} tr2) {}).calls, c.m = t.rhCount := by
    intro c hc'
    simp only [Tr.append_calls, Tr.empty_calls, List.nil_append, List.append_nil] at hc'
    rw [r.calls c hc', st1.rhCount]
  by_cases hc : t2.count ≤ t2.clean
  · rw [if_pos hc]
    obtain ⟨g, hg⟩ := Option.isSome_iff_exists.mp (show t2.rhHash.isSome by rw [st.rhHash]; exact hp)
    refine R.Spec.pure ⟨st.inv.adopt hf hg hc, st.bksz, st.cst, st.size, ?_, by simp [r.evs], ?_, hcalls,
      Or.inr ⟨rfl, ?_, ?_⟩⟩
    · exact st.perm
    · intro k hk
      have := r.bounded k hk
      have := r.reloc
      simp; omega
    · simp [st.rhCount]
    · simp [st.rhHash]
  · rw [if_neg hc]
    refine R.Spec.pure ⟨st.inv, st.bksz, st.cst, st.size, st.perm, by simp [r.evs], ?_, hcalls,
      Or.inl ⟨st.rhHash, st.count, st.hash, st.rhCount, by omega, st.clean_ge, ?_, ?_, st.mono⟩⟩
    · intro k hk
      have := r.bounded k hk
      have := r.reloc
      simp; omega
    · intro hn
      have h1 : t1.clean < t1.count := by
        have := r.step.clean_ge; have := r.step.count; omega
      have := r.progress h1 hn (by omega)
      have := st1.clean_ge
      omega
    · intro hn
      have := r.complete hn (Nat.le_refl _)
      exact hc this

theorem rehash_spec {t : HT} (inv : Inv hf t) :
    (rehash hf t).Spec (fun tr t' => Inv hf t' ∧ t'.rhHash = none ∧ t'.bk.size = t.bk.size ∧ t'.cst = t.cst ∧
      t'.size = t.size ∧ List.Perm (nodes t') (nodes t) ∧ tr.evs = [] ∧
      t'.count = t.effCount ∧ t'.hash = t.effHash ∧ (t.rhHash = none → t' = t ∧ tr = {}) ∧
      (∀ c ∈ tr.calls, c.m = t.rhCount)) := by
  unfold rehash
  by_cases hp : t.rhHash.isSome
  · rw [if_pos hp]
    refine (rehashN_spec hf none inv hp).mono ?_
    intro tr t' r
    rcases r.outcome with h | h
    · exact absurd rfl h.2.2.2.2.2.2.2.1
    · refine ⟨r.inv, h.1, r.bksz, r.cst, r.size, r.perm, r.evs, ?_, ?_, ?_, r.calls⟩
      · simp [HT.effCount, hp, h.2.1]
      · simp [HT.effHash, hp, h.2.2]
      · intro hn; simp [hn] at hp
  · rw [if_neg hp]
    have hn : t.rhHash = none := by simpa using hp
    exact R.Spec.pure ⟨inv, hn, rfl, rfl, rfl, List.Perm.refl _, rfl, by simp [HT.effCount, hn],
      by simp [HT.effHash, hn], fun _ => ⟨rfl, rfl⟩, by simp⟩

/-! ### `cstl_hash_get_bucket` -/

theorem keyed_unfold (t : HT) (k : Nat) :
    keyed hf t k = (getBucket hf t.hash k t.count >>= fun i =>
      if t.rhHash.isSome then
        (getBucket hf t.rhHash k t.rhCount >>= fun j => cleanBucket hf t i >>= fun t1 =>
          cleanBucket hf t1 j >>= fun t2 => rehashN hf t2 (some 1) >>= fun t3 => pure (t3, j))
      else pure (t, i)) := rfl

/-- result of a keyed bucket lookup -/
structure KeyedRes (t : HT) (k : Nat) (t' : HT) (j : Nat) (tr : Tr) : Prop where
  inv : Inv hf t'
  bksz : t'.bk.size = t.bk.size
  cst : t'.cst = t.cst
  size : t'.size = t.size
  perm : List.Perm (nodes t') (nodes t)
  evs : tr.evs = []
  reloc : tr.reloc ≤ 3
  jlt : j < t'.bk.size
  target : ∀ e, NewOK hf t' j { key := k, id := e }
  allAt : ∀ (i : Nat) (b : Bucket) (n : Node), t'.bk[i]? = some b → n ∈ b.chain → n.key = k → i = j
  effCount : t'.effCount = t.effCount
  effHash : t'.effHash = t.effHash
  ready : t'.hash.isSome
  pos : ∀ c ∈ tr.calls, 1 ≤ c.m
  settled_case : t.rhHash = none → t' = t ∧ ∃ h, t.hash = some h ∧ tr = { calls := [⟨h, k, t.count⟩] }
  pending_case : t.rhHash.isSome →
    (t'.rhHash = none ∧ t'.count = t.rhCount ∧ t'.hash = t.rhHash) ∨
    (t'.rhHash = t.rhHash ∧ t'.count = t.count ∧ t'.hash = t.hash ∧ t'.rhCount = t.rhCount ∧
      t.clean + 1 ≤ t'.clean ∧ t'.clean < t'.count)

theorem keyed_spec {t : HT} (k : Nat) (inv : Inv hf t) {h : HashId} (hh : t.hash = some h) :
    (keyed hf t k).Spec (fun tr r => KeyedRes hf t k r.1 r.2 tr) := by
  rw [keyed_unfold, hh]
  refine R.Spec.bind (getBucket_spec hf h k (inv.ready (by simp [hh]))) ?_
  rintro tr0 i ⟨rfl, rfl, hilt⟩
  have hisz : hf h k t.count < t.bk.size := Nat.lt_of_lt_of_le hilt inv.cnt_le
  by_cases hp : t.rhHash.isSome
  · rw [if_pos hp]
    obtain ⟨g, hg⟩ := Option.isSome_iff_exists.mp hp
    rw [hg]
    refine R.Spec.bind (getBucket_spec hf g k (inv.pend hp).2.1) ?_
    rintro tr1 j ⟨rfl, rfl, hjlt⟩
    have hpend := inv.pend hp
    have hjsz : hf g k t.rhCount < t.bk.size := Nat.lt_of_lt_of_le hjlt hpend.2.2.1
    refine R.Spec.bind (cleanBucket_spec hf inv hg hisz) ?_
    intro tr2 t1 c1
    obtain ⟨a1, a2, a3, a4, a5, a6, a7, a8⟩ := c1.same
    have hg1 : t1.rhHash = some g := by rw [a4]; exact hg
    refine R.Spec.bind (cleanBucket_spec hf c1.inv hg1 (by rw [a8]; exact hjsz)) ?_
    intro tr3 t2 c2
    obtain ⟨b1, b2, b3, b4, b5, b6, b7, b8⟩ := c2.same
    have hp2 : t2.rhHash.isSome := by rw [b4, a4]; exact hp
    refine R.Spec.bind (rehashN_spec hf (some 1) c2.inv hp2) ?_
    intro tr4 t3 r
    refine R.Spec.pure ?_
    have hsz3 : t3.bk.size = t.bk.size := by rw [r.bksz, b8, a8]
    -- the key's old bucket stays clean
    have hold : ∀ b', t2.bk[hf h k t.count]? = some b' → b'.cst = t.cst := by
      intro b' hb'
      have hi1 : hf h k t.count < t1.bk.size := by rw [a8]; exact hisz
      have hb1 : t1.bk[hf h k t.count]? = some t1.bk[hf h k t.count] := by simp [hi1]
      have hc1 := c1.clean_i _ hb1
      rcases c2.cst_other _ _ _ hb1 hb' with h' | ⟨_, h'⟩
      · rw [h', hc1]
      · rw [h', a3]
    refine ⟨r.inv, hsz3, by rw [r.cst, b3, a3], by rw [r.size, b7, a7], (r.perm.trans c2.perm).trans c1.perm,
      ?_, ?_, by rw [hsz3]; exact hjsz, ?_, ?_, ?_, ?_, ?_, ?_, ?_, ?_⟩
    · simp [c1.evs, c2.evs, r.evs]
    · have := c1.reloc_le; have := c2.reloc_le; have := r.reloc 1 rfl
      simp; omega
    · intro e
      rcases r.outcome with o | o
      · refine ⟨fun hn => ?_, fun g' hg' => ?_⟩
        · rw [o.1, b4, a4, hg] at hn; cases hn
        · rw [o.1, b4, a4, hg] at hg'; cases hg'
          rw [o.2.2.2.1, b5, a5]; exact ⟨hjlt, rfl⟩
      · refine ⟨fun _ h' hh' => ?_, fun g' hg' => ?_⟩
        · rw [o.2.2, b4, a4, hg] at hh'; cases hh'
          rw [o.2.1, b5, a5]; exact ⟨hjlt, rfl⟩
        · rw [o.1] at hg'; cases hg'
    · intro i b n hb hn hk
      rcases r.outcome with o | o
      · have hpl := r.inv.pending g h (by rw [o.1, b4, a4, hg]) (by rw [o.2.2.1, b2, a2, hh]) i b hb
        rcases hpl.2 n hn with h1 | ⟨h1, h2, h3⟩
        · rw [o.2.2.2.1, b5, a5, hk] at h1; exact h1.2.symm
        · exfalso
          rw [o.2.1, b1, a1, hk] at h3
          subst h3
          have hi2 : hf h k t.count < t2.bk.size := by rw [b8, a8]; exact hisz
          have hb2 : t2.bk[hf h k t.count]? = some t2.bk[hf h k t.count] := by simp [hi2]
          have := o.2.2.2.2.2.2.2.2 _ _ _ hb2 hb (by rw [hold _ hb2, b3, a3])
          rw [r.cst] at h1
          exact h1 this
      · have hs := r.inv.settled o.1 g (by rw [o.2.2, b4, a4, hg]) i b hb
        have := hs.2 n hn
        rw [o.2.1, b5, a5, hk] at this
        exact this.symm
    · rcases r.outcome with o | o
      · simp [HT.effCount, o.1, b4, a4, hp, o.2.2.2.1, b5, a5]
      · simp [HT.effCount, o.1, o.2.1, b5, a5, hp]
    · rcases r.outcome with o | o
      · simp [HT.effHash, o.1, b4, a4, hp]
      · simp [HT.effHash, o.1, o.2.2, b4, a4, hp]
    · rcases r.outcome with o | o
      · rw [o.2.2.1, b2, a2, hh]; rfl
      · rw [o.2.2, b4, a4, hg]; rfl
    · intro c hc
      simp only [Tr.append_calls, Tr.empty_calls, List.append_nil, List.mem_append, List.mem_cons,
        List.not_mem_nil, or_false] at hc
      have h1 : 1 ≤ t.rhCount := hpend.2.1
      rcases hc with rfl | rfl | h' | h' | h'
      · show 1 ≤ t.count; omega
      · exact h1
      · rw [(c1.calls c h').2]; exact h1
      · rw [(c2.calls c h').2, a5]; exact h1
      · rw [r.calls c h', b5, a5]; exact h1
    · intro hn; simp [hn] at hp
    · intro _
      rcases r.outcome with o | o
      · refine Or.inr ⟨by rw [o.1, b4, a4], by rw [o.2.1, b1, a1], by rw [o.2.2.1, b2, a2],
          by rw [o.2.2.2.1, b5, a5], ?_, o.2.2.2.2.1⟩
        have := o.2.2.2.2.2.2.1 (by simp)
        show t.clean + 1 ≤ t3.clean
        omega
      · exact Or.inl ⟨o.1, by rw [o.2.1, b5, a5], by rw [o.2.2, b4, a4]⟩
  · rw [if_neg hp]
    have hn : t.rhHash = none := by simpa using hp
    refine R.Spec.pure ?_
    refine ⟨inv, rfl, rfl, rfl, List.Perm.refl _, by simp, by simp, hisz, ?_, ?_, rfl, rfl, by simp [hh], ?_, ?_, ?_⟩
    · intro e
      refine ⟨fun _ h' hh' => ?_, fun g hg => ?_⟩
      · rw [hh] at hh'; cases hh'; exact ⟨hilt, rfl⟩
      · rw [hn] at hg; cases hg
    · intro i b n hb hnn hk
      have := (inv.settled hn h hh i b hb).2 n hnn
      rw [hk] at this; exact this.symm
    · intro c hc
      simp only [Tr.append_calls, Tr.empty_calls, List.append_nil, List.mem_cons, List.not_mem_nil, or_false] at hc
      subst hc
      show 1 ≤ t.count; omega
    · intro _; exact ⟨rfl, h, hh, by simp⟩
    · intro hp'; exact absurd hp' hp

end Cstl.Hash
