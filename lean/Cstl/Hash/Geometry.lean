import Cstl.Hash.Ops
/-
Specifications of the geometry operations of src/hash.c:
`__cstl_hash_set_capacity`, `cstl_hash_resize`, `cstl_hash_shrink_to_fit`.
-/
namespace Cstl.Hash

variable (hf : HashId → Nat → Nat → Nat)

/-! ### the bucket array under realloc -/

def emptyBucket : Bucket := { chain := [], cst := false }

theorem size_resizeArr (a : Array Bucket) (sz : Nat) : (resizeArr a sz).size = sz := by
  unfold resizeArr
  by_cases h : sz ≤ a.size
  · simp [h]
  · simp [h]; omega

theorem getElem?_resizeArr (a : Array Bucket) (sz i : Nat) :
    (resizeArr a sz)[i]? = if i < sz then (if i < a.size then a[i]? else some emptyBucket) else none := by
  unfold resizeArr
  by_cases h : sz ≤ a.size
  · simp only [h, if_true]
    by_cases hi : i < sz
    · have : i < a.size := by omega
      simp [hi, this, Array.getElem?_extract]
      omega
    · simp [hi, Array.getElem?_extract]
      omega
  · simp only [h, if_false]
    by_cases hi : i < a.size
    · have : i < sz := by omega
      simp [hi, this, Array.getElem?_append]
    · by_cases hi2 : i < sz
      · have h3 : i - a.size < sz - a.size := by omega
        simp [hi, hi2, Array.getElem?_append, emptyBucket, h3]
      · have h3 : ¬ (i - a.size < sz - a.size) := by omega
        simp [hi, hi2, Array.getElem?_append, h3]

theorem flatMap_take_of_empty_beyond {α β : Type} (f : α → List β) :
    ∀ (l : List α) (sz : Nat), (∀ (i : Nat) (b : α), l[i]? = some b → sz ≤ i → f b = []) →
      (l.take sz).flatMap f = l.flatMap f
  | [], sz, _ => by simp
  | x :: xs, 0, h => by
    simp only [List.take_zero, List.flatMap_nil, List.flatMap_cons]
    have h0 := h 0 x (by simp) (Nat.le_refl _)
    have := flatMap_take_of_empty_beyond f xs 0 (fun i b hb _ => h (i + 1) b (by simpa using hb) (by omega))
    simp only [List.take_zero, List.flatMap_nil] at this
    rw [h0, ← this]; rfl
  | x :: xs, sz + 1, h => by
    simp only [List.take_succ_cons, List.flatMap_cons]
    rw [flatMap_take_of_empty_beyond f xs sz (fun i b hb hi => h (i + 1) b (by simpa using hb) (by omega))]

theorem nodes_resizeArr {t : HT} {sz : Nat}
    (h : ∀ (i : Nat) (b : Bucket), t.bk[i]? = some b → sz ≤ i → b.chain = []) :
    nodes { t with bk := resizeArr t.bk sz } = nodes t := by
  unfold nodes resizeArr
  by_cases hs : sz ≤ t.bk.size
  · simp only [hs, if_true, Array.toList_extract, List.extract_eq_take_drop, List.drop_zero, Nat.sub_zero]
    apply flatMap_take_of_empty_beyond
    intro i b hb hi
    exact h i b (by simpa using hb) hi
  · simp only [hs, if_false, Array.toList_append, Array.toList_replicate, List.flatMap_append]
    have : (List.replicate (sz - t.bk.size) ({ chain := [], cst := false } : Bucket)).flatMap (·.chain) = [] := by
      apply List.flatMap_eq_nil_iff.mpr
      intro b hb
      rw [List.eq_of_mem_replicate hb]
    rw [this, List.append_nil]

end Cstl.Hash

namespace Cstl.Hash
variable (hf : HashId → Nat → Nat → Nat)

theorem HT.count_le_ubound (t : HT) : t.count ≤ t.ubound := by
  unfold HT.ubound; split <;> omega

theorem HT.rhCount_le_ubound {t : HT} (h : t.rhHash.isSome) : t.rhCount ≤ t.ubound := by
  unfold HT.ubound; simp [h]; omega

theorem Geom.ubound_le {t : HT} (g : Geom t) : t.ubound ≤ t.bk.size := by
  unfold HT.ubound
  by_cases h : t.rhHash.isSome
  · have := g.pend h; have := g.cnt_le; simp [h]; omega
  · simp [h]; exact g.cnt_le

theorem Inv.realloc {t : HT} (inv : Inv hf t) (hr : t.hash.isSome) {sz : Nat} (hsz : t.ubound ≤ sz) :
    Inv hf { t with bk := resizeArr t.bk sz } := by
  have hub := inv.toGeom.ubound_le
  have hcu := t.count_le_ubound
  have key : ∀ (i : Nat) (b : Bucket), (resizeArr t.bk sz)[i]? = some b →
      t.bk[i]? = some b ∨ (t.ubound ≤ i ∧ b.chain = []) := by
    intro i b hb
    rw [getElem?_resizeArr] at hb
    by_cases h1 : i < sz
    · simp only [h1, if_true] at hb
      by_cases h2 : i < t.bk.size
      · simp only [h2, if_true] at hb; exact Or.inl hb
      · simp only [h2, if_false] at hb
        cases hb
        exact Or.inr ⟨by omega, rfl⟩
    · simp [h1] at hb
  refine ⟨⟨?_, ?_, inv.ready, ?_⟩, ⟨?_, ?_, ?_⟩, ⟨?_, ?_⟩⟩
  · show t.count ≤ (resizeArr t.bk sz).size
    rw [size_resizeArr]; omega
  · intro h; rw [h] at hr; cases hr
  · intro h
    have hp := inv.pend h
    have hru := HT.rhCount_le_ubound (t := t) h
    refine ⟨hp.1, hp.2.1, ?_, hp.2.2.2⟩
    show t.rhCount ≤ (resizeArr t.bk sz).size
    rw [size_resizeArr]; omega
  · intro i b hb hi
    have hi' : t.ubound ≤ i := hi
    rcases key i b hb with h | h
    · exact inv.beyond i b h hi'
    · exact h.2
  · intro hrh h hh i b hb
    rcases key i b hb with h' | ⟨h1, h2⟩
    · exact inv.settled hrh h hh i b h'
    · refine ⟨fun hi => ?_, fun n hn => by simp [h2] at hn⟩
      have hi' : i < t.count := hi
      exfalso; omega
  · intro g h hg hh i b hb
    rcases key i b hb with h' | ⟨h1, h2⟩
    · exact inv.pending g h hg hh i b h'
    · refine ⟨fun hi => ?_, fun n hn => by simp [h2] at hn⟩
      have hi' : i < t.clean ∨ (t.count ≤ i ∧ i < t.rhCount) := hi
      exfalso
      have hg' : t.rhHash = some g := hg
      have hps : t.rhHash.isSome := by rw [hg']; rfl
      have hp := inv.pend hps
      have hru := HT.rhCount_le_ubound (t := t) hps
      omega
  · rw [nodes_resizeArr (fun i b hb hi => inv.beyond i b hb (by omega))]
    exact inv.nodup
  · rw [nodes_resizeArr (fun i b hb hi => inv.beyond i b hb (by omega))]
    exact inv.size_eq

/-- does `realloc` to `sz` buckets succeed? (the byte count must be representable) -/
def allocOK (oracle : Nat → Bool) (sz : Nat) : Prop := sz ≤ (2 ^ 64 - 1) / 16 ∧ oracle (16 * sz) = true

instance (oracle : Nat → Bool) (sz : Nat) : Decidable (allocOK oracle sz) := by
  unfold allocOK; exact inferInstance

theorem setCapacity_eq (oracle : Nat → Bool) (t : HT) {sz : Nat} (hsz : 1 ≤ sz) :
    setCapacity oracle t sz =
      if (2 ^ 64 - 1) / 16 < sz then pure t
      else (logEv (.realloc (16 * sz) (oracle (16 * sz))) >>= fun _ =>
        if oracle (16 * sz) then pure { t with bk := resizeArr t.bk sz } else pure t) := by
  unfold setCapacity
  by_cases h : (2 ^ 64 - 1) / 16 < sz
  · simp [h]
  · have h0 : sz ≠ 0 := by omega
    have hm : 16 * sz % 2 ^ 64 = 16 * sz := by
      apply Nat.mod_eq_of_lt; omega
    simp only [h, if_false, h0, hm]

/-- the byte count handed to `realloc` is the true size of the array: no wrap-around -/
theorem setCapacity_spec (oracle : Nat → Bool) {t : HT} {sz : Nat} (hsz : 1 ≤ sz) :
    (setCapacity oracle t sz).Spec (fun tr t' =>
      tr.calls = [] ∧ tr.reloc = 0 ∧
      ((allocOK oracle sz ∧ t' = { t with bk := resizeArr t.bk sz } ∧ tr.evs = [.realloc (16 * sz) true]) ∨
       (¬ allocOK oracle sz ∧ t' = t))) := by
  rw [setCapacity_eq oracle t hsz]
  by_cases h : (2 ^ 64 - 1) / 16 < sz
  · rw [if_pos h]
    refine R.Spec.pure ⟨rfl, rfl, Or.inr ⟨?_, rfl⟩⟩
    unfold allocOK; omega
  · rw [if_neg h]
    have hle : sz ≤ (2 ^ 64 - 1) / 16 := by omega
    by_cases ho : oracle (16 * sz) = true
    · simp [R.Spec, bind_def, R.bind, logEv, pure_def, R.pure, Tr.append, allocOK, ho, hle]
    · simp [R.Spec, bind_def, R.bind, logEv, pure_def, R.pure, Tr.append, allocOK, ho]

end Cstl.Hash

namespace Cstl.Hash
variable (hf : HashId → Nat → Nat → Nat)

/-! ### `cstl_hash_resize` -/

theorem nodes_eq_of_chains {t t' : HT}
    (h : ∀ i : Nat, (t'.bk[i]?).map Bucket.chain = (t.bk[i]?).map Bucket.chain) : nodes t' = nodes t := by
  unfold nodes
  have hl : t'.bk.toList.map Bucket.chain = t.bk.toList.map Bucket.chain := by
    apply List.ext_getElem?
    intro i
    simpa only [List.getElem?_map, Array.getElem?_toList] using h i
  show List.flatMap Bucket.chain t'.bk.toList = List.flatMap Bucket.chain t.bk.toList
  rw [List.flatMap_def, List.flatMap_def, hl]

theorem initBuckets_succ (t : HT) (lo d : Nat) :
    initBuckets t lo (d + 1) = (rd t lo >>= fun _ =>
      initBuckets (wr t lo { chain := [], cst := t.cst }) (lo + 1) d) := rfl

theorem initBuckets_spec : ∀ (d : Nat) (t : HT) (lo : Nat), lo + d ≤ t.bk.size →
    (initBuckets t lo d).Spec (fun tr t' => tr = {} ∧ SameGeom t t' ∧
      ∀ i, t'.bk[i]? = if lo ≤ i ∧ i < lo + d then some { chain := [], cst := t.cst } else t.bk[i]?)
  | 0, t, lo, _ => by
    refine R.Spec.pure ⟨rfl, SameGeom.refl t, fun i => ?_⟩
    have : ¬ (lo ≤ i ∧ i < lo + 0) := by omega
    rw [if_neg this]
  | d + 1, t, lo, h => by
    rw [initBuckets_succ]
    refine R.Spec.bind (rd_spec (by omega)) ?_
    rintro tr b ⟨rfl, hb⟩
    have sg := wr_sameGeom t lo { chain := [], cst := t.cst }
    refine (initBuckets_spec d (wr t lo { chain := [], cst := t.cst }) (lo + 1) (by rw [sg.2.2.2.2.2.2.2]; omega)).mono ?_
    rintro tr t' ⟨rfl, sg', hbk⟩
    refine ⟨by simp, sg.trans sg', fun i => ?_⟩
    rw [hbk i, wr_get]
    have hcst : (wr t lo { chain := [], cst := t.cst }).cst = t.cst := rfl
    rw [hcst]
    by_cases h1 : lo + 1 ≤ i ∧ i < lo + 1 + d
    · have h2 : lo ≤ i ∧ i < lo + (d + 1) := by omega
      simp [h1, h2]
    · by_cases h3 : lo = i
      · subst h3
        have h2 : lo ≤ lo ∧ lo < lo + (d + 1) := by omega
        have h4 : lo < t.bk.size := by omega
        simp [h1, h2, h4]
      · have h2 : ¬ (lo ≤ i ∧ i < lo + (d + 1)) := by omega
        simp [h1, h2, h3]

theorem resizeTail_unfold (t2 : HT) (n : Nat) (f : Option HashId) :
    resizeTail t2 n f = (initBuckets { t2 with cst := !t2.cst } t2.count (n - t2.count) >>= fun t4 =>
      if t4.hash = none then
        pure { t4 with rhHash := none, rhCount := n, clean := 0, hash := some (pickHash f t4.hash), count := n }
      else pure { t4 with rhHash := some (pickHash f t4.hash), rhCount := n, clean := 0 }) := rfl

theorem resize_unfold (oracle : Nat → Bool) (t : HT) (n : Nat) (f : Option HashId) :
    resize hf oracle t n f = if n = 0 then pure t else
      (ensureCapacity oracle t n >>= fun t1 =>
        if t1.bk.size ≠ 0 ∧ n ≤ t1.bk.size ∧ (n ≠ t1.effCount ∨ (f ≠ none ∧ f ≠ t1.effHash)) then
          (rehash hf t1 >>= fun t2 => resizeTail t2 n f)
        else pure t1) := rfl

/-- the function a resize request asks for: the one given, else the one the
table was heading for, else `cstl_hash_mul` -/
def reqHash (t : HT) (f : Option HashId) : HashId := pickHash f t.effHash

theorem resizeTail_ready {t2 : HT} {n : Nat} (f : Option HashId) (inv : Inv hf t2) (hs : t2.rhHash = none)
    {h : HashId} (hh : t2.hash = some h) (hn1 : 1 ≤ n) (hn : n ≤ t2.bk.size) :
    (resizeTail t2 n f).Spec (fun tr t5 => tr = {} ∧ Inv hf t5 ∧ t5.rhHash = some (reqHash t2 f) ∧ t5.rhCount = n ∧
      t5.clean = 0 ∧ t5.count = t2.count ∧ t5.hash = t2.hash ∧ t5.cst = !t2.cst ∧ t5.size = t2.size ∧
      t5.bk.size = t2.bk.size ∧ List.Perm (nodes t5) (nodes t2)) := by
  rw [resizeTail_unfold]
  have hcnt := inv.cnt_le
  have hc1 : 1 ≤ t2.count := inv.ready (by simp [hh])
  refine R.Spec.bind (initBuckets_spec _ { t2 with cst := !t2.cst } t2.count (by simp only; omega)) ?_
  rintro tr t4 ⟨rfl, sg, hbk⟩
  obtain ⟨s1, s2, s3, s4, s5, s6, s7, s8⟩ := sg
  simp only at s1 s2 s3 s4 s5 s6 s7 s8 hbk
  have hh4 : t4.hash = some h := by rw [s2, hh]
  have hne : ¬ (t4.hash = none) := by rw [hh4]; simp
  rw [if_neg hne]
  have hg : pickHash f t4.hash = reqHash t2 f := by
    unfold reqHash HT.effHash
    rw [hh4, hs, hh]; rfl
  rw [hg]
  have hnodes : nodes t4 = nodes t2 := by
    apply nodes_eq_of_chains
    intro i
    rw [hbk i]
    by_cases hi : t2.count ≤ i ∧ i < t2.count + (n - t2.count)
    · rw [if_pos hi]
      have hlt : i < t2.bk.size := by omega
      have : t2.bk[i]? = some t2.bk[i] := by simp [hlt]
      rw [this, Option.map_some, Option.map_some, inv.beyond i _ this (by simp [HT.ubound, hs]; omega)]
    · rw [if_neg hi]
  refine R.Spec.pure ⟨by simp, ?_, rfl, rfl, rfl, s1, s2, s3, s7, s8, ?_⟩
  · -- pointwise: buckets of t4
    have key : ∀ (i : Nat) (b : Bucket), t4.bk[i]? = some b →
        (i < t2.count ∧ t2.bk[i]? = some b) ∨ (t2.count ≤ i ∧ b.chain = [] ∧ (i < n → b.cst = !t2.cst)) := by
      intro i b hb
      rw [hbk i] at hb
      by_cases hi : t2.count ≤ i ∧ i < t2.count + (n - t2.count)
      · simp only [hi, and_self, if_true] at hb
        cases hb
        exact Or.inr ⟨hi.1, rfl, fun _ => rfl⟩
      · simp only [hi, if_false] at hb
        by_cases hi2 : i < t2.count
        · exact Or.inl ⟨hi2, hb⟩
        · refine Or.inr ⟨by omega, inv.beyond i b hb (by simp [HT.ubound, hs]; omega), fun hlt => ?_⟩
          exfalso; omega
    have hperm : List.Perm (nodes t4) (nodes t2) := by
      have : nodes t4 = nodes t2 := hnodes
      rw [this]
    refine ⟨⟨?_, ?_, ?_, ?_⟩, ⟨?_, ?_, ?_⟩, ⟨?_, ?_⟩⟩
    · show t4.count ≤ t4.bk.size
      rw [s1, s8]; exact hcnt
    · intro hnone
      have : t4.hash = none := hnone
      rw [hh4] at this; cases this
    · intro _; show 1 ≤ t4.count; rw [s1]; exact hc1
    · intro _
      refine ⟨by show t4.hash.isSome; rw [hh4]; rfl, hn1, ?_, ?_⟩
      · show n ≤ t4.bk.size; rw [s8]; exact hn
      · show 0 ≤ t4.count; omega
    · intro i b hb hi
      have hb' : t4.bk[i]? = some b := hb
      rcases key i b hb' with ⟨h1, _⟩ | ⟨_, h2, _⟩
      · exfalso
        have : max t4.count n ≤ i := by simpa [HT.ubound] using hi
        rw [s1] at this; omega
      · exact h2
    · intro hnone; cases hnone
    · intro g h' hg' hh' i b hb
      have hb' : t4.bk[i]? = some b := hb
      have hh'' : t4.hash = some h' := hh'
      rw [hh4] at hh''; cases hh''
      show ((i < 0 ∨ (t4.count ≤ i ∧ i < n)) → b.cst = t4.cst) ∧
        ∀ m ∈ b.chain, (i < n ∧ hf g m.key n = i) ∨ (b.cst ≠ t4.cst ∧ i < t4.count ∧ hf h m.key t4.count = i)
      rw [s1, s3]
      rcases key i b hb' with ⟨h1, h2⟩ | ⟨h1, h2, h3⟩
      · have hset := inv.settled hs h hh i b h2
        refine ⟨fun hi => by omega, fun m hm => Or.inr ⟨?_, h1, hset.2 m hm⟩⟩
        rw [hset.1 h1]; cases t2.cst <;> simp
      · refine ⟨fun hi => ?_, fun m hm => by simp [h2] at hm⟩
        rcases hi with hi | hi
        · omega
        · exact h3 hi.2
    · show ((nodes t4).map (·.id)).Nodup
      exact (hperm.map _).nodup_iff.mpr inv.nodup
    · show t4.size = (nodes t4).length
      rw [s7, hperm.length_eq]; exact inv.size_eq
  · show List.Perm (nodes t4) (nodes t2)
    rw [hnodes]

end Cstl.Hash

namespace Cstl.Hash
variable (hf : HashId → Nat → Nat → Nat)

/-- a table that has not been resized since `cstl_hash_init` / `cstl_hash_clear`
(possibly with bucket memory already allocated inside `cstl_hash_resize`) -/
structure Fresh (t : HT) : Prop where
  hash : t.hash = none
  rh : t.rhHash = none
  count : t.count = 0
  size : t.size = 0
  empty : ∀ (i : Nat) (b : Bucket), t.bk[i]? = some b → b.chain = []

theorem nodes_nil_of_empty {t : HT} (h : ∀ (i : Nat) (b : Bucket), t.bk[i]? = some b → b.chain = []) :
    nodes t = [] := by
  apply List.eq_nil_iff_forall_not_mem.mpr
  intro n hn
  obtain ⟨i, b, hb, hnb⟩ := mem_nodes.mp hn
  rw [h i b hb] at hnb
  simp at hnb

theorem Inv.fresh {t : HT} (inv : Inv hf t) (hh : t.hash = none) : Fresh t := by
  have hu := inv.unready hh
  have he : ∀ (i : Nat) (b : Bucket), t.bk[i]? = some b → b.chain = [] := by
    intro i b hb
    have := (Array.getElem?_eq_some_iff.mp hb).1
    omega
  refine ⟨hh, hu.2.1, hu.1, ?_, he⟩
  rw [inv.size_eq, nodes_nil_of_empty he]; rfl

theorem resizeTail_fresh {t2 : HT} {n : Nat} (f : Option HashId) (fr : Fresh t2) (hn1 : 1 ≤ n)
    (hn : n ≤ t2.bk.size) :
    (resizeTail t2 n f).Spec (fun tr t5 => tr = {} ∧ Inv hf t5 ∧ t5.rhHash = none ∧
      t5.hash = some (pickHash f none) ∧ t5.count = n ∧ t5.size = 0 ∧ nodes t5 = [] ∧
      t5.bk.size = t2.bk.size ∧ t5.cst = !t2.cst) := by
  rw [resizeTail_unfold]
  refine R.Spec.bind (initBuckets_spec _ { t2 with cst := !t2.cst } t2.count (by simp only; rw [fr.count]; omega)) ?_
  rintro tr t4 ⟨rfl, sg, hbk⟩
  obtain ⟨s1, s2, s3, s4, s5, s6, s7, s8⟩ := sg
  simp only at s1 s2 s3 s4 s5 s6 s7 s8 hbk
  have hh4 : t4.hash = none := by rw [s2, fr.hash]
  rw [if_pos hh4, hh4]
  have key : ∀ (i : Nat) (b : Bucket), t4.bk[i]? = some b → b.chain = [] ∧ (i < n → b.cst = !t2.cst) := by
    intro i b hb
    rw [hbk i, fr.count] at hb
    by_cases hi : 0 ≤ i ∧ i < 0 + (n - 0)
    · rw [if_pos hi] at hb; cases hb; exact ⟨rfl, fun _ => rfl⟩
    · rw [if_neg hi] at hb
      exact ⟨fr.empty i b hb, fun h => by omega⟩
  have hnil : nodes t4 = [] := nodes_nil_of_empty (fun i b hb => (key i b hb).1)
  refine R.Spec.pure ⟨by simp, ?_, rfl, rfl, rfl, by show t4.size = 0; rw [s7, fr.size], hnil, s8, s3⟩
  refine ⟨⟨?_, ?_, ?_, ?_⟩, ⟨?_, ?_, ?_⟩, ⟨?_, ?_⟩⟩
  · show n ≤ t4.bk.size; rw [s8]; exact hn
  · intro h; cases h
  · intro _; exact hn1
  · intro h; cases h
  · intro i b hb _; exact (key i b hb).1
  · intro _ h hh i b hb
    have hb' : t4.bk[i]? = some b := hb
    refine ⟨fun hi => ?_, fun m hm => ?_⟩
    · show b.cst = t4.cst
      rw [s3]; exact (key i b hb').2 hi
    · rw [(key i b hb').1] at hm; simp at hm
  · intro g h hg; cases hg
  · show ((nodes t4).map (·.id)).Nodup
    rw [hnil]; simp
  · show t4.size = (nodes t4).length
    rw [hnil, s7, fr.size]; rfl

end Cstl.Hash

namespace Cstl.Hash
variable (hf : HashId → Nat → Nat → Nat)

/-- a resize request for `n` buckets can be satisfied: the array is large
enough already or `realloc` succeeds (representable byte count, oracle says yes) -/
def Satisfiable (oracle : Nat → Bool) (t : HT) (n : Nat) : Prop :=
  1 ≤ n ∧ (n ≤ t.bk.size ∨ allocOK oracle n)

theorem ensureCapacity_spec (oracle : Nat → Bool) (t : HT) {n : Nat} (hn : 1 ≤ n) :
    (ensureCapacity oracle t n).Spec (fun tr t1 => tr.calls = [] ∧ tr.reloc = 0 ∧
      ((t1 = t ∧ (n ≤ t.bk.size ∨ ¬ allocOK oracle n)) ∨
       (t1 = { t with bk := resizeArr t.bk n } ∧ t.bk.size < n ∧ allocOK oracle n))) := by
  unfold ensureCapacity
  by_cases h : t.bk.size < n
  · rw [if_pos h]
    refine (setCapacity_spec oracle (t := t) hn).mono ?_
    rintro tr t1 ⟨h1, h2, h3⟩
    refine ⟨h1, h2, ?_⟩
    rcases h3 with ⟨a, b, _⟩ | ⟨a, b⟩
    · exact Or.inr ⟨b, h, a⟩
    · exact Or.inl ⟨b, Or.inr a⟩
  · rw [if_neg h]
    exact R.Spec.pure ⟨rfl, rfl, Or.inl ⟨rfl, Or.inl (by omega)⟩⟩

theorem Fresh.realloc {t : HT} (fr : Fresh t) (n : Nat) : Fresh { t with bk := resizeArr t.bk n } := by
  refine ⟨fr.hash, fr.rh, fr.count, fr.size, ?_⟩
  intro i b hb
  have hb' : (resizeArr t.bk n)[i]? = some b := hb
  rw [getElem?_resizeArr] at hb'
  by_cases h1 : i < n
  · rw [if_pos h1] at hb'
    by_cases h2 : i < t.bk.size
    · rw [if_pos h2] at hb'; exact fr.empty i b hb'
    · rw [if_neg h2] at hb'; cases hb'; rfl
  · rw [if_neg h1] at hb'; cases hb'

theorem effHash_isSome {t : HT} (_g : Geom t) (hr : t.hash.isSome) : t.effHash.isSome := by
  unfold HT.effHash
  by_cases h : t.rhHash.isSome
  · simp [h]
  · simp [h, hr]

theorem resize_spec (oracle : Nat → Bool) {t : HT} (n : Nat) (f : Option HashId) (inv : Inv hf t) :
    (resize hf oracle t n f).Spec (fun tr t' =>
      Inv hf t' ∧ List.Perm (nodes t') (nodes t) ∧ t'.size = t.size ∧
      (Satisfiable oracle t n → t'.effCount = n ∧ t'.effHash = some (reqHash t f) ∧ t'.hash.isSome) ∧
      (¬ Satisfiable oracle t n → t' = t) ∧ ∀ c ∈ tr.calls, 1 ≤ c.m) := by
  rw [resize_unfold]
  by_cases hn0 : n = 0
  · rw [if_pos hn0]
    refine R.Spec.pure ⟨inv, List.Perm.refl _, rfl, fun hs => ?_, fun _ => rfl, by simp⟩
    have := hs.1; omega
  rw [if_neg hn0]
  have hn1 : 1 ≤ n := by omega
  refine R.Spec.bind (ensureCapacity_spec oracle t hn1) ?_
  rintro tr1 t1 ⟨hc1, _, ht1⟩
  -- facts about t1 common to both shapes
  have hscal : t1.count = t.count ∧ t1.hash = t.hash ∧ t1.cst = t.cst ∧ t1.rhHash = t.rhHash ∧
      t1.rhCount = t.rhCount ∧ t1.clean = t.clean ∧ t1.size = t.size := by
    rcases ht1 with ⟨rfl, _⟩ | ⟨rfl, _, _⟩ <;> exact ⟨rfl, rfl, rfl, rfl, rfl, rfl, rfl⟩
  have hsat : Satisfiable oracle t n ↔ n ≤ t1.bk.size := by
    unfold Satisfiable
    rcases ht1 with ⟨rfl, h⟩ | ⟨rfl, h1, h2⟩
    · constructor
      · rintro ⟨_, h' | h'⟩
        · exact h'
        · rcases h with h | h
          · exact h
          · exact absurd h' h
      · intro h'; exact ⟨hn1, Or.inl h'⟩
    · constructor
      · intro _; show n ≤ (resizeArr t.bk n).size; rw [size_resizeArr]; exact Nat.le_refl _
      · intro _; exact ⟨hn1, Or.inr h2⟩
  have hunsat : ¬ n ≤ t1.bk.size → t1 = t := by
    intro h
    rcases ht1 with ⟨rfl, _⟩ | ⟨rfl, _, _⟩
    · rfl
    · exfalso; apply h; show n ≤ (resizeArr t.bk n).size; rw [size_resizeArr]; exact Nat.le_refl _
  have heffc : t1.effCount = t.effCount := by
    unfold HT.effCount; rw [hscal.2.2.2.1, hscal.2.2.2.2.1, hscal.1]
  have heffh : t1.effHash = t.effHash := by
    unfold HT.effHash; rw [hscal.2.2.2.1, hscal.2.1]
  cases hh : t.hash with
  | none =>
    -- first resize
    have fr := inv.fresh hf hh
    have fr1 : Fresh t1 := by
      rcases ht1 with ⟨rfl, _⟩ | ⟨rfl, _, _⟩
      · exact fr
      · exact fr.realloc n
    have hec : t1.effCount = 0 := by unfold HT.effCount; rw [fr1.rh, fr1.count]; rfl
    by_cases hc : n ≤ t1.bk.size
    · have hcond : t1.bk.size ≠ 0 ∧ n ≤ t1.bk.size ∧ (n ≠ t1.effCount ∨ (f ≠ none ∧ f ≠ t1.effHash)) :=
        ⟨by omega, hc, Or.inl (by omega)⟩
      rw [if_pos hcond]
      have hre : rehash hf t1 = pure t1 := by unfold rehash; rw [fr1.rh]; rfl
      rw [hre]
      refine R.Spec.bind (R.Spec.pure (P := fun tr x => tr = {} ∧ x = t1) ⟨rfl, rfl⟩) ?_
      rintro tr2 t2 ⟨rfl, rfl⟩
      refine (resizeTail_fresh hf f fr1 hn1 hc).mono ?_
      rintro tr3 t5 ⟨rfl, inv5, h1, h2, h3, h4, h5, h6, h7⟩
      have hn : nodes t = [] := nodes_nil_of_empty fr.empty
      refine ⟨inv5, by rw [h5, hn], by rw [h4, fr.size], fun _ => ⟨?_, ?_, ?_⟩, fun hns => absurd (hsat.mpr hc) hns,
        by simp [hc1]⟩
      · unfold HT.effCount; rw [h1]; exact h3
      · unfold HT.effHash reqHash HT.effHash; rw [h1, h2, fr.rh, fr.hash]; rfl
      · rw [h2]; rfl
    · have hcond : ¬ (t1.bk.size ≠ 0 ∧ n ≤ t1.bk.size ∧ (n ≠ t1.effCount ∨ (f ≠ none ∧ f ≠ t1.effHash))) :=
        fun h => hc h.2.1
      rw [if_neg hcond]
      have := hunsat hc
      subst this
      exact R.Spec.pure ⟨inv, List.Perm.refl _, rfl, fun hs => absurd (hsat.mp hs) hc, fun _ => rfl, by simp [hc1]⟩
  | some h =>
    have hr : t.hash.isSome := by rw [hh]; rfl
    have inv1 : Inv hf t1 := by
      rcases ht1 with ⟨rfl, _⟩ | ⟨rfl, hlt, _⟩
      · exact inv
      · exact inv.realloc hf hr (by have := inv.toGeom.ubound_le; omega)
    have hnodes1 : nodes t1 = nodes t := by
      rcases ht1 with ⟨rfl, _⟩ | ⟨rfl, hlt, _⟩
      · rfl
      · exact nodes_resizeArr (fun i b hb hi => inv.beyond i b hb (by have := inv.toGeom.ubound_le; omega))
    have hr1 : t1.hash.isSome := by rw [hscal.2.1]; exact hr
    by_cases hcond : t1.bk.size ≠ 0 ∧ n ≤ t1.bk.size ∧ (n ≠ t1.effCount ∨ (f ≠ none ∧ f ≠ t1.effHash))
    · rw [if_pos hcond]
      refine R.Spec.bind (rehash_spec hf inv1) ?_
      rintro tr2 t2 ⟨inv2, hs2, hsz2, hcst2, hsize2, hperm2, _, hcnt2, hhash2, hnop2, hcalls2⟩
      have hpos2 : ∀ c ∈ tr2.calls, 1 ≤ c.m := by
        intro c hc
        by_cases hp1 : t1.rhHash.isSome
        · rw [hcalls2 c hc]; exact (inv1.pend hp1).2.1
        · have : tr2 = {} := (hnop2 (by simpa using hp1)).2
          rw [this] at hc; simp at hc
      obtain ⟨h', hh'⟩ := Option.isSome_iff_exists.mp (effHash_isSome inv1.toGeom hr1)
      have hh2 : t2.hash = some h' := by rw [hhash2, hh']
      refine (resizeTail_ready hf f inv2 hs2 hh2 hn1 (by rw [hsz2]; exact hcond.2.1)).mono ?_
      rintro tr3 t5 ⟨rfl, inv5, h1, h2, h3, h4, h5, h6, h7, h8, h9⟩
      refine ⟨inv5, ?_, by rw [h7, hsize2, hscal.2.2.2.2.2.2], fun _ => ⟨?_, ?_, ?_⟩,
        fun hns => absurd (hsat.mpr hcond.2.1) hns, by simpa [hc1] using hpos2⟩
      · rw [← hnodes1]; exact h9.trans hperm2
      · unfold HT.effCount; rw [h1]; exact h2
      · have : t2.effHash = t.effHash := by
          unfold HT.effHash; rw [hs2, hhash2]; simp only [Option.isSome_none, Bool.false_eq_true, if_false]
          exact heffh
        unfold HT.effHash; rw [h1]
        show some (reqHash t2 f) = some (reqHash t f)
        unfold reqHash; rw [this]
      · rw [h5, hh2]; rfl
    · rw [if_neg hcond]
      refine R.Spec.pure ⟨inv1, by rw [hnodes1], hscal.2.2.2.2.2.2, fun hs => ?_, fun hns => ?_, by simp [hc1]⟩
      · have hle := hsat.mp hs
        have h3 : ¬ (n ≠ t1.effCount ∨ (f ≠ none ∧ f ≠ t1.effHash)) := by
          intro h3; exact hcond ⟨by omega, hle, h3⟩
        have h4 : n = t1.effCount := by
          by_cases h4 : n = t1.effCount
          · exact h4
          · exact absurd (Or.inl h4) h3
        obtain ⟨h', hh'⟩ := Option.isSome_iff_exists.mp (effHash_isSome inv1.toGeom hr1)
        refine ⟨h4.symm, ?_, hr1⟩
        rw [hh']
        unfold reqHash
        rw [← heffh, hh']
        cases f with
        | none => rfl
        | some g =>
          by_cases h5 : some g = t1.effHash
          · rw [hh'] at h5; cases h5; rfl
          · exact absurd (Or.inr ⟨by simp, h5⟩) h3
      · exact hunsat (fun h => hns (hsat.mpr h))

end Cstl.Hash

namespace Cstl.Hash
variable (hf : HashId → Nat → Nat → Nat)

/-! ### `cstl_hash_shrink_to_fit` -/

theorem shrink_spec (oracle : Nat → Bool) {t : HT} (inv : Inv hf t) :
    (shrink hf oracle t).Spec (fun tr t' =>
      Inv hf t' ∧ List.Perm (nodes t') (nodes t) ∧ t'.size = t.size ∧
      t'.effCount = t.effCount ∧ t'.effHash = t.effHash ∧ t'.hash.isSome = t.hash.isSome ∧
      (t'.bk.size = t.bk.size ∨ t'.bk.size = t.effCount) ∧ ∀ c ∈ tr.calls, 1 ≤ c.m) := by
  unfold shrink
  by_cases hc : t.effCount < t.bk.size
  · rw [if_pos hc]
    have hr : t.hash.isSome := by
      cases hh : t.hash with
      | some h => rfl
      | none => have := (inv.unready hh).2.2; omega
    refine R.Spec.bind (rehash_spec hf inv) ?_
    rintro tr1 t1 ⟨inv1, hs1, hsz1, hcst1, hsize1, hperm1, _, hcnt1, hhash1, hnop1, hcalls1⟩
    have hpos1 : ∀ c ∈ tr1.calls, 1 ≤ c.m := by
      intro c hc'
      by_cases hp : t.rhHash.isSome
      · rw [hcalls1 c hc']; exact (inv.pend hp).2.1
      · have : tr1 = {} := (hnop1 (by simpa using hp)).2
        rw [this] at hc'; simp at hc'
    have hr1 : t1.hash.isSome := by rw [hhash1]; exact effHash_isSome inv.toGeom hr
    have hc1 : 1 ≤ t1.count := inv1.ready hr1
    have hec1 : t1.effCount = t.effCount := by unfold HT.effCount; rw [hs1]; exact hcnt1
    have heh1 : t1.effHash = t.effHash := by unfold HT.effHash; rw [hs1]; exact hhash1
    refine (setCapacity_spec oracle (t := t1) hc1).mono ?_
    rintro tr2 t2 ⟨hc2, _, h3⟩
    have hposf : ∀ c ∈ (tr1.append tr2).calls, 1 ≤ c.m := by simpa [hc2] using hpos1
    rcases h3 with ⟨_, rfl, _⟩ | ⟨_, rfl⟩
    · have hub : t1.ubound ≤ t1.count := by unfold HT.ubound; rw [hs1]; exact Nat.le_refl _
      refine ⟨inv1.realloc hf hr1 hub, ?_, hsize1, hec1, heh1, by show t1.hash.isSome = _; rw [hr1, hr], Or.inr ?_, hposf⟩
      · rw [nodes_resizeArr (fun i b hb hi => inv1.beyond i b hb (by omega))]; exact hperm1
      · show (resizeArr t1.bk t1.count).size = t.effCount
        rw [size_resizeArr, hcnt1]
    · exact ⟨inv1, hperm1, hsize1, hec1, heh1, by rw [hr1, hr], Or.inl hsz1, hposf⟩
  · rw [if_neg hc]
    exact R.Spec.pure ⟨inv, List.Perm.refl _, rfl, rfl, rfl, rfl, Or.inl rfl, by simp⟩

end Cstl.Hash
