import Cstl.Hash.FailStop
/-
Enumeration (`__cstl_hash_foreach` under foreach / foreach_const / clear)
refines a small list-level specification: `visitList`.
-/
namespace Cstl.Hash

variable (hf : HashId → Nat → Nat → Nat)

/-! ### the specification: visiting a list of elements, each callback may ask to
stop and may erase the element it is visiting -/

/-- (elements handed to the callback in order, result, elements that erased themselves) -/
def visitList (visit : Nat → Node → Int × Bool) : Nat → List Node → List Node × Int × List Node
  | _, [] => ([], 0, [])
  | idx, n :: ns =>
    if (visit idx n).1 ≠ 0 then ([n], (visit idx n).1, if (visit idx n).2 then [n] else [])
    else
      let r := visitList visit (idx + 1) ns
      (n :: r.1, r.2.1, if (visit idx n).2 then n :: r.2.2 else r.2.2)

theorem visitList_cons_stop {visit : Nat → Node → Int × Bool} {idx : Nat} {n : Node} {ns : List Node}
    (h : (visit idx n).1 ≠ 0) :
    visitList visit idx (n :: ns) = ([n], (visit idx n).1, if (visit idx n).2 then [n] else []) := by
  simp [visitList, h]

theorem visitList_cons_go {visit : Nat → Node → Int × Bool} {idx : Nat} {n : Node} {ns : List Node}
    (h : (visit idx n).1 = 0) :
    visitList visit idx (n :: ns) =
      (n :: (visitList visit (idx + 1) ns).1, (visitList visit (idx + 1) ns).2.1,
        if (visit idx n).2 then n :: (visitList visit (idx + 1) ns).2.2 else (visitList visit (idx + 1) ns).2.2) := by
  simp [visitList, h]

/-- the visited elements are a prefix of the list; all of it when nobody asked to stop -/
theorem visitList_prefix (visit : Nat → Node → Int × Bool) : ∀ (l : List Node) (idx : Nat),
    (visitList visit idx l).1 <+: l ∧ ((visitList visit idx l).2.1 = 0 → (visitList visit idx l).1 = l)
  | [], _ => by simp [visitList]
  | n :: ns, idx => by
    by_cases h : (visit idx n).1 = 0
    · rw [visitList_cons_go h]
      have ih := visitList_prefix visit ns (idx + 1)
      exact ⟨(List.prefix_cons_inj n).mpr ih.1, fun h0 => by rw [ih.2 h0]⟩
    · rw [visitList_cons_stop h]
      exact ⟨by simp, fun h0 => absurd h0 h⟩

/-- the erased elements are among the visited ones -/
theorem visitList_erased_sub (visit : Nat → Node → Int × Bool) : ∀ (l : List Node) (idx : Nat),
    (visitList visit idx l).2.2.Sublist (visitList visit idx l).1
  | [], _ => by simp [visitList]
  | n :: ns, idx => by
    by_cases h : (visit idx n).1 = 0
    · rw [visitList_cons_go h]
      have ih := visitList_erased_sub visit ns (idx + 1)
      by_cases he : (visit idx n).2 = true
      · simp only [he, if_true]; exact ih.cons₂ n
      · simp only [he]; exact ih.cons n
    · rw [visitList_cons_stop h]
      by_cases he : (visit idx n).2 = true
      · simp [he]
      · simp [he]

/-- results: every callback before the last returned 0; the result is the last
callback's value when it is non-zero, and 0 when the whole list was visited -/
theorem visitList_results (visit : Nat → Node → Int × Bool) : ∀ (l : List Node) (idx : Nat),
    (∀ (i : Nat) (n : Node), (visitList visit idx l).1[i]? = some n → i + 1 < (visitList visit idx l).1.length →
        (visit (idx + i) n).1 = 0) ∧
    ((visitList visit idx l).2.1 ≠ 0 → ∃ n, (visitList visit idx l).1.getLast? = some n ∧
        (visit (idx + (visitList visit idx l).1.length - 1) n).1 = (visitList visit idx l).2.1) ∧
    ((visitList visit idx l).2.1 = 0 → ∀ (i : Nat) (n : Node), (visitList visit idx l).1[i]? = some n →
        (visit (idx + i) n).1 = 0)
  | [], _ => by simp [visitList]
  | n :: ns, idx => by
    by_cases h : (visit idx n).1 = 0
    · rw [visitList_cons_go h]
      obtain ⟨ih1, ih2, ih3⟩ := visitList_results visit ns (idx + 1)
      refine ⟨?_, ?_, ?_⟩
      · intro i m hm hi
        cases i with
        | zero => simp at hm; subst hm; exact h
        | succ i =>
          simp at hm hi
          have := ih1 i m hm (by omega)
          rw [show idx + (i + 1) = idx + 1 + i by omega]; exact this
      · intro hr
        obtain ⟨m, hm1, hm2⟩ := ih2 hr
        have hne : (visitList visit (idx + 1) ns).1 ≠ [] := by intro h'; rw [h'] at hm1; simp at hm1
        refine ⟨m, by rw [List.getLast?_cons_of_ne_nil hne]; exact hm1, ?_⟩
        simp only [List.length_cons]
        rw [show idx + ((visitList visit (idx + 1) ns).1.length + 1) - 1 = idx + 1 + (visitList visit (idx + 1) ns).1.length - 1 by omega]
        exact hm2
      · intro hr i m hm
        cases i with
        | zero => simp at hm; subst hm; exact h
        | succ i =>
          simp at hm
          have := ih3 hr i m hm
          rw [show idx + (i + 1) = idx + 1 + i by omega]; exact this
    · rw [visitList_cons_stop h]
      refine ⟨?_, ?_, ?_⟩
      · intro i m hm hi; simp at hi
      · intro _; exact ⟨n, by simp, by simp⟩
      · intro hr; exact absurd hr h

theorem visitList_append (visit : Nat → Node → Int × Bool) : ∀ (l1 l2 : List Node) (idx : Nat),
    visitList visit idx (l1 ++ l2) =
      if (visitList visit idx l1).2.1 ≠ 0 then visitList visit idx l1
      else ((visitList visit idx l1).1 ++ (visitList visit (idx + l1.length) l2).1,
            (visitList visit (idx + l1.length) l2).2.1,
            (visitList visit idx l1).2.2 ++ (visitList visit (idx + l1.length) l2).2.2)
  | [], l2, idx => by simp [visitList]
  | n :: ns, l2, idx => by
    by_cases h : (visit idx n).1 = 0
    · have ih := visitList_append visit ns l2 (idx + 1)
      rw [List.cons_append, visitList_cons_go h, visitList_cons_go h, ih]
      have hidx : idx + 1 + ns.length = idx + (n :: ns).length := by simp; omega
      rw [hidx]
      by_cases hr : (visitList visit (idx + 1) ns).2.1 ≠ 0
      · simp only [hr, if_true, ne_eq, not_false_eq_true]
      · simp only [hr, if_false, ne_eq]
        by_cases he : (visit idx n).2 = true
        · simp [he]
        · simp [he]
    · rw [List.cons_append, visitList_cons_stop h, visitList_cons_stop h]
      simp [h]

end Cstl.Hash

namespace Cstl.Hash
variable (hf : HashId → Nat → Nat → Nat)

/-! ### erase on a table with no rehash pending touches one bucket only -/

theorem keyed_settled_eq {t : HT} {h : HashId} {k : Nat} (hs : t.rhHash = none) (hh : t.hash = some h)
    (hlt : hf h k t.count < t.count) :
    keyed hf t k = { tr := { calls := [⟨h, k, t.count⟩] }, val := .ok (t, hf h k t.count) } := by
  rw [keyed_unfold, hh, hs]
  have hn : ¬ t.count ≤ hf h k t.count := by omega
  simp [getBucket, bind_def, R.bind, logCall, hn, pure_def, R.pure, Tr.append]

theorem erase_settled_eq {t : HT} {h : HashId} {k e : Nat} {b : Bucket} (hs : t.rhHash = none)
    (hh : t.hash = some h) (hlt : hf h k t.count < t.count) (hb : t.bk[hf h k t.count]? = some b) :
    erase hf t k e = { tr := { calls := [⟨h, k, t.count⟩] },
                        val := .ok (match unlink e b.chain with
                          | some c => { wr t (hf h k t.count) { b with chain := c } with size := t.size - 1 }
                          | none => t) } := by
  rw [erase_unfold, keyed_settled_eq hf hs hh hlt]
  simp only [bind_def, R.bind, rd_some hb, pure_def, R.pure]
  cases unlink e b.chain <;> simp [Tr.append, pure_def, R.pure]

end Cstl.Hash

namespace Cstl.Hash
variable (hf : HashId → Nat → Nat → Nat)

/-! ### one callback -/

/-- the fields the enumeration bound depends on do not change during a walk -/
def WGeom (t t' : HT) : Prop :=
  t'.rhHash = t.rhHash ∧ t'.hash = t.hash ∧ t'.count = t.count ∧ t'.rhCount = t.rhCount ∧
  t'.bk.size = t.bk.size ∧ t'.cst = t.cst

theorem WGeom.refl (t : HT) : WGeom t t := ⟨rfl, rfl, rfl, rfl, rfl, rfl⟩

theorem WGeom.trans {a b c : HT} (h1 : WGeom a b) (h2 : WGeom b c) : WGeom a c := by
  obtain ⟨a1, a2, a3, a4, a5, a6⟩ := h1
  obtain ⟨b1, b2, b3, b4, b5, b6⟩ := h2
  exact ⟨by rw [b1, a1], by rw [b2, a2], by rw [b3, a3], by rw [b4, a4], by rw [b5, a5], by rw [b6, a6]⟩

theorem WGeom.bound {t t' : HT} (h : WGeom t t') : t'.bound = t.bound := by
  unfold HT.bound; rw [h.1, h.2.2.1, h.2.2.2.1]

theorem bucket_of_mem_nodes_settled {t : HT} (inv : Inv hf t) {h : HashId} (hs : t.rhHash = none)
    (hh : t.hash = some h) {n : Node} (hn : n ∈ nodes t) :
    hf h n.key t.count < t.count ∧ ∃ b, t.bk[hf h n.key t.count]? = some b ∧ n ∈ b.chain := by
  obtain ⟨i, b, hb, hnb⟩ := mem_nodes.mp hn
  have hset := (inv.settled hs h hh i b hb).2 n hnb
  have hlt : i < t.count := by
    by_cases hlt : i < t.count
    · exact hlt
    · have := inv.beyond i b hb (by simp [HT.ubound, hs]; omega)
      rw [this] at hnb; simp at hnb
  rw [hset]
  exact ⟨hlt, b, hb, hnb⟩

/-- the visited element erases itself (no rehash pending): exactly its bucket
changes, exactly that element leaves the table -/
theorem visitErase_step {t : HT} (inv : Inv hf t) {h : HashId} (hs : t.rhHash = none) (hh : t.hash = some h)
    {n : Node} (hn : n ∈ nodes t) :
    ∃ t', visitErase hf t true n = { tr := { calls := [⟨h, n.key, t.count⟩] }, val := .ok t' } ∧
      Inv hf t' ∧ WGeom t t' ∧ (∀ j, j ≠ hf h n.key t.count → t'.bk[j]? = t.bk[j]?) ∧
      List.Perm (nodes t) (n :: nodes t') := by
  obtain ⟨hlt, b, hb, hnb⟩ := bucket_of_mem_nodes_settled hf inv hs hh hn
  have heq := erase_settled_eq hf (e := n.id) hs hh hlt hb
  have hr : t.hash.isSome := by rw [hh]; rfl
  have hkey : ∀ m ∈ nodes t, m.id = n.id → m.key = n.key := by
    intro m hm hid
    rw [eq_of_nodup_map_id inv.nodup hm hn hid]
  have hspec := erase_spec hf n.key n.id inv hr hkey
  refine ⟨_, by unfold visitErase; rw [if_pos rfl]; exact heq, ?_⟩
  have hval : (erase hf t n.key n.id).val = .ok (match unlink n.id b.chain with
      | some c => { wr t (hf h n.key t.count) { b with chain := c } with size := t.size - 1 }
      | none => t) := by rw [heq]
  obtain ⟨inv', g, _, hyes⟩ := hspec.of_ok hval
  obtain ⟨g1, g2, g3, _⟩ := g.settled_case hs
  refine ⟨inv', ⟨by rw [g1, hs], g3, g2, ?_, g.bksz, g.cst⟩, ?_, (hyes n hn rfl).1⟩
  · cases unlink n.id b.chain <;> rfl
  · intro j hj
    cases unlink n.id b.chain with
    | none => rfl
    | some c =>
      show (wr t (hf h n.key t.count) { b with chain := c }).bk[j]? = t.bk[j]?
      rw [wr_get, if_neg (fun h' => hj h'.symm)]

/-- which callbacks may erase: none, or no rehash is pending and every element
still to be visited in this bucket hashes to this bucket -/
def Mode (visit : Nat → Node → Int × Bool) (t : HT) (i : Nat) (ns : List Node) : Prop :=
  (∀ idx n, (visit idx n).2 = false) ∨
  (t.rhHash = none ∧ ∃ h, t.hash = some h ∧ ∀ m ∈ ns, hf h m.key t.count = i)

/-! ### one bucket -/

theorem bucketWalk_spec (visit : Nat → Node → Int × Bool) (i : Nat) : ∀ (ns : List Node) (w : Walk),
    Inv hf w.t → (∀ m ∈ ns, m ∈ nodes w.t) → (ns.map (·.id)).Nodup → Mode hf visit w.t i ns →
    (bucketWalk hf visit w ns).Spec (fun tr w' =>
      Inv hf w'.t ∧ WGeom w.t w'.t ∧ (∀ j, j ≠ i → w'.t.bk[j]? = w.t.bk[j]?) ∧
      w'.seen = (visitList visit w.idx ns).1.reverse ++ w.seen ∧
      w'.idx = w.idx + (visitList visit w.idx ns).1.length ∧
      (ns ≠ [] → w'.res = (visitList visit w.idx ns).2.1) ∧ (ns = [] → w' = w) ∧
      List.Perm (nodes w.t) ((visitList visit w.idx ns).2.2 ++ nodes w'.t) ∧ tr.evs = [] ∧
      ∀ c ∈ tr.calls, 1 ≤ c.m)
  | [], w, inv, _, _, _ => by
    refine R.Spec.pure ⟨inv, WGeom.refl _, fun _ _ => rfl, by simp [visitList], by simp [visitList],
      fun h => absurd rfl h, fun _ => rfl, by simp [visitList], rfl, by simp⟩
  | n :: ns, w, inv, hmem, hnd, hmode => by
    rw [bucketWalk_cons]
    have hn : n ∈ nodes w.t := hmem n (by simp)
    simp only [List.map_cons, List.nodup_cons, List.mem_map, not_exists, not_and] at hnd
    -- the callback's effect on the table
    have hstep : ∃ t1 tr1, visitErase hf w.t (visit w.idx n).2 n = { tr := tr1, val := .ok t1 } ∧
        (tr1.evs = [] ∧ ∀ c ∈ tr1.calls, 1 ≤ c.m) ∧
        Inv hf t1 ∧ WGeom w.t t1 ∧ (∀ j, j ≠ i → t1.bk[j]? = w.t.bk[j]?) ∧
        List.Perm (nodes w.t) ((if (visit w.idx n).2 then [n] else []) ++ nodes t1) := by
      by_cases he : (visit w.idx n).2 = true
      · rcases hmode with hm | ⟨hs, h, hh, hk⟩
        · rw [hm] at he; cases he
        · obtain ⟨t1, e1, i1, g1, o1, p1⟩ := visitErase_step hf inv hs hh hn
          have hc1 : 1 ≤ w.t.count := inv.ready (by rw [hh]; rfl)
          refine ⟨t1, _, by rw [he]; exact e1, ⟨rfl, by simpa using hc1⟩, i1, g1, ?_, by simpa [he] using p1⟩
          intro j hj
          exact o1 j (by rw [hk n (by simp)]; exact hj)
      · have he' : (visit w.idx n).2 = false := by simpa using he
        refine ⟨w.t, {}, by rw [he']; rfl, ⟨rfl, by simp⟩, inv, WGeom.refl _, fun _ _ => rfl, by simp [he']⟩
    have hstepS : (visitErase hf w.t (visit w.idx n).2 n).Spec (fun tr1 t1 =>
        (tr1.evs = [] ∧ ∀ c ∈ tr1.calls, 1 ≤ c.m) ∧
        Inv hf t1 ∧ WGeom w.t t1 ∧ (∀ j, j ≠ i → t1.bk[j]? = w.t.bk[j]?) ∧
        List.Perm (nodes w.t) ((if (visit w.idx n).2 then [n] else []) ++ nodes t1)) := by
      obtain ⟨t1, tr1, e1, hh1, i1, g1, o1, p1⟩ := hstep
      rw [e1]; exact R.Spec.mk_ok hh1.2 ⟨hh1, i1, g1, o1, p1⟩
    refine R.Spec.bind hstepS ?_
    rintro tr1 t1 ⟨⟨ev1, pos1⟩, i1, g1, o1, p1⟩
    by_cases hr : (visit w.idx n).1 ≠ 0
    · -- the callback asks to stop
      rw [if_pos hr]
      refine R.Spec.pure ?_
      rw [visitList_cons_stop hr]
      exact ⟨i1, g1, o1, by simp, by simp, fun _ => rfl, (fun h => by cases h), p1, by simpa using ev1,
        by simpa using pos1⟩
    · have hr0 : (visit w.idx n).1 = 0 := by simpa using hr
      rw [if_neg hr]
      -- continue with the rest of the chain
      have hmem1 : ∀ m ∈ ns, m ∈ nodes t1 := by
        intro m hm
        have hm0 := hmem m (by simp [hm])
        have := p1.subset hm0
        rcases List.mem_append.mp this with h' | h'
        · exfalso
          by_cases he : (visit w.idx n).2 = true
          · simp [he] at h'
            subst h'
            exact hnd.1 m hm rfl
          · simp [he] at h'
        · exact h'
      have hmode1 : Mode hf visit t1 i ns := by
        rcases hmode with hm | ⟨hs, h, hh, hk⟩
        · exact Or.inl hm
        · refine Or.inr ⟨by rw [g1.1]; exact hs, h, by rw [g1.2.1]; exact hh, ?_⟩
          intro m hm
          rw [g1.2.2.1]; exact hk m (by simp [hm])
      refine (bucketWalk_spec visit i ns
        { t := t1, idx := w.idx + 1, seen := n :: w.seen, res := (visit w.idx n).1 } i1 hmem1 hnd.2 hmode1).mono ?_
      rintro tr2 w' ⟨i2, g2, o2, s2, x2, r2, z2, p2, ev2, pos2⟩
      simp only at g2 o2 s2 x2 r2 z2 p2
      rw [visitList_cons_go hr0]
      refine ⟨i2, g1.trans g2, fun j hj => by rw [o2 j hj, o1 j hj], ?_, ?_, ?_, (fun h => by cases h), ?_, ?_, ?_⟩
      · rw [s2]; simp
      · rw [x2]; simp; omega
      · intro _
        by_cases hns : ns = []
        · subst hns
          rw [z2 rfl]; simp [visitList, hr0]
        · exact r2 hns
      · refine p1.trans ?_
        by_cases he : (visit w.idx n).2 = true
        · simp only [he, if_true]
          simpa using List.Perm.cons n p2
        · simp only [he]
          simpa using p2
      · simp [ev1, ev2]
      · intro c hc
        simp only [Tr.append_calls, List.mem_append] at hc
        rcases hc with h | h
        · exact pos1 c h
        · exact pos2 c h

end Cstl.Hash

namespace Cstl.Hash
variable (hf : HashId → Nat → Nat → Nat)

/-! ### the bucket-array walk -/

/-- the nodes of buckets `i, i+1, …, i+d-1`, in walk order -/
def rest (t : HT) (i : Nat) : Nat → List Node
  | 0 => []
  | d + 1 => chainAt t i ++ rest t (i + 1) d

theorem rest_eq (t : HT) : ∀ (d i : Nat), i + d ≤ t.bk.size →
    rest t i d = ((t.bk.toList.drop i).take d).flatMap (·.chain)
  | 0, i, _ => by simp [rest]
  | d + 1, i, h => by
    have hi : i < t.bk.toList.length := by simp; omega
    rw [rest, rest_eq t d (i + 1) (by omega)]
    rw [List.drop_eq_getElem_cons hi, List.take_succ_cons, List.flatMap_cons]
    congr 1
    unfold chainAt
    have : t.bk[i]? = some t.bk.toList[i] := by
      have hi' : i < t.bk.size := by omega
      simp [hi']
    rw [this]

theorem rest_all {t : HT} (inv : Inv hf t) : rest t 0 t.bound = nodes t := by
  have hb : t.bound = t.ubound := by
    unfold HT.bound HT.ubound
    by_cases h : t.rhHash.isSome
    · by_cases h2 : t.count < t.rhCount
      · simp [h, h2]; omega
      · simp [h, h2]; omega
    · simp [h]
  have hle : t.bound ≤ t.bk.size := by rw [hb]; exact inv.toGeom.ubound_le
  rw [rest_eq t t.bound 0 (by omega), List.drop_zero]
  unfold nodes
  apply flatMap_take_of_empty_beyond
  intro i b hbk hi
  exact inv.beyond i b (by simpa using hbk) (by rw [← hb]; exact hi)

theorem chain_sublist_nodes {t : HT} {i : Nat} {b : Bucket} (hb : t.bk[i]? = some b) :
    b.chain.Sublist (nodes t) := by
  have hmem : b ∈ t.bk.toList := by
    have := Array.mem_of_getElem? hb
    simpa using this
  unfold nodes
  generalize t.bk.toList = l at hmem
  induction l with
  | nil => simp at hmem
  | cons x xs ih =>
    simp only [List.flatMap_cons]
    rcases List.mem_cons.mp hmem with rfl | h
    · exact List.sublist_append_left _ _
    · exact (ih h).trans (List.sublist_append_right _ _)

theorem tableWalk_stopped (visit : Nat → Node → Int × Bool) {w : Walk} (hr : w.res ≠ 0) (i d : Nat) :
    tableWalk hf visit w i d = pure w := by
  cases d with
  | zero => rfl
  | succ d =>
    rw [tableWalk_succ]
    have : ¬ (i < w.t.bound ∧ w.res = 0) := fun h => hr h.2
    rw [if_neg this]

/-- which callbacks may erase during a walk over the table -/
def TMode (visit : Nat → Node → Int × Bool) (t : HT) : Prop :=
  (∀ idx n, (visit idx n).2 = false) ∨ (t.rhHash = none ∧ t.hash.isSome)

theorem tableWalk_spec (visit : Nat → Node → Int × Bool) (t : HT) : ∀ (d : Nat) (w : Walk) (i : Nat),
    i + d = t.bound → Inv hf w.t → WGeom t w.t → (∀ j, i ≤ j → w.t.bk[j]? = t.bk[j]?) → TMode visit t →
    w.res = 0 →
    (tableWalk hf visit w i d).Spec (fun tr w' =>
      Inv hf w'.t ∧ WGeom t w'.t ∧
      w'.seen = (visitList visit w.idx (rest t i d)).1.reverse ++ w.seen ∧
      w'.idx = w.idx + (visitList visit w.idx (rest t i d)).1.length ∧
      w'.res = (visitList visit w.idx (rest t i d)).2.1 ∧
      List.Perm (nodes w.t) ((visitList visit w.idx (rest t i d)).2.2 ++ nodes w'.t) ∧ tr.evs = [] ∧
      ∀ c ∈ tr.calls, 1 ≤ c.m)
  | 0, w, i, _, inv, g, _, _, hres => by
    refine R.Spec.pure ⟨inv, g, by simp [rest, visitList], by simp [rest, visitList], by simp [rest, visitList, hres],
      by simp [rest, visitList], rfl, by simp⟩
  | d + 1, w, i, hid, inv, g, hsame, hmode, hres => by
    rw [tableWalk_succ]
    have hbound : w.t.bound = t.bound := g.bound
    have hcond : i < w.t.bound ∧ w.res = 0 := ⟨by omega, hres⟩
    rw [if_pos hcond]
    have hble : w.t.bound ≤ w.t.bk.size := by
      have hb : w.t.bound = w.t.ubound := by
        unfold HT.bound HT.ubound
        by_cases h : w.t.rhHash.isSome
        · by_cases h2 : w.t.count < w.t.rhCount
          · simp [h, h2]; omega
          · simp [h, h2]; omega
        · simp [h]
      rw [hb]; exact inv.toGeom.ubound_le
    refine R.Spec.bind (rd_spec (t := w.t) (i := i) (by omega)) ?_
    rintro tr0 b ⟨rfl, hb⟩
    have hbt : t.bk[i]? = some b := by rw [← hsame i (Nat.le_refl _)]; exact hb
    have hchain : chainAt t i = b.chain := by unfold chainAt; rw [hbt]
    have hmodeB : Mode hf visit w.t i b.chain := by
      rcases hmode with hm | ⟨hs, hr⟩
      · exact Or.inl hm
      · have hs' : w.t.rhHash = none := by rw [g.1]; exact hs
        obtain ⟨h, hh⟩ := Option.isSome_iff_exists.mp hr
        have hh' : w.t.hash = some h := by rw [g.2.1]; exact hh
        exact Or.inr ⟨hs', h, hh', fun m hm => (inv.settled hs' h hh' i b hb).2 m hm⟩
    have hnd : (b.chain.map (·.id)).Nodup :=
      List.Nodup.sublist ((chain_sublist_nodes hb).map _) inv.nodup
    refine R.Spec.bind (bucketWalk_spec hf visit i b.chain w inv
      (fun m hm => mem_nodes.mpr ⟨i, b, hb, hm⟩) hnd hmodeB) ?_
    rintro tr1 w1 ⟨i1, g1, o1, s1, x1, r1, z1, p1, ev1, pos1⟩
    have hw1res : w1.res = (visitList visit w.idx b.chain).2.1 := by
      by_cases hne : b.chain = []
      · rw [z1 hne, hres, hne]; simp [visitList]
      · exact r1 hne
    rw [rest, hchain, visitList_append]
    by_cases hstop : (visitList visit w.idx b.chain).2.1 ≠ 0
    · rw [if_pos hstop, tableWalk_stopped hf visit (by rw [hw1res]; exact hstop)]
      refine R.Spec.pure ⟨i1, g.trans g1, ?_, ?_, ?_, ?_, ?_, ?_⟩
      · simpa using s1
      · simpa using x1
      · exact hw1res
      · simpa using p1
      · simp [ev1]
      · simpa using pos1
    · rw [if_neg hstop]
      have hzero : (visitList visit w.idx b.chain).2.1 = 0 := by simpa using hstop
      have hall := (visitList_prefix visit b.chain w.idx).2 hzero
      have hidx : w1.idx = w.idx + b.chain.length := by rw [x1, hall]
      have hsame1 : ∀ j, i + 1 ≤ j → w1.t.bk[j]? = t.bk[j]? := by
        intro j hj
        rw [o1 j (by omega), hsame j (by omega)]
      refine (tableWalk_spec visit t d w1 (i + 1) (by omega) i1 (g.trans g1) hsame1 hmode
        (by rw [hw1res]; exact hzero)).mono ?_
      rintro tr2 w2 ⟨i2, g2, s2, x2, r2, p2, ev2, pos2⟩
      rw [hidx] at s2 x2 r2 p2
      refine ⟨i2, g2, ?_, ?_, r2, ?_, ?_, ?_⟩
      · rw [s2, s1]; simp
      · rw [x2]; simp only [List.length_append]; rw [hall]; omega
      · refine p1.trans ?_
        have := List.Perm.append_left (visitList visit w.idx b.chain).2.2 p2
        simpa using this
      · simp [ev1, ev2]
      · intro c hc
        simp only [Tr.append_calls, Tr.empty_calls, List.nil_append, List.mem_append] at hc
        rcases hc with h | h
        · exact pos1 c h
        · exact pos2 c h

end Cstl.Hash

namespace Cstl.Hash
variable (hf : HashId → Nat → Nat → Nat)

/-! ### `__cstl_hash_foreach` and its three entry points -/

theorem hforeach_spec (visit : Nat → Node → Int × Bool) {t : HT} (inv : Inv hf t) (hmode : TMode visit t) :
    (hforeach hf t visit).Spec (fun tr w =>
      Inv hf w.t ∧ WGeom t w.t ∧ w.seen.reverse = (visitList visit 0 (nodes t)).1 ∧
      w.res = (visitList visit 0 (nodes t)).2.1 ∧
      List.Perm (nodes t) ((visitList visit 0 (nodes t)).2.2 ++ nodes w.t) ∧ tr.evs = [] ∧
      ∀ c ∈ tr.calls, 1 ≤ c.m) := by
  unfold hforeach
  refine (tableWalk_spec hf visit t t.bound { t := t, idx := 0, seen := [], res := 0 } 0 (by omega) inv
    (WGeom.refl t) (fun _ _ => rfl) hmode rfl).mono ?_
  rintro tr w ⟨i1, g1, s1, _, r1, p1, ev1, pos1⟩
  rw [rest_all hf inv] at s1 r1 p1
  refine ⟨i1, g1, ?_, r1, p1, ev1, pos1⟩
  rw [s1]; simp

theorem foreach_unfold (t : HT) (visit : Nat → Node → Int × Bool) :
    foreach hf t visit = (rehash hf t >>= fun t1 => hforeach hf t1 visit >>= fun w =>
      pure (w.t, w.res, w.seen.reverse)) := rfl

/-- `cstl_hash_foreach` refines `visitList` on some enumeration `L` of the
table's elements: the callbacks it makes, the value it returns, and the table
it leaves (the elements whose callback erased them are gone, everything else
is still there). -/
theorem foreach_spec (visit : Nat → Node → Int × Bool) {t : HT} (inv : Inv hf t) :
    (foreach hf t visit).Spec (fun tr r => ∃ L, List.Perm L (nodes t) ∧
      r.2.2 = (visitList visit 0 L).1 ∧ r.2.1 = (visitList visit 0 L).2.1 ∧
      Inv hf r.1 ∧ List.Perm L ((visitList visit 0 L).2.2 ++ nodes r.1) ∧ r.1.rhHash = none ∧
      r.1.effCount = t.effCount ∧ r.1.effHash = t.effHash ∧ ∀ c ∈ tr.calls, 1 ≤ c.m) := by
  rw [foreach_unfold]
  refine R.Spec.bind (rehash_spec hf inv) ?_
  rintro tr1 t1 ⟨inv1, hs1, _, _, _, hperm1, _, hcnt1, hhash1, hnop1, hcalls1⟩
  have hpos1 : ∀ c ∈ tr1.calls, 1 ≤ c.m := by
    intro c hc
    by_cases hp : t.rhHash.isSome
    · rw [hcalls1 c hc]; exact (inv.pend hp).2.1
    · have : tr1 = {} := (hnop1 (by simpa using hp)).2
      rw [this] at hc; simp at hc
  have hmode : TMode visit t1 ∨ t1.hash = none := by
    cases hh : t1.hash with
    | none => exact Or.inr rfl
    | some h => exact Or.inl (Or.inr ⟨hs1, by rw [hh]; rfl⟩)
  rcases hmode with hmode | hnone
  · refine R.Spec.bind (hforeach_spec hf visit inv1 hmode) ?_
    rintro tr2 w ⟨i2, g2, s2, r2, p2, _, pos2⟩
    refine R.Spec.pure ⟨nodes t1, hperm1, s2, r2, i2, p2, by rw [g2.1]; exact hs1, ?_, ?_, ?_⟩
    · show w.t.effCount = t.effCount
      unfold HT.effCount; rw [g2.1, hs1, g2.2.2.1]; exact hcnt1
    · show w.t.effHash = t.effHash
      unfold HT.effHash; rw [g2.1, hs1, g2.2.1]; exact hhash1
    · intro c hc
      simp only [Tr.append_calls, Tr.empty_calls, List.append_nil, List.mem_append] at hc
      rcases hc with h | h
      · exact hpos1 c h
      · exact pos2 c h
  · -- a table that was never resized: nothing to visit
    have fr := inv1.fresh hf hnone
    have hb : t1.bound = 0 := by unfold HT.bound; rw [fr.rh, fr.count]; rfl
    have hn : nodes t1 = [] := nodes_nil_of_empty fr.empty
    have : hforeach hf t1 visit = pure { t := t1, idx := 0, seen := [], res := 0 } := by
      unfold hforeach; rw [hb]; rfl
    rw [this]
    refine R.Spec.bind (R.Spec.pure (P := fun tr w => tr = {} ∧ w = ({ t := t1, idx := 0, seen := [], res := 0 } : Walk)) ⟨rfl, rfl⟩) ?_
    rintro tr2 w ⟨rfl, rfl⟩
    refine R.Spec.pure ⟨nodes t1, hperm1, by rw [hn]; rfl, by rw [hn]; rfl, inv1, by rw [hn]; simp [visitList], hs1, ?_, ?_, ?_⟩
    · show t1.effCount = t.effCount
      unfold HT.effCount; rw [hs1]; exact hcnt1
    · show t1.effHash = t.effHash
      unfold HT.effHash; rw [hs1]; exact hhash1
    · simpa using hpos1

theorem foreachConst_unfold (t : HT) (visit : Nat → Node → Int) :
    foreachConst hf t visit = (hforeach hf t (fun i n => (visit i n, false)) >>= fun w =>
      pure (w.res, w.seen.reverse)) := rfl

/-- `cstl_hash_foreach_const` refines `visitList` on the table's elements in
bucket order — whatever stage a pending rehash is in -/
theorem foreachConst_spec (visit : Nat → Node → Int) {t : HT} (inv : Inv hf t) :
    (foreachConst hf t visit).Spec (fun tr r =>
      r.2 = (visitList (fun i n => (visit i n, false)) 0 (nodes t)).1 ∧
      r.1 = (visitList (fun i n => (visit i n, false)) 0 (nodes t)).2.1 ∧ tr.evs = [] ∧
      ∀ c ∈ tr.calls, 1 ≤ c.m) := by
  rw [foreachConst_unfold]
  refine R.Spec.bind (hforeach_spec hf _ inv (Or.inl (fun _ _ => rfl))) ?_
  rintro tr w ⟨_, _, s, r, _, ev, pos⟩
  exact R.Spec.pure ⟨s, r, by simp [ev], by simpa using pos⟩

theorem visitList_clear : ∀ (l : List Node) (idx : Nat),
    visitList (fun _ _ => ((0 : Int), false)) idx l = (l, 0, [])
  | [], _ => rfl
  | n :: ns, idx => by
    rw [visitList_cons_go rfl, visitList_clear ns (idx + 1)]
    simp

/-- the table `cstl_hash_clear` leaves: as after `cstl_hash_init` (the table
bit, the stale pending count and sweep index are the only leftovers) -/
theorem cleared_inv (t : HT) :
    Inv hf { t with bk := #[], count := 0, hash := none, rhHash := none, size := 0 } := by
  refine ⟨⟨Nat.le_refl _, fun _ => ⟨rfl, rfl, rfl⟩, fun h => (by cases h), fun h => (by cases h)⟩,
    ⟨fun i b hb => (by simp at hb), fun _ h hh => (by cases hh), fun g h hg => (by cases hg)⟩,
    ⟨by simp [nodes], by simp [nodes]⟩⟩

/-- `cstl_hash_clear`: with a callback every element of the table is handed to
it exactly once (in bucket order, whatever stage a pending rehash is in); the
table is left empty, without buckets and without hash function. -/
theorem clear_spec (withCb : Bool) {t : HT} (inv : Inv hf t) :
    (clear hf t withCb).Spec (fun tr r =>
      r.2 = (if withCb then nodes t else []) ∧ Inv hf r.1 ∧ r.1.hash = none ∧ r.1.rhHash = none ∧
      r.1.bk = #[] ∧ r.1.size = 0 ∧ r.1.count = 0 ∧ nodes r.1 = [] ∧
      tr.evs = (if t.bk.size ≠ 0 then [AllocEv.free] else []) ∧ ∀ c ∈ tr.calls, 1 ≤ c.m) := by
  rw [clear_unfold]
  have hw : (clearWalk hf t withCb).Spec (fun tr w => w.seen.reverse = (if withCb then nodes t else []) ∧
      tr.evs = [] ∧ ∀ c ∈ tr.calls, 1 ≤ c.m) := by
    unfold clearWalk
    cases withCb with
    | false => exact R.Spec.pure ⟨rfl, rfl, by simp⟩
    | true =>
      simp only [if_true]
      refine (hforeach_spec hf (fun _ _ => ((0 : Int), false)) inv (Or.inl (fun _ _ => rfl))).mono ?_
      rintro tr w ⟨_, _, s, _, p, ev, pos⟩
      rw [visitList_clear] at s
      exact ⟨s, ev, pos⟩
  refine R.Spec.bind hw ?_
  rintro tr1 w ⟨s, ev1, pos1⟩
  have hfree : (freeArr t).Spec (fun tr _ => tr.evs = (if t.bk.size ≠ 0 then [AllocEv.free] else []) ∧ tr.calls = []) := by
    unfold freeArr
    by_cases h : t.bk.size ≠ 0
    · rw [if_pos h, if_pos h]; simp [R.Spec, logEv]
    · rw [if_neg h, if_neg h]; exact R.Spec.pure ⟨rfl, rfl⟩
  refine R.Spec.bind hfree ?_
  rintro tr2 _ ⟨ev2, c2⟩
  refine R.Spec.pure ⟨s, cleared_inv hf w.t, rfl, rfl, rfl, rfl, rfl, by simp [nodes], by simp [ev1, ev2], by simpa [c2] using pos1⟩

end Cstl.Hash
