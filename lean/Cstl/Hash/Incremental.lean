import Cstl.Hash.Progress
/-
A keyed operation touches at most three buckets: every other bucket keeps its
chain as a suffix of its new chain (nodes relocated into it are put in
front).  Purely structural: holds on every table state, for every `hf`.
-/
namespace Cstl.Hash

variable (hf : HashId → Nat → Nat → Nat)

/-- every bucket outside `S` keeps its old chain as a suffix of its new chain -/
def Keeps (t t' : HT) (S : List Nat) : Prop :=
  ∀ (j : Nat) (b : Bucket), j ∉ S → t.bk[j]? = some b → ∃ b', t'.bk[j]? = some b' ∧ b.chain <:+ b'.chain

theorem Keeps.refl (t : HT) (S : List Nat) : Keeps t t S :=
  fun _ b _ hb => ⟨b, hb, List.suffix_refl _⟩

theorem Keeps.of_bk {t t' : HT} (h : t'.bk = t.bk) (S : List Nat) : Keeps t t' S :=
  fun _ b _ hb => ⟨b, by rw [h]; exact hb, List.suffix_refl _⟩

theorem Keeps.trans {a b c : HT} {S1 S2 : List Nat} (h1 : Keeps a b S1) (h2 : Keeps b c S2) :
    Keeps a c (S1 ++ S2) := by
  intro j ba hj hba
  simp only [List.mem_append, not_or] at hj
  obtain ⟨bb, hbb, s1⟩ := h1 j ba hj.1 hba
  obtain ⟨bc, hbc, s2⟩ := h2 j bb hj.2 hbb
  exact ⟨bc, hbc, s1.trans s2⟩

theorem Keeps.mono {t t' : HT} {S S' : List Nat} (h : Keeps t t' S) (hs : ∀ j, j ∈ S → j ∈ S') : Keeps t t' S' :=
  fun j b hj hb => h j b (fun hm => hj (hs j hm)) hb

/-- the operation, if it returns, returns a value satisfying `Q` -/
def R.Ok {α : Type} (m : R α) (Q : α → Prop) : Prop := ∀ a, m.val = .ok a → Q a

theorem R.Ok.pure {α : Type} {a : α} {Q : α → Prop} (h : Q a) : (Pure.pure a : R α).Ok Q := by
  intro a' ha; simp at ha; subst ha; exact h

theorem R.Ok.bind {α β : Type} {m : R α} {f : α → R β} {P : α → Prop} {Q : β → Prop}
    (hm : m.Ok P) (hf' : ∀ a, P a → (f a).Ok Q) : (m >>= f).Ok Q := by
  intro b hb
  obtain ⟨a, ha, hfa⟩ := bind_val_ok.mp hb
  exact hf' a (hm a ha) b hfa

theorem R.Ok.ite {α : Type} {c : Prop} [Decidable c] {a b : R α} {Q : α → Prop} (ha : a.Ok Q) (hb : b.Ok Q) :
    (if c then a else b).Ok Q := by
  split
  · exact ha
  · exact hb

theorem rd_Ok (t : HT) (i : Nat) : (rd t i).Ok (fun b => t.bk[i]? = some b) := by
  intro b hb
  unfold rd at hb
  cases h : t.bk[i]? with
  | some b' => simp [h] at hb; rw [hb]
  | none =>
    simp only [h] at hb
    split at hb <;> simp at hb

theorem wr_keeps_other (t : HT) (i : Nat) (b : Bucket) : Keeps t (wr t i b) [i] := by
  intro j bj hj hbj
  simp only [List.mem_singleton] at hj
  refine ⟨bj, ?_, List.suffix_refl _⟩
  rw [wr_get, if_neg (fun h => hj h.symm)]; exact hbj

theorem pushHead_keeps (t : HT) (j : Nat) (n : Node) : (pushHead t j n).Ok (fun t' => Keeps t t' []) := by
  refine R.Ok.bind (rd_Ok t j) (fun b hb => R.Ok.pure ?_)
  intro j' bj _ hbj
  rw [wr_get]
  by_cases hjj : j = j'
  · subst hjj
    have hlt := (Array.getElem?_eq_some_iff.mp hb).1
    rw [hb] at hbj; cases hbj
    simp only [if_true, hlt]
    exact ⟨_, rfl, List.suffix_cons _ _⟩
  · simp only [hjj, if_false]
    exact ⟨bj, hbj, List.suffix_refl _⟩

theorem reinsert_keeps : ∀ (ns : List Node) (t : HT), (reinsert hf t ns).Ok (fun t' => Keeps t t' [])
  | [], t => R.Ok.pure (Keeps.refl t [])
  | n :: ns, t => by
    rw [reinsert_cons]
    refine R.Ok.bind (P := fun _ => True) (fun _ _ => trivial) (fun j _ => ?_)
    refine R.Ok.bind (pushHead_keeps t j n) (fun t1 h1 => ?_)
    intro t2 ht2
    have := (reinsert_keeps ns t1) t2 ht2
    exact (h1.trans this).mono (by simp)

theorem cleanBucket_keeps (t : HT) (i : Nat) : (cleanBucket hf t i).Ok (fun t' => Keeps t t' [i]) := by
  rw [cleanBucket_unfold]
  refine R.Ok.bind (rd_Ok t i) (fun b _ => ?_)
  refine R.Ok.ite (R.Ok.pure (Keeps.refl t _)) ?_
  refine R.Ok.bind (reinsert_keeps hf b.chain _) (fun t2 h2 => ?_)
  refine R.Ok.bind (P := fun _ => True) (fun _ _ => trivial) (fun _ _ => ?_)
  refine R.Ok.bind (P := fun _ => True) (fun _ _ => trivial) (fun b2 _ => R.Ok.pure ?_)
  have k1 := wr_keeps_other t i { b with chain := [] }
  have k3 := wr_keeps_other t2 i { b2 with cst := t.cst }
  exact ((k1.trans h2).trans k3).mono (by simp)

theorem skipClean_keeps : ∀ (d : Nat) (t : HT), (skipClean t d).Ok (fun t' => t'.bk = t.bk)
  | 0, t => R.Ok.pure rfl
  | d + 1, t => by
    rw [skipClean_succ]
    refine R.Ok.ite ?_ (R.Ok.pure rfl)
    refine R.Ok.bind (P := fun _ => True) (fun _ _ => trivial) (fun b _ => ?_)
    refine R.Ok.ite ?_ (R.Ok.pure rfl)
    intro t' ht'
    exact skipClean_keeps d { t with clean := t.clean + 1 } t' ht'

/-- the sweep loop with budget `k` touches at most `k` buckets -/
theorem sweep_keeps : ∀ (d : Nat) (t : HT) (k : Nat),
    (sweep hf t (some k) d).Ok (fun t' => ∃ S : List Nat, S.length ≤ k ∧ Keeps t t' S)
  | 0, t, _ => R.Ok.pure ⟨[], by simp, Keeps.refl t []⟩
  | d + 1, t, k => by
    rw [sweep_succ]
    by_cases hc : t.clean < t.count ∧ (some k : Option Nat) ≠ some 0
    · rw [if_pos hc]
      refine R.Ok.bind (cleanBucket_keeps hf t t.clean) (fun t1 h1 => ?_)
      intro t2 ht2
      cases k with
      | zero => exact absurd rfl hc.2
      | succ k =>
        have := sweep_keeps d { t1 with clean := t1.clean + 1 } k t2 (by simpa using ht2)
        obtain ⟨S, hS, hk⟩ := this
        have hk' : Keeps t1 t2 S := fun j b hj hb => hk j b hj hb
        exact ⟨t.clean :: S, by simp; omega, (h1.trans hk').mono (by simp)⟩
    · rw [if_neg hc]
      exact R.Ok.pure ⟨[], by simp, Keeps.refl t []⟩

theorem rehashN_keeps (t : HT) (k : Nat) :
    (rehashN hf t (some k)).Ok (fun t' => ∃ S : List Nat, S.length ≤ k ∧ Keeps t t' S) := by
  rw [rehashN_unfold]
  refine R.Ok.bind (skipClean_keeps _ t) (fun t1 h1 => ?_)
  refine R.Ok.bind (sweep_keeps hf _ t1 k) (fun t2 h2 => ?_)
  obtain ⟨S, hS, hk⟩ := h2
  have hk1 : Keeps t t2 S := by
    have := (Keeps.of_bk h1 ([] : List Nat)).trans hk
    exact this.mono (by simp)
  refine R.Ok.ite (R.Ok.pure ⟨S, hS, ?_⟩) (R.Ok.pure ⟨S, hS, hk1⟩)
  exact fun j b hj hb => hk1 j b hj hb

/-- `cstl_hash_get_bucket` touches at most three buckets -/
theorem keyed_keeps (t : HT) (k : Nat) :
    (keyed hf t k).Ok (fun r => ∃ S : List Nat, S.length ≤ 3 ∧ Keeps t r.1 S ∧ (t.rhHash.isSome → r.2 ∈ S) ∧
      (¬ t.rhHash.isSome → S = [])) := by
  rw [keyed_unfold]
  refine R.Ok.bind (P := fun _ => True) (fun _ _ => trivial) (fun i _ => ?_)
  by_cases hp : t.rhHash.isSome
  · rw [if_pos hp]
    refine R.Ok.bind (P := fun _ => True) (fun _ _ => trivial) (fun j _ => ?_)
    refine R.Ok.bind (cleanBucket_keeps hf t i) (fun t1 h1 => ?_)
    refine R.Ok.bind (cleanBucket_keeps hf t1 j) (fun t2 h2 => ?_)
    refine R.Ok.bind (rehashN_keeps hf t2 1) (fun t3 h3 => R.Ok.pure ?_)
    obtain ⟨S, hS, hk⟩ := h3
    refine ⟨[i] ++ [j] ++ S, by simp; omega, (h1.trans h2).trans hk, fun _ => by simp, fun h => absurd hp h⟩
  · rw [if_neg hp]
    exact R.Ok.pure ⟨[], by simp, Keeps.refl t [], fun h => absurd h hp, fun _ => rfl⟩

/-- **A keyed operation touches at most three buckets**: every bucket outside a
set of at most three indices keeps its chain as a suffix of its new chain.
No invariant, no assumption on `hf`. -/
theorem keyed_untouched_buckets (t : HT) (op : KOp) :
    (kstep hf t op).Ok (fun t' => ∃ S : List Nat, S.length ≤ 3 ∧ Keeps t t' S) := by
  cases op with
  | insert k e =>
    show (insert hf t k e).Ok _
    rw [insert_unfold]
    refine R.Ok.bind (keyed_keeps hf t k) (fun r hr => ?_)
    obtain ⟨S, hS, hk, _, _⟩ := hr
    refine R.Ok.bind (pushHead_keeps r.1 r.2 _) (fun t2 h2 => R.Ok.pure ⟨S, hS, ?_⟩)
    have : Keeps t t2 (S ++ []) := hk.trans h2
    exact fun j b hj hb => (this.mono (by simp)) j b hj hb
  | find k acc =>
    show (find hf t k acc >>= fun r => pure r.1).Ok _
    rw [find_unfold]
    refine R.Ok.bind (P := fun r => ∃ S : List Nat, S.length ≤ 3 ∧ Keeps t r.1 S) ?_ (fun r hr => R.Ok.pure hr)
    refine R.Ok.bind (keyed_keeps hf t k) (fun r hr => ?_)
    obtain ⟨S, hS, hk, _, _⟩ := hr
    refine R.Ok.bind (P := fun _ => True) (fun _ _ => trivial) (fun _ _ => R.Ok.pure ⟨S, hS, hk⟩)
  | erase k e =>
    show (erase hf t k e).Ok _
    rw [erase_unfold]
    refine R.Ok.bind (keyed_keeps hf t k) (fun r hr => ?_)
    obtain ⟨S, hS, hk, hmem, hnil⟩ := hr
    refine R.Ok.bind (P := fun _ => True) (fun _ _ => trivial) (fun b _ => ?_)
    by_cases hp : t.rhHash.isSome
    · -- the bucket used is one of the (at most three) cleaned ones
      have hj := hmem hp
      split
      · refine R.Ok.pure ⟨S, hS, ?_⟩
        have k2 := wr_keeps_other r.1 r.2 { b with chain := ‹List Node› }
        have : Keeps t (wr r.1 r.2 { b with chain := ‹List Node› }) (S ++ [r.2]) := hk.trans k2
        exact fun j bj hjS hbj => (this.mono (by intro x hx; simp at hx; rcases hx with h | h; exact h; rw [h]; exact hj)) j bj hjS hbj
      · exact R.Ok.pure ⟨S, hS, hk⟩
    · -- no rehash pending: nothing was cleaned, only the key's bucket changes
      have hS0 := hnil hp
      subst hS0
      split
      · refine R.Ok.pure ⟨[r.2], by simp, ?_⟩
        have k2 := wr_keeps_other r.1 r.2 { b with chain := ‹List Node› }
        have : Keeps t (wr r.1 r.2 { b with chain := ‹List Node› }) ([] ++ [r.2]) := hk.trans k2
        exact fun j bj hjS hbj => (this.mono (by simp)) j bj hjS hbj
      · exact R.Ok.pure ⟨[], by simp, hk⟩

end Cstl.Hash
