import Cstl.Hash.Geometry
/-
Progress of the incremental rehash under sequences of keyed operations (C19).
-/
namespace Cstl.Hash

variable (hf : HashId → Nat → Nat → Nat)

/-- a keyed operation on one table; `erase` carries what the element's key field holds -/
inductive KOp where
  | insert (k e : Nat)
  | find (k : Nat) (acc : Option (Nat → Node → Bool))
  | erase (k e : Nat)

def KOp.key : KOp → Nat
  | .insert k _ => k
  | .find k _ => k
  | .erase k _ => k

def kstep (t : HT) : KOp → R HT
  | .insert k e => insert hf t k e
  | .find k acc => do
    let r ← find hf t k acc
    pure r.1
  | .erase k e => erase hf t k e

/-- documented domain of a keyed operation -/
def KValid (t : HT) : KOp → Prop
  | .insert _ e => ∀ n ∈ nodes t, n.id ≠ e
  | .find _ _ => True
  | .erase k e => ∀ n ∈ nodes t, n.id = e → n.key = k

def krun (t : HT) : List KOp → R HT
  | [] => pure t
  | op :: ops => do
    let t' ← kstep hf t op
    krun t' ops

def KValidFrom (t : HT) : List KOp → Prop
  | [] => True
  | op :: ops => KValid t op ∧ ∀ t', (kstep hf t op).val = .ok t' → KValidFrom t' ops

theorem kstep_spec {t : HT} (op : KOp) (inv : Inv hf t) (hr : t.hash.isSome) (hv : KValid t op) :
    (kstep hf t op).Spec (fun tr t' => Inv hf t' ∧ KeyedGeom t t' op.key tr) := by
  cases op with
  | insert k e =>
    exact (insert_spec hf k e inv hr hv).mono (fun tr t' h => ⟨h.1, h.2.2.2⟩)
  | find k acc =>
    refine R.Spec.bind (find_spec hf k acc inv hr) ?_
    rintro tr r ⟨h1, _, _, h4, _⟩
    refine R.Spec.pure ⟨h1, ?_⟩
    have : KeyedGeom t r.1 k (tr.append {}) := by rw [Tr.append_empty]; exact h4
    exact this
  | erase k e =>
    exact (erase_spec hf k e inv hr hv).mono (fun tr t' h => ⟨h.1, h.2.1⟩)

/-- once no rehash is pending, keyed operations keep it that way and keep the geometry -/
theorem krun_settled : ∀ (ops : List KOp) (t : HT), Inv hf t → t.hash.isSome → KValidFrom hf t ops →
    t.rhHash = none →
    (krun hf t ops).Spec (fun _ t' => Inv hf t' ∧ t'.rhHash = none ∧ t'.count = t.count ∧ t'.hash = t.hash)
  | [], t, inv, _, _, hs => R.Spec.pure ⟨inv, hs, rfl, rfl⟩
  | op :: ops, t, inv, hr, hv, hs => by
    show (kstep hf t op >>= fun t' => krun hf t' ops).Spec _
    refine R.Spec.bind (R.Spec.with_val (kstep_spec hf op inv hr hv.1)) ?_
    rintro tr t1 ⟨⟨inv1, g⟩, hval⟩
    obtain ⟨h1, h2, h3, _⟩ := g.settled_case hs
    refine (krun_settled ops t1 inv1 g.ready (hv.2 t1 hval) h1).mono ?_
    rintro tr2 t2 ⟨i2, a, b, c⟩
    exact ⟨i2, a, by rw [b, h2], by rw [c, h3]⟩

/-- **The rehash finishes**: with a rehash pending, any `count - clean` keyed
operations (in particular any `count` of them: no more than there were
buckets) leave the table settled on the requested geometry. -/
theorem krun_finishes : ∀ (ops : List KOp) (t : HT), Inv hf t → t.hash.isSome → KValidFrom hf t ops →
    t.rhHash.isSome → 1 ≤ ops.length → t.count - t.clean ≤ ops.length →
    (krun hf t ops).Spec (fun _ t' => Inv hf t' ∧ t'.rhHash = none ∧ t'.count = t.rhCount ∧ t'.hash = t.rhHash)
  | [], t, _, _, _, _, h1, _ => by simp at h1
  | op :: ops, t, inv, hr, hv, hp, _, hlen => by
    show (kstep hf t op >>= fun t' => krun hf t' ops).Spec _
    refine R.Spec.bind (R.Spec.with_val (kstep_spec hf op inv hr hv.1)) ?_
    rintro tr t1 ⟨⟨inv1, g⟩, hval⟩
    rcases g.pending_case hp with ⟨a, b, c⟩ | ⟨a, b, c, d, e, f⟩
    · refine (krun_settled hf ops t1 inv1 g.ready (hv.2 t1 hval) a).mono ?_
      rintro tr2 t2 ⟨i2, a2, b2, c2⟩
      exact ⟨i2, a2, by rw [b2, b], by rw [c2, c]⟩
    · have hp1 : t1.rhHash.isSome := by rw [a]; exact hp
      simp only [List.length_cons] at hlen
      refine (krun_finishes ops t1 inv1 g.ready (hv.2 t1 hval) hp1 (by omega) (by omega)).mono ?_
      rintro tr2 t2 ⟨i2, a2, b2, c2⟩
      exact ⟨i2, a2, by rw [b2, d], by rw [c2, a]⟩

end Cstl.Hash
