/-
Executable model of src/hash.c (separate chaining, incremental rehash driven by
per-bucket / table-wide "clean" bits and a sweep index), as repaired by the
`fix:` commits for defects #2, #3, #4 and #12 of DESIGN section 5.

* The bucket array `bucket.at` is `bk : Array Bucket`; `bucket.capacity` is its
  size and `bucket.at == NULL` is "size 0" (the C code changes pointer and
  capacity only together: init, `__cstl_hash_set_capacity`, clear).
* The hash functions are ONE uninterpreted parameter
  `hf : HashId → Nat → Nat → Nat` with no in-range assumption: an out-of-range
  result stops the operation with `abort` exactly where
  `__cstl_hash_get_bucket` checks it.
* Every operation runs in the trace monad `R`: besides its result it reports the
  hash-function calls it made (in order, also when it stops), the number of
  buckets whose chain was detached and re-inserted, and its realloc/free
  requests.  `Stop.oob` / `Stop.nullDeref` are what the model answers where the C
  code would read or write outside the bucket array / call or read through NULL.
* Allocation is a parameter: `oracle bytes = true` iff `realloc` succeeds.

Core Lean only (the driver links this file).
-/
namespace Cstl.Hash

abbrev HashId := Nat

/-- what `cstl_hash_resize(h, n, NULL)` installs on a table that has no hash
function yet: `cstl_hash_mul` -/
def mulId : HashId := 0

inductive Stop where
  | abort      -- abort(): the documented fail-stop
  | oob        -- access outside the bucket array
  | nullDeref  -- call / access through a NULL pointer
deriving DecidableEq, Repr, Inhabited

/-- `struct cstl_hash_node` seen from outside: the key it was inserted with and
the identity (address) of the element it is embedded in -/
structure Node where
  key : Nat
  id : Nat
deriving DecidableEq, Repr, Inhabited

/-- `struct cstl_hash_bucket`: chain (head first) and the bucket's clean bit -/
structure Bucket where
  chain : List Node
  cst : Bool
deriving DecidableEq, Repr, Inhabited

/-- one call of a hash function: which one, key, table size it was given -/
structure Call where
  fn : HashId
  key : Nat
  m : Nat
deriving DecidableEq, Repr, Inhabited

inductive AllocEv where
  | realloc (bytes : Nat) (ok : Bool)
  | free
deriving DecidableEq, Repr, Inhabited

/-- what an operation did besides computing its result -/
structure Tr where
  calls : List Call := []
  reloc : Nat := 0
  evs : List AllocEv := []
deriving DecidableEq, Repr, Inhabited

def Tr.append (a b : Tr) : Tr :=
  { calls := a.calls ++ b.calls, reloc := a.reloc + b.reloc, evs := a.evs ++ b.evs }

/-- result of a model operation: the trace up to the point where it returned
or stopped, and the value or the stop kind -/
structure R (α : Type) where
  tr : Tr
  val : Except Stop α

namespace R
def pure {α : Type} (a : α) : R α := { tr := {}, val := .ok a }
def bind {α β : Type} (m : R α) (f : α → R β) : R β :=
  match m.val with
  | .ok a => { tr := m.tr.append (f a).tr, val := (f a).val }
  | .error e => { tr := m.tr, val := .error e }
end R

instance : Monad R where
  pure := R.pure
  bind := R.bind

def stop {α : Type} (e : Stop) : R α := { tr := {}, val := .error e }
def logCall (c : Call) : R Unit := { tr := { calls := [c] }, val := .ok () }
def tickReloc : R Unit := { tr := { reloc := 1 }, val := .ok () }
def logEv (e : AllocEv) : R Unit := { tr := { evs := [e] }, val := .ok () }

/-- `struct cstl_hash` (the `off` member is constant and not modelled) -/
structure HT where
  bk : Array Bucket            -- bucket.at / bucket.capacity
  count : Nat                  -- bucket.count
  hash : Option HashId         -- bucket.hash (none = NULL)
  cst : Bool                   -- bucket.cst
  rhHash : Option HashId       -- bucket.rh.hash (some = a rehash is pending)
  rhCount : Nat                -- bucket.rh.count
  clean : Nat                  -- bucket.rh.clean (sweep index)
  size : Nat                   -- count (number of elements)
deriving DecidableEq, Repr, Inhabited

/-- `cstl_hash_init` -/
def HT.init : HT :=
  { bk := #[], count := 0, hash := none, cst := false, rhHash := none, rhCount := 0, clean := 0, size := 0 }

def HT.capacity (t : HT) : Nat := t.bk.size
def HT.pending (t : HT) : Bool := t.rhHash.isSome

/-- geometry the table is heading for: what `cstl_hash_load` divides by -/
def HT.effCount (t : HT) : Nat := if t.rhHash.isSome then t.rhCount else t.count
def HT.effHash (t : HT) : Option HashId := if t.rhHash.isSome then t.rhHash else t.hash

/-- `cstl_hash_size` -/
def HT.sizeOf (t : HT) : Nat := t.size

/-- `cstl_hash_load` as the pair (numerator, denominator) of the float division -/
def HT.load (t : HT) : Nat × Nat := (t.size, t.effCount)

/-- read `bucket.at[i]` -/
def rd (t : HT) (i : Nat) : R Bucket :=
  match t.bk[i]? with
  | some b => pure b
  | none => if t.bk.size = 0 then stop .nullDeref else stop .oob

/-- write `bucket.at[i]` (only used after `rd t i` succeeded) -/
def wr (t : HT) (i : Nat) (b : Bucket) : HT := { t with bk := t.bk.setIfInBounds i b }

section
variable (hf : HashId → Nat → Nat → Nat)

/-- `__cstl_hash_get_bucket(h, k, hash, count)`: the bucket index, after the range check -/
def getBucket (f : Option HashId) (k m : Nat) : R Nat :=
  match f with
  | none => stop .nullDeref
  | some fn => do
    logCall { fn := fn, key := k, m := m }
    if m ≤ hf fn k m then stop .abort else pure (hf fn k m)

/-- `HASH_LIST_INSERT(bk->n, n)` -/
def pushHead (t : HT) (j : Nat) (n : Node) : R HT := do
  let b ← rd t j
  pure (wr t j { b with chain := n :: b.chain })

/-- the loop of `cstl_clean_bucket`: every node of the detached chain, in chain
order, goes to the head of its bucket under the pending geometry -/
def reinsert (t : HT) : List Node → R HT
  | [] => pure t
  | n :: ns => do
    let j ← getBucket hf t.rhHash n.key t.rhCount
    let t' ← pushHead t j n
    reinsert t' ns

/-- `cstl_clean_bucket(h, &h->bucket.at[i])` -/
def cleanBucket (t : HT) (i : Nat) : R HT := do
  let b ← rd t i
  if b.cst = t.cst then pure t
  else do
    let t1 := wr t i { b with chain := [] }
    let t2 ← reinsert hf t1 b.chain
    tickReloc
    let b2 ← rd t2 i
    pure (wr t2 i { b2 with cst := t.cst })

/-- first loop of `__cstl_hash_rehash`: skip over already-cleaned buckets.
Called with `d = count - clean`, so `d = 0` means `clean ≥ count`. -/
def skipClean (t : HT) : Nat → R HT
  | 0 => pure t
  | d + 1 =>
    if t.clean < t.count then do
      let b ← rd t t.clean
      if b.cst = t.cst then skipClean { t with clean := t.clean + 1 } d else pure t
    else pure t

/-- second loop of `__cstl_hash_rehash`: clean up to `n` buckets (`none` = SIZE_MAX).
Called with `d = count - clean`. -/
def sweep (t : HT) (n : Option Nat) : Nat → R HT
  | 0 => pure t
  | d + 1 =>
    if t.clean < t.count ∧ n ≠ some 0 then do
      let t' ← cleanBucket hf t t.clean
      sweep { t' with clean := t'.clean + 1 } (n.map (· - 1)) d
    else pure t

/-- `__cstl_hash_rehash(h, n)` -/
def rehashN (t : HT) (n : Option Nat) : R HT := do
  let t1 ← skipClean t (t.count - t.clean)
  let t2 ← sweep hf t1 n (t1.count - t1.clean)
  if t2.count ≤ t2.clean then
    pure { t2 with count := t2.rhCount, hash := t2.rhHash, rhHash := none }
  else pure t2

/-- `cstl_hash_rehash` -/
def rehash (t : HT) : R HT :=
  if t.rhHash.isSome then rehashN hf t none else pure t

/-- `cstl_hash_get_bucket(h, k)`: clean the key's old bucket, its new bucket,
sweep one more, use the new one -/
def keyed (t : HT) (k : Nat) : R (HT × Nat) := do
  let i ← getBucket hf t.hash k t.count
  if t.rhHash.isSome then do
    let j ← getBucket hf t.rhHash k t.rhCount
    let t1 ← cleanBucket hf t i
    let t2 ← cleanBucket hf t1 j
    let t3 ← rehashN hf t2 (some 1)
    pure (t3, j)
  else pure (t, i)

/-- `cstl_hash_insert(h, k, e)` -/
def insert (t : HT) (k e : Nat) : R HT := do
  let (t1, j) ← keyed hf t k
  let t2 ← pushHead t1 j { key := k, id := e }
  pure { t2 with size := t2.size + 1 }

/-- the chain walk of `cstl_hash_find`: nodes with the key are offered to the
visit function (`accept idx node`, `idx` = number of offers made before) until
one is accepted; without a visit function the first one is returned.
Result: (found, offers in order). -/
def findWalk (k : Nat) (accept : Option (Nat → Node → Bool)) : List Node → List Node → Option Node × List Node
  | [], offers => (none, offers.reverse)
  | n :: ns, offers =>
    if n.key = k then
      match accept with
      | none => (some n, offers.reverse)
      | some acc =>
        if acc offers.length n then (some n, (n :: offers).reverse)
        else findWalk k accept ns (n :: offers)
    else findWalk k accept ns offers

/-- `cstl_hash_find(h, k, visit, p)` -/
def find (t : HT) (k : Nat) (accept : Option (Nat → Node → Bool)) : R (HT × Option Node × List Node) := do
  let (t1, j) ← keyed hf t k
  let b ← rd t1 j
  pure (t1, findWalk k accept b.chain [])

/-- unlink the first node whose element is `e` (pointer identity) -/
def unlink (e : Nat) : List Node → Option (List Node)
  | [] => none
  | n :: ns => if n.id = e then some ns else (unlink e ns).map (n :: ·)

/-- `cstl_hash_erase(h, e)`; `k` is what the element's key field holds -/
def erase (t : HT) (k e : Nat) : R HT := do
  let (t1, j) ← keyed hf t k
  let b ← rd t1 j
  match unlink e b.chain with
  | some c => pure { wr t1 j { b with chain := c } with size := t1.size - 1 }
  | none => pure t1

/-- what a successful `realloc` to `sz` buckets does to the array: the first
`min sz size` buckets are kept; added memory is uninitialised in C (the code
never reads it before `cstl_hash_resize` has initialised it), here empty. -/
def resizeArr (a : Array Bucket) (sz : Nat) : Array Bucket :=
  if sz ≤ a.size then a.extract 0 sz
  else a ++ Array.replicate (sz - a.size) { chain := [], cst := false }

/-- `__cstl_hash_set_capacity(h, sz)`, repaired (defect #12): a bucket byte
count that does not fit `size_t` is an allocation failure; otherwise `realloc`
is asked for `sizeof(struct cstl_hash_bucket) * sz = (16 * sz) mod 2^64` bytes.
A request for 0 bytes (glibc: frees the array and returns NULL, the stale
pointer would be kept) is answered with `oob`; `setCapacity_no_zero` shows no
operation ever makes it. -/
def setCapacity (oracle : Nat → Bool) (t : HT) (sz : Nat) : R HT :=
  if (2 ^ 64 - 1) / 16 < sz then pure t
  else if sz = 0 then stop .oob
  else do
    let bytes := (16 * sz) % 2 ^ 64
    let ok := oracle bytes
    logEv (.realloc bytes ok)
    if ok then pure { t with bk := resizeArr t.bk sz } else pure t

/-- the bucket-initialisation loop of `cstl_hash_resize`: `at[i] = (NULL, cst)` for `i` in `[lo, lo+d)` -/
def initBuckets (t : HT) (lo : Nat) : Nat → R HT
  | 0 => pure t
  | d + 1 => do
    let _ ← rd t lo
    initBuckets (wr t lo { chain := [], cst := t.cst }) (lo + 1) d

/-- the hash function `cstl_hash_resize` installs: the one given, else the
current one, else `cstl_hash_mul` -/
def pickHash (f cur : Option HashId) : HashId :=
  match f with
  | some g => g
  | none => match cur with
    | some h => h
    | none => mulId

/-- the part of `cstl_hash_resize` after the pending rehash has been forced:
flip the table bit, initialise the added buckets as clean, install the pending
geometry (on the first resize: the geometry itself) -/
def resizeTail (t2 : HT) (n : Nat) (f : Option HashId) : R HT := do
  let t3 := { t2 with cst := !t2.cst }
  let t4 ← initBuckets t3 t3.count (n - t3.count)
  let g := pickHash f t4.hash
  let t5 := { t4 with rhHash := some g, rhCount := n, clean := 0 }
  if t5.hash = none then
    pure { t5 with hash := some g, count := n, rhHash := none }
  else pure t5

/-- `if (count > h->bucket.capacity) __cstl_hash_set_capacity(h, count);` -/
def ensureCapacity (oracle : Nat → Bool) (t : HT) (n : Nat) : R HT :=
  if t.bk.size < n then setCapacity oracle t n else pure t

/-- `cstl_hash_resize(h, n, f)`, repaired (defect #4): the request is compared
with the geometry the table is heading for -/
def resize (oracle : Nat → Bool) (t : HT) (n : Nat) (f : Option HashId) : R HT :=
  if n = 0 then pure t
  else do
    let t1 ← ensureCapacity oracle t n
    if t1.bk.size ≠ 0 ∧ n ≤ t1.bk.size ∧ (n ≠ t1.effCount ∨ (f ≠ none ∧ f ≠ t1.effHash)) then do
      let t2 ← rehash hf t1
      resizeTail t2 n f
    else pure t1

/-- `cstl_hash_shrink_to_fit` -/
def shrink (oracle : Nat → Bool) (t : HT) : R HT :=
  if t.effCount < t.bk.size then do
    let t1 ← rehash hf t
    setCapacity oracle t1 t1.count
  else pure t

/-- state of an enumeration: table, number of callbacks made, elements handed
to the callback (in order), result of the last callback -/
structure Walk where
  t : HT
  idx : Nat
  seen : List Node
  res : Int
deriving Repr

/-- what the visit callback of `cstl_hash_foreach` may do to the table: with
`er` it calls `cstl_hash_erase` on the element it is visiting -/
def visitErase (t : HT) (er : Bool) (n : Node) : R HT :=
  if er then erase hf t n.key n.id else pure t

/-- `cstl_hash_bucket_foreach` under `__cstl_hash_foreach`: the successor is read
before the visit; the callback returns (result, erase-me): with erase-me it
calls `cstl_hash_erase` on the element it is visiting before it returns. -/
def bucketWalk (visit : Nat → Node → Int × Bool) (w : Walk) : List Node → R Walk
  | [] => pure w
  | n :: ns => do
    let t' ← visitErase hf w.t (visit w.idx n).2 n
    let w' : Walk := { t := t', idx := w.idx + 1, seen := n :: w.seen, res := (visit w.idx n).1 }
    if (visit w.idx n).1 ≠ 0 then pure w' else bucketWalk visit w' ns

/-- upper bound of the bucket walk of `__cstl_hash_foreach`, repaired (defect
#2): the pending count while a grow is pending -/
def HT.bound (t : HT) : Nat :=
  if t.rhHash.isSome ∧ t.count < t.rhCount then t.rhCount else t.count

/-- `__cstl_hash_foreach`: buckets `i, i+1, …` while `i < bound` and the result is 0; `d = bound - i` -/
def tableWalk (visit : Nat → Node → Int × Bool) (w : Walk) (i : Nat) : Nat → R Walk
  | 0 => pure w
  | d + 1 =>
    if i < w.t.bound ∧ w.res = 0 then do
      let b ← rd w.t i
      let w' ← bucketWalk hf visit w b.chain
      tableWalk visit w' (i + 1) d
    else pure w

def hforeach (t : HT) (visit : Nat → Node → Int × Bool) : R Walk :=
  tableWalk hf visit { t := t, idx := 0, seen := [], res := 0 } 0 t.bound

/-- `cstl_hash_foreach`: (table, result, visited elements in order) -/
def foreach (t : HT) (visit : Nat → Node → Int × Bool) : R (HT × Int × List Node) := do
  let t1 ← rehash hf t
  let w ← hforeach hf t1 visit
  pure (w.t, w.res, w.seen.reverse)

/-- `cstl_hash_foreach_const`: the callback cannot touch the table -/
def foreachConst (t : HT) (visit : Nat → Node → Int) : R (Int × List Node) := do
  let w ← hforeach hf t (fun i n => (visit i n, false))
  pure (w.res, w.seen.reverse)

/-- the walk of `cstl_hash_clear`: every element is handed to `clr` (which returns nothing) -/
def clearWalk (t : HT) (withCb : Bool) : R Walk :=
  if withCb then hforeach hf t (fun _ _ => (0, false))
  else pure { t := t, idx := 0, seen := [], res := 0 }

/-- `free(h->bucket.at)` -/
def freeArr (t : HT) : R Unit := if t.bk.size ≠ 0 then logEv .free else pure ()

/-- `cstl_hash_clear(h, clr)`, repaired (defect #3: the current hash function
is reset as well).  `withCb = false` is `clr == NULL`.  Returns the emptied
table and the elements handed to `clr`, in order. -/
def clear (t : HT) (withCb : Bool) : R (HT × List Node) := do
  let w ← clearWalk hf t withCb
  freeArr t
  pure ({ w.t with bk := #[], count := 0, hash := none, rhHash := none, size := 0 }, w.seen.reverse)

end

end Cstl.Hash
