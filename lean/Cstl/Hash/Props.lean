import Cstl.Hash.PropsC03
import Cstl.Hash.PropsC04
import Cstl.Hash.PropsC19
import Cstl.Hash.PropsC17
