import Cstl.Hash.Model
