import Cstl.Hash.Examples
/-
C03 — Hash lookups stay exact while the table is incrementally rehashed.

Property theorems only.  `hf` is an arbitrary hash-function family (no in-range
assumption); `R.Spec m P` reads: `m` returns a value satisfying `P`, or stops
with `abort` (which C17 ties to an out-of-range hash result) — it never reads
or writes outside the bucket array and never goes through NULL.
The abstract specification is the multiset `nodes t` of (key, id) nodes.
-/
namespace Cstl.Hash

variable (hf : HashId → Nat → Nat → Nat)

/-- the table left by `cstl_hash_init` satisfies the invariant -/
theorem inv_init : Inv hf HT.init := HT.init_inv hf

/-- **insert**: the element is added to the multiset, nothing else changes; the
invariant (nodes new-placed or old-placed in a dirty bucket, clean buckets hold
only new-placed nodes, distinct identities, size = number of nodes, geometry
within capacity) is preserved — whatever stage a pending rehash is in. -/
theorem insert_exact {t : HT} (k e : Nat) (inv : Inv hf t) (hr : t.hash.isSome)
    (hfresh : ∀ n ∈ nodes t, n.id ≠ e) :
    (insert hf t k e).Spec (fun _ t' => Inv hf t' ∧
      List.Perm (nodes t') ({ key := k, id := e } :: nodes t) ∧ t'.size = t.size + 1) :=
  (insert_spec hf k e inv hr hfresh).mono (fun _ _ h => ⟨h.1, h.2.1, h.2.2.1⟩)

example : (insert Ex.hf0 Ex.tPending 7 13).Spec (fun _ t' => Inv Ex.hf0 t' ∧
    List.Perm (nodes t') ({ key := 7, id := 13 } :: nodes Ex.tPending) ∧ t'.size = 4) :=
  insert_exact Ex.hf0 7 13 Ex.tPending_inv rfl (by simp [nodes, Ex.tPending])

/-- **find**: the multiset is unchanged; only live elements with the key are
offered to the visit function, each at most once; the answer is the accepted
one; if none is accepted all of them were offered; without a visit function
some element with the key is returned (none only if there is none). -/
theorem find_exact {t : HT} (k : Nat) (acc : Option (Nat → Node → Bool)) (inv : Inv hf t) (hr : t.hash.isSome) :
    (find hf t k acc).Spec (fun _ r => Inv hf r.1 ∧ List.Perm (nodes r.1) (nodes t) ∧ r.1.size = t.size ∧
      ∃ cands, List.Perm cands ((nodes t).filter (fun n => n.key = k)) ∧ FindOK acc cands r.2.1 r.2.2) :=
  (find_spec hf k acc inv hr).mono (fun _ _ h => ⟨h.1, h.2.1, h.2.2.1, h.2.2.2.2⟩)

example : (find Ex.hf0 Ex.tPending 5 (some (fun _ _ => false))).Spec (fun _ r =>
    Inv Ex.hf0 r.1 ∧ List.Perm (nodes r.1) (nodes Ex.tPending) ∧ r.1.size = 3 ∧
    ∃ cands, List.Perm cands ((nodes Ex.tPending).filter (fun n => n.key = 5)) ∧
      FindOK (some (fun _ _ => false)) cands r.2.1 r.2.2) :=
  find_exact Ex.hf0 5 _ Ex.tPending_inv rfl

/-- what `FindOK` means for the caller: every offer is a live element with the
key, no element is offered twice; a returned element is live and has the key;
nothing returned and nothing accepted ⇒ every live element with the key was
offered; no visit function and nothing returned ⇒ no live element has the key -/
theorem find_answers {t : HT} (inv : Inv hf t) {k : Nat} {acc : Option (Nat → Node → Bool)}
    {cands offers : List Node} {r : Option Node}
    (hc : List.Perm cands ((nodes t).filter (fun n => n.key = k))) (ok : FindOK acc cands r offers) :
    (∀ n ∈ offers, n ∈ nodes t ∧ n.key = k) ∧ (offers.map (·.id)).Nodup ∧
    (∀ n, r = some n → n ∈ nodes t ∧ n.key = k) ∧
    (r = none → ∀ n ∈ nodes t, n.key = k → (acc = none → False) ∧ (acc ≠ none → n ∈ offers)) := by
  have hsub : ∀ n ∈ cands, n ∈ nodes t ∧ n.key = k := by
    intro n hn
    have := hc.subset hn
    simpa using this
  have hcn : (cands.map (·.id)).Nodup :=
    (hc.map _).nodup_iff.mpr (List.Nodup.sublist ((List.filter_sublist).map _) inv.nodup)
  refine ⟨fun n hn => hsub n (ok.pre.subset hn), List.Nodup.sublist (ok.pre.sublist.map _) hcn, ?_, ?_⟩
  · intro n hn
    cases acc with
    | none =>
      have := (ok.noVisit rfl).2
      rw [hn] at this
      exact hsub n (List.mem_of_mem_head? this.symm)
    | some f =>
      have := (ok.accepted f rfl n hn).1
      exact hsub n (ok.pre.subset (List.mem_of_getLast? this))
  · intro hr n hn hk
    have hnc : n ∈ cands := hc.symm.subset (by simpa using ⟨hn, hk⟩)
    refine ⟨fun ha => ?_, fun ha => ?_⟩
    · have := (ok.noVisit ha).2
      rw [hr] at this
      have : cands = [] := List.head?_eq_none_iff.mp this.symm
      rw [this] at hnc; simp at hnc
    · cases acc with
      | none => exact absurd rfl ha
      | some f => rw [ok.all f rfl hr]; exact hnc

/-- **erase** removes exactly the object passed (`k` = what its key field holds)
and is a no-op for an object that is not in the table -/
theorem erase_exact {t : HT} (k e : Nat) (inv : Inv hf t) (hr : t.hash.isSome)
    (hkey : ∀ n ∈ nodes t, n.id = e → n.key = k) :
    (erase hf t k e).Spec (fun _ t' => Inv hf t' ∧
      ((∀ n ∈ nodes t, n.id ≠ e) → List.Perm (nodes t') (nodes t) ∧ t'.size = t.size) ∧
      (∀ n ∈ nodes t, n.id = e → List.Perm (nodes t) (n :: nodes t') ∧ t'.size + 1 = t.size)) :=
  (erase_spec hf k e inv hr hkey).mono (fun _ _ h => ⟨h.1, h.2.2⟩)

example : (erase Ex.hf0 Ex.tPending 5 11).Spec (fun _ t' => Inv Ex.hf0 t' ∧
    ((∀ n ∈ nodes Ex.tPending, n.id ≠ 11) → List.Perm (nodes t') (nodes Ex.tPending) ∧ t'.size = 3) ∧
    (∀ n ∈ nodes Ex.tPending, n.id = 11 → List.Perm (nodes Ex.tPending) (n :: nodes t') ∧ t'.size + 1 = 3)) :=
  erase_exact Ex.hf0 5 11 Ex.tPending_inv rfl (by simp [nodes, Ex.tPending])

/-- the reported size is the number of live elements -/
theorem size_exact {t : HT} (inv : Inv hf t) : t.sizeOf = (nodes t).length := inv.size_eq

/-- **resize** (grow, shrink, other function, also while an earlier one is
pending; every allocation outcome) keeps the multiset and the invariant; a
request that cannot be satisfied leaves the table undisturbed -/
theorem resize_exact (oracle : Nat → Bool) {t : HT} (n : Nat) (f : Option HashId) (inv : Inv hf t) :
    (resize hf oracle t n f).Spec (fun _ t' => Inv hf t' ∧ List.Perm (nodes t') (nodes t) ∧ t'.size = t.size ∧
      (¬ Satisfiable oracle t n → t' = t)) :=
  (resize_spec hf oracle n f inv).mono (fun _ _ h => ⟨h.1, h.2.1, h.2.2.1, h.2.2.2.2.1⟩)

example : (resize Ex.hf0 Ex.yes Ex.tPending 3 none).Spec (fun _ t' => Inv Ex.hf0 t' ∧
    List.Perm (nodes t') (nodes Ex.tPending) ∧ t'.size = 3 ∧ (¬ Satisfiable Ex.yes Ex.tPending 3 → t' = Ex.tPending)) :=
  resize_exact Ex.hf0 Ex.yes 3 none Ex.tPending_inv

/-- forced **rehash** keeps the multiset, ends with no rehash pending -/
theorem rehash_exact {t : HT} (inv : Inv hf t) :
    (rehash hf t).Spec (fun _ t' => Inv hf t' ∧ List.Perm (nodes t') (nodes t) ∧ t'.size = t.size ∧
      t'.rhHash = none) :=
  (rehash_spec hf inv).mono (fun _ _ h => ⟨h.1, h.2.2.2.2.2.1, h.2.2.2.2.1, h.2.1⟩)

/-- **shrink-to-fit** keeps the multiset (every allocation outcome) -/
theorem shrink_exact (oracle : Nat → Bool) {t : HT} (inv : Inv hf t) :
    (shrink hf oracle t).Spec (fun _ t' => Inv hf t' ∧ List.Perm (nodes t') (nodes t) ∧ t'.size = t.size) :=
  (shrink_spec hf oracle inv).mono (fun _ _ h => ⟨h.1, h.2.1, h.2.2.1⟩)

/-- every operation preserves the system invariant (two tables, element key
fields) and acts on the multisets as the specification says -/
theorem step_inv {s : Sys} (si : SysInv hf s) (op : Op) (hv : Valid s op) :
    (step hf s op).Spec (fun _ r => SysInv hf r.1 ∧ SpecStep (absOf s) (absOf r.1) op r.2) :=
  (step_refines hf si op hv).mono (fun _ _ h => h.1)

/-- **History theorem**: for every history of insert / find / erase / resize /
rehash / shrink / swap / foreach / foreach_const / clear on two tables from
their initial state that stays inside the documented domain — every key set,
every sequence of bucket counts and hash functions, every visit function,
every allocation outcome, every `hf` — the run either stops with `abort` or
ends in a state satisfying the invariant, having answered every operation as
the multiset specification prescribes. -/
theorem run_exact (ops : List Op) (hv : ValidFrom hf Sys.init ops) :
    (run hf Sys.init ops).Spec (fun _ r => SysInv hf r.1 ∧ SpecRun (absOf Sys.init) ops r.2 (absOf r.1)) :=
  (run_refines hf ops hv).mono (fun _ _ h => h.1)

/-- hence the invariant holds in every reachable state -/
theorem run_inv (ops : List Op) (hv : ValidFrom hf Sys.init ops) {r : Sys × List Out}
    (h : (run hf Sys.init ops).val = .ok r) : Inv hf r.1.a ∧ Inv hf r.1.b :=
  let si := ((run_refines hf ops hv).of_ok h).1.1
  ⟨si.ia, si.ib⟩

/-- the hypotheses of the history theorem are satisfiable (here: first resize,
insert, lookup without a visit function) -/
example : ∃ ops : List Op, ValidFrom Ex.hf0 Sys.init ops ∧ ops.length = 3 := by
  refine ⟨[.resize false 2 (some 1) Ex.yes, .insert false 1 10, .find false 1 none], ?_, rfl⟩
  refine ⟨trivial, fun s1 o1 h1 => ?_⟩
  have e1 : (step Ex.hf0 Sys.init (.resize false 2 (some 1) Ex.yes)).val =
      .ok ({ a := Ex.t1, b := HT.init, key := fun _ => 0 }, .unit) := rfl
  rw [e1] at h1; cases h1
  refine ⟨⟨rfl, by simp [nodes, Ex.t1], by simp [nodes, HT.init]⟩, fun s2 o2 h2 => ?_⟩
  have e2 : (step Ex.hf0 { a := Ex.t1, b := HT.init, key := fun _ => 0 } (.insert false 1 10)).val =
      .ok ({ a := Ex.t2, b := HT.init, key := fun x => if x = 10 then 1 else 0 }, .unit) := rfl
  rw [e2] at h2; cases h2
  exact ⟨rfl, fun _ _ _ => trivial⟩

end Cstl.Hash
