import Cstl.Hash.Inv
/-
Specifications of the keyed operations of src/hash.c (insert, find, erase)
against the multiset of nodes, on top of the invariant.
-/
namespace Cstl.Hash

variable (hf : HashId → Nat → Nat → Nat)

theorem Geom.setSize {t : HT} (g : Geom t) (s : Nat) : Geom { t with size := s } :=
  ⟨g.cnt_le, g.unready, g.ready, g.pend⟩

theorem Placed.setSize {t : HT} (p : Placed hf t) (s : Nat) : Placed hf { t with size := s } :=
  ⟨p.beyond, p.settled, p.pending⟩

theorem nodes_setSize (t : HT) (s : Nat) : nodes { t with size := s } = nodes t := rfl

/-- what a keyed operation leaves of the geometry (C19) -/
structure KeyedGeom (t t' : HT) (k : Nat) (tr : Tr) : Prop where
  bksz : t'.bk.size = t.bk.size
  cst : t'.cst = t.cst
  evs : tr.evs = []
  reloc : tr.reloc ≤ 3
  effCount : t'.effCount = t.effCount
  effHash : t'.effHash = t.effHash
  ready : t'.hash.isSome
  pos : ∀ c ∈ tr.calls, 1 ≤ c.m
  settled_case : t.rhHash = none → t'.rhHash = none ∧ t'.count = t.count ∧ t'.hash = t.hash ∧
    ∃ h, t.hash = some h ∧ tr.calls = [⟨h, k, t.count⟩]
  pending_case : t.rhHash.isSome →
    (t'.rhHash = none ∧ t'.count = t.rhCount ∧ t'.hash = t.rhHash) ∨
    (t'.rhHash = t.rhHash ∧ t'.count = t.count ∧ t'.hash = t.hash ∧ t'.rhCount = t.rhCount ∧
      t.clean + 1 ≤ t'.clean ∧ t'.clean < t'.count)

theorem KeyedRes.geom {t t' : HT} {k j : Nat} {tr : Tr} (r : KeyedRes hf t k t' j tr) : KeyedGeom t t' k tr :=
  ⟨r.bksz, r.cst, r.evs, r.reloc, r.effCount, r.effHash, r.ready, r.pos,
    fun hn => by
      obtain ⟨h1, h, hh, htr⟩ := r.settled_case hn
      subst h1
      exact ⟨hn, rfl, rfl, h, hh, by rw [htr]⟩,
    r.pending_case⟩

/-! ### insert -/

theorem insert_unfold (t : HT) (k e : Nat) :
    insert hf t k e = (keyed hf t k >>= fun r => pushHead r.1 r.2 { key := k, id := e } >>= fun t2 =>
      pure { t2 with size := t2.size + 1 }) := rfl

theorem insert_spec {t : HT} (k e : Nat) (inv : Inv hf t) (hr : t.hash.isSome)
    (hfresh : ∀ n ∈ nodes t, n.id ≠ e) :
    (insert hf t k e).Spec (fun tr t' => Inv hf t' ∧ List.Perm (nodes t') ({ key := k, id := e } :: nodes t) ∧
      t'.size = t.size + 1 ∧ KeyedGeom t t' k tr) := by
  obtain ⟨h, hh⟩ := Option.isSome_iff_exists.mp hr
  rw [insert_unfold]
  refine R.Spec.bind (keyed_spec hf k inv hh) ?_
  rintro tr1 ⟨t1, j⟩ r
  simp only at r
  refine R.Spec.bind (pushHead_spec r.jlt) ?_
  rintro tr2 t2 ⟨rfl, b, hb, rfl⟩
  refine R.Spec.pure ?_
  have sg := wr_sameGeom t1 j { b with chain := { key := k, id := e } :: b.chain }
  have hperm : List.Perm (nodes (wr t1 j { b with chain := { key := k, id := e } :: b.chain }))
      ({ key := k, id := e } :: nodes t) := by
    have hw := nodes_wr_perm (b' := { b with chain := { key := k, id := e } :: b.chain }) hb
    have h4 : List.Perm (nodes t1 ++ { key := k, id := e } :: b.chain) (({ key := k, id := e } :: nodes t1) ++ b.chain) := by
      simpa using (List.perm_middle (a := ({ key := k, id := e } : Node)) (l₁ := nodes t1) (l₂ := b.chain))
    exact ((List.perm_append_right_iff b.chain).mp (hw.trans h4)).trans (List.Perm.cons _ r.perm)
  have hplaced : Placed hf (wr t1 j { b with chain := { key := k, id := e } :: b.chain }) := by
    refine Placed.transfer hf sg r.inv.toGeom r.inv.toPlaced ?_
    intro j' b' hb'
    rw [wr_get] at hb'
    by_cases hjj : j = j'
    · subst hjj
      simp only [if_true, r.jlt] at hb'
      cases hb'
      refine ⟨b, hb, Or.inl ⟨rfl, ?_⟩⟩
      intro n hn
      rcases List.mem_cons.mp hn with rfl | hn
      · exact Or.inr (r.target e)
      · exact Or.inl hn
    · simp only [hjj, if_false] at hb'
      exact ⟨b', hb', Or.inl ⟨rfl, fun n hn => Or.inl hn⟩⟩
  refine ⟨⟨(sg.geom r.inv.toGeom).setSize _, hplaced.setSize hf _, ?_, ?_⟩, hperm, ?_, ?_⟩
  · rw [nodes_setSize]
    have := (hperm.map (·.id)).nodup_iff.mpr
    apply this
    simp only [List.map_cons, List.nodup_cons]
    refine ⟨?_, inv.nodup⟩
    intro hmem
    obtain ⟨n, hn, hid⟩ := List.mem_map.mp hmem
    exact hfresh n hn hid
  · rw [nodes_setSize, hperm.length_eq]
    simp [wr, r.size, inv.size_eq]
  · simp [wr, r.size]
  · have g := r.geom
    exact ⟨by simp [wr, g.bksz], by simp [wr, g.cst], by simp [g.evs], by simpa using g.reloc,
      g.effCount, g.effHash,
      by simpa [wr] using g.ready, by simpa using g.pos, by simpa [wr] using g.settled_case,
      by simpa [wr] using g.pending_case⟩

end Cstl.Hash

namespace Cstl.Hash
variable (hf : HashId → Nat → Nat → Nat)

/-! ### find -/

/-- What `cstl_hash_find` may answer when `cands` are the live elements with the
key: only they are offered, each at most once and in their order; without a
visit function nothing is offered and some candidate is returned; with one, the
returned element is the last one offered, it was accepted, every earlier offer
was rejected, and if nothing is returned all candidates were offered and
rejected. -/
structure FindOK (acc : Option (Nat → Node → Bool)) (cands : List Node) (r : Option Node)
    (offers : List Node) : Prop where
  pre : offers <+: cands
  noVisit : acc = none → offers = [] ∧ r = cands.head?
  rejected : ∀ f, acc = some f → ∀ (i : Nat) (n : Node), offers[i]? = some n →
    (i + 1 < offers.length ∨ r = none) → f i n = false
  accepted : ∀ f, acc = some f → ∀ n, r = some n → offers.getLast? = some n ∧ f (offers.length - 1) n = true
  all : ∀ f, acc = some f → r = none → offers = cands

theorem findWalk_spec (k : Nat) (acc : Option (Nat → Node → Bool)) :
    ∀ (l offs : List Node), ∃ pre, (findWalk k acc l offs).2 = offs.reverse ++ pre ∧
      pre <+: l.filter (fun n => n.key = k) ∧
      (acc = none → pre = [] ∧ (findWalk k acc l offs).1 = (l.filter (fun n => n.key = k)).head?) ∧
      (∀ f, acc = some f →
        (∀ (i : Nat) (n : Node), pre[i]? = some n → (i + 1 < pre.length ∨ (findWalk k acc l offs).1 = none) →
            f (offs.length + i) n = false) ∧
        (∀ n, (findWalk k acc l offs).1 = some n → pre.getLast? = some n ∧ f (offs.length + pre.length - 1) n = true) ∧
        ((findWalk k acc l offs).1 = none → pre = l.filter (fun n => n.key = k)))
  | [], offs => by
    refine ⟨[], by simp [findWalk], by simp, fun _ => by simp [findWalk], fun f _ => ?_⟩
    simp [findWalk]
  | n :: ns, offs => by
    by_cases hk : n.key = k
    · cases acc with
      | none =>
        refine ⟨[], by simp [findWalk, hk], by simp, fun _ => by simp [findWalk, hk], fun f hf' => (by cases hf')⟩
      | some f =>
        by_cases ha : f offs.length n = true
        · refine ⟨[n], by simp [findWalk, hk, ha], by simp [hk], (fun h => by cases h), fun f' hf' => ?_⟩
          cases hf'
          simp [findWalk, hk, ha]
        · obtain ⟨pre, h1, h2, _, h4⟩ := findWalk_spec k (some f) ns (n :: offs)
          obtain ⟨h4a, h4b, h4c⟩ := h4 f rfl
          have hw : findWalk k (some f) (n :: ns) offs = findWalk k (some f) ns (n :: offs) := by
            simp [findWalk, hk, ha]
          rw [hw]
          refine ⟨n :: pre, by simp [h1], ?_, (fun h => by cases h), fun f' hf' => ?_⟩
          · simp only [hk, decide_true, List.filter_cons_of_pos]
            exact List.prefix_cons_inj n |>.mpr h2
          · cases hf'
            refine ⟨?_, ?_, ?_⟩
            · intro i m hm hi
              cases i with
              | zero =>
                simp at hm; subst hm
                simpa using ha
              | succ i =>
                simp at hm
                have := h4a i m hm (by
                  rcases hi with hi | hi
                  · left; simp at hi; omega
                  · right; exact hi)
                simp only [List.length_cons] at this
                rw [show offs.length + (i + 1) = offs.length + 1 + i by omega]
                exact this
            · intro m hm
              obtain ⟨g1, g2⟩ := h4b m hm
              have hne : pre ≠ [] := by intro h; subst h; simp at g1
              refine ⟨by rw [List.getLast?_cons_of_ne_nil hne]; exact g1, ?_⟩
              simp only [List.length_cons] at g2 ⊢
              rw [show offs.length + (pre.length + 1) - 1 = offs.length + 1 + pre.length - 1 by omega]
              exact g2
            · intro hm
              simp only [hk, decide_true, List.filter_cons_of_pos]
              rw [h4c hm]
    · obtain ⟨pre, h1, h2, h3, h4⟩ := findWalk_spec k acc ns offs
      have hw : findWalk k acc (n :: ns) offs = findWalk k acc ns offs := by
        simp [findWalk, hk]
      rw [hw]
      have hfil : (n :: ns).filter (fun n => n.key = k) = ns.filter (fun n => n.key = k) := by
        simp [hk]
      rw [hfil]
      exact ⟨pre, h1, h2, h3, h4⟩

theorem findWalk_ok (k : Nat) (acc : Option (Nat → Node → Bool)) (l : List Node) :
    FindOK acc (l.filter (fun n => n.key = k)) (findWalk k acc l []).1 (findWalk k acc l []).2 := by
  obtain ⟨pre, h1, h2, h3, h4⟩ := findWalk_spec k acc l []
  simp only [List.reverse_nil, List.nil_append] at h1
  rw [h1]
  refine ⟨h2, h3, fun f hf' => ?_, fun f hf' => ?_, fun f hf' => (h4 f hf').2.2⟩
  · intro i n hn hi
    have := (h4 f hf').1 i n hn hi
    simpa using this
  · intro n hn
    have := (h4 f hf').2.1 n hn
    simpa using this

end Cstl.Hash

namespace Cstl.Hash
variable (hf : HashId → Nat → Nat → Nat)

theorem filter_bucket_perm {t : HT} {j : Nat} {b : Bucket} {k : Nat} (hb : t.bk[j]? = some b)
    (hall : ∀ (i : Nat) (b' : Bucket) (n : Node), t.bk[i]? = some b' → n ∈ b'.chain → n.key = k → i = j) :
    List.Perm ((nodes t).filter (fun n => n.key = k)) (b.chain.filter (fun n => n.key = k)) := by
  have h1 := nodes_wr_perm (b' := { b with chain := [] }) hb
  simp only [List.append_nil] at h1
  have h2 := h1.filter (fun n => n.key = k)
  rw [List.filter_append] at h2
  have h3 : (nodes (wr t j { b with chain := [] })).filter (fun n => n.key = k) = [] := by
    apply List.filter_eq_nil_iff.mpr
    intro n hn
    obtain ⟨i, b', hb', hnb⟩ := mem_nodes.mp hn
    rw [wr_get] at hb'
    by_cases hij : j = i
    · subst hij
      have hlt := (Array.getElem?_eq_some_iff.mp hb).1
      simp only [if_true, hlt] at hb'
      cases hb'
      simp at hnb
    · simp only [hij, if_false] at hb'
      intro hk
      have := hall i b' n hb' hnb (by simpa using hk)
      exact hij this.symm
  rw [h3, List.nil_append] at h2
  exact h2.symm

theorem find_unfold (t : HT) (k : Nat) (acc : Option (Nat → Node → Bool)) :
    find hf t k acc = (keyed hf t k >>= fun r => rd r.1 r.2 >>= fun b =>
      pure (r.1, findWalk k acc b.chain [])) := rfl

theorem find_spec {t : HT} (k : Nat) (acc : Option (Nat → Node → Bool)) (inv : Inv hf t) (hr : t.hash.isSome) :
    (find hf t k acc).Spec (fun tr r => Inv hf r.1 ∧ List.Perm (nodes r.1) (nodes t) ∧ r.1.size = t.size ∧
      KeyedGeom t r.1 k tr ∧
      ∃ cands, List.Perm cands ((nodes t).filter (fun n => n.key = k)) ∧ FindOK acc cands r.2.1 r.2.2) := by
  obtain ⟨h, hh⟩ := Option.isSome_iff_exists.mp hr
  rw [find_unfold]
  refine R.Spec.bind (keyed_spec hf k inv hh) ?_
  rintro tr1 ⟨t1, j⟩ r
  simp only at r
  refine R.Spec.bind (rd_spec r.jlt) ?_
  rintro tr2 b ⟨rfl, hb⟩
  refine R.Spec.pure ?_
  have g := r.geom
  refine ⟨r.inv, r.perm, r.size, ?_, b.chain.filter (fun n => n.key = k), ?_, findWalk_ok k acc b.chain⟩
  · exact ⟨g.bksz, g.cst, by simp [g.evs], by simpa using g.reloc, g.effCount, g.effHash, g.ready,
      by simpa using g.pos, by simpa using g.settled_case, g.pending_case⟩
  · exact (filter_bucket_perm hb r.allAt).symm.trans (r.perm.filter _)

end Cstl.Hash

namespace Cstl.Hash
variable (hf : HashId → Nat → Nat → Nat)

/-! ### erase -/

theorem unlink_some {e : Nat} : ∀ {c c' : List Node}, unlink e c = some c' →
    ∃ n, n ∈ c ∧ n.id = e ∧ List.Perm c (n :: c') ∧ ∀ m ∈ c', m ∈ c
  | [], c', h => by simp [unlink] at h
  | x :: xs, c', h => by
    unfold unlink at h
    by_cases hx : x.id = e
    · simp only [hx, if_true] at h
      cases h
      exact ⟨x, by simp, hx, List.Perm.refl _, fun m hm => by simp [hm]⟩
    · simp only [hx, if_false] at h
      cases hu : unlink e xs with
      | none => simp [hu] at h
      | some c'' =>
        simp only [hu, Option.map_some] at h
        cases h
        obtain ⟨n, hn, hid, hp, hs⟩ := unlink_some hu
        refine ⟨n, by simp [hn], hid, ?_, ?_⟩
        · exact (List.Perm.cons x hp).trans (List.Perm.swap n x c'')
        · intro m hm
          rcases List.mem_cons.mp hm with rfl | hm
          · simp
          · simp [hs m hm]

theorem unlink_none {e : Nat} : ∀ {c : List Node}, unlink e c = none → ∀ n ∈ c, n.id ≠ e
  | [], _, n, hn => by simp at hn
  | x :: xs, h, n, hn => by
    unfold unlink at h
    by_cases hx : x.id = e
    · simp [hx] at h
    · simp only [hx, if_false] at h
      have hu : unlink e xs = none := by
        cases hu : unlink e xs with
        | none => rfl
        | some c => simp [hu] at h
      rcases List.mem_cons.mp hn with rfl | hn
      · exact hx
      · exact unlink_none hu n hn

theorem eq_of_nodup_map_id : ∀ {l : List Node}, (l.map (·.id)).Nodup → ∀ {a b : Node}, a ∈ l → b ∈ l →
    a.id = b.id → a = b
  | [], _, a, _, ha, _, _ => by simp at ha
  | x :: xs, hnd, a, b, ha, hb, hab => by
    simp only [List.map_cons, List.nodup_cons, List.mem_map, not_exists, not_and] at hnd
    rcases List.mem_cons.mp ha with ha1 | ha1
    · rcases List.mem_cons.mp hb with hb1 | hb1
      · rw [ha1, hb1]
      · subst ha1; exact absurd hab.symm (hnd.1 b hb1)
    · rcases List.mem_cons.mp hb with hb1 | hb1
      · subst hb1; exact absurd hab (hnd.1 a ha1)
      · exact eq_of_nodup_map_id hnd.2 ha1 hb1 hab

theorem erase_unfold (t : HT) (k e : Nat) :
    erase hf t k e = (keyed hf t k >>= fun r => rd r.1 r.2 >>= fun b =>
      match unlink e b.chain with
      | some c => pure { wr r.1 r.2 { b with chain := c } with size := r.1.size - 1 }
      | none => pure r.1) := rfl

theorem erase_spec {t : HT} (k e : Nat) (inv : Inv hf t) (hr : t.hash.isSome)
    (hkey : ∀ n ∈ nodes t, n.id = e → n.key = k) :
    (erase hf t k e).Spec (fun tr t' => Inv hf t' ∧ KeyedGeom t t' k tr ∧
      ((∀ n ∈ nodes t, n.id ≠ e) → List.Perm (nodes t') (nodes t) ∧ t'.size = t.size) ∧
      (∀ n ∈ nodes t, n.id = e → List.Perm (nodes t) (n :: nodes t') ∧ t'.size + 1 = t.size)) := by
  obtain ⟨h, hh⟩ := Option.isSome_iff_exists.mp hr
  rw [erase_unfold]
  refine R.Spec.bind (keyed_spec hf k inv hh) ?_
  rintro tr1 ⟨t1, j⟩ r
  simp only at r
  refine R.Spec.bind (rd_spec r.jlt) ?_
  rintro tr2 b ⟨rfl, hb⟩
  have g := r.geom
  have hbsub : ∀ n ∈ b.chain, n ∈ nodes t := fun n hn => r.perm.subset (mem_nodes.mpr ⟨j, b, hb, hn⟩)
  cases hu : unlink e b.chain with
  | none =>
    simp only
    refine R.Spec.pure ⟨r.inv, ?_, fun _ => ⟨r.perm, r.size⟩, ?_⟩
    · exact ⟨g.bksz, g.cst, by simp [g.evs], by simpa using g.reloc, g.effCount, g.effHash, g.ready,
        by simpa using g.pos, by simpa using g.settled_case, g.pending_case⟩
    · intro n hn hid
      exfalso
      have hn1 : n ∈ nodes t1 := r.perm.symm.subset hn
      obtain ⟨i, b', hb', hnb⟩ := mem_nodes.mp hn1
      have := r.allAt i b' n hb' hnb (hkey n hn hid)
      subst this
      rw [hb] at hb'; cases hb'
      exact unlink_none hu n hnb hid
  | some c =>
    simp only
    obtain ⟨n, hn, hid, hp, hs⟩ := unlink_some hu
    refine R.Spec.pure ?_
    have sg := wr_sameGeom t1 j { b with chain := c }
    have hw := nodes_wr_perm (b' := { b with chain := c }) hb
    -- nodes t1 ~ n :: nodes (wr ..)
    have hperm1 : List.Perm (nodes t1) (n :: nodes (wr t1 j { b with chain := c })) := by
      have h1 : List.Perm (nodes (wr t1 j { b with chain := c }) ++ (n :: c)) (nodes t1 ++ c) :=
        (List.Perm.append_left _ hp.symm).trans hw
      have h2 : List.Perm ((n :: nodes (wr t1 j { b with chain := c })) ++ c) (nodes t1 ++ c) := by
        refine List.Perm.trans ?_ h1
        simpa using (List.perm_middle (a := n) (l₁ := nodes (wr t1 j { b with chain := c })) (l₂ := c)).symm
      exact ((List.perm_append_right_iff c).mp h2).symm
    have hpermt : List.Perm (nodes t) (n :: nodes (wr t1 j { b with chain := c })) := r.perm.symm.trans hperm1
    have hplaced : Placed hf (wr t1 j { b with chain := c }) := by
      refine Placed.transfer hf sg r.inv.toGeom r.inv.toPlaced ?_
      intro j' b' hb'
      rw [wr_get] at hb'
      by_cases hjj : j = j'
      · subst hjj
        simp only [if_true, r.jlt] at hb'
        cases hb'
        exact ⟨b, hb, Or.inl ⟨rfl, fun m hm => Or.inl (hs m hm)⟩⟩
      · simp only [hjj, if_false] at hb'
        exact ⟨b', hb', Or.inl ⟨rfl, fun m hm => Or.inl hm⟩⟩
    have hlen : t.size = (nodes (wr t1 j { b with chain := c })).length + 1 := by
      rw [inv.size_eq, hpermt.length_eq]; simp
    refine ⟨⟨(sg.geom r.inv.toGeom).setSize _, hplaced.setSize hf _, ?_, ?_⟩, ?_, ?_, ?_⟩
    · rw [nodes_setSize]
      have := (hpermt.map (·.id)).nodup_iff.mp inv.nodup
      simp only [List.map_cons, List.nodup_cons] at this
      exact this.2
    · rw [nodes_setSize]
      simp only [r.size]
      omega
    · exact ⟨by simp [wr, g.bksz], by simp [wr, g.cst], by simp [g.evs], by simpa using g.reloc,
        g.effCount, g.effHash, by simpa [wr] using g.ready, by simpa using g.pos,
        by simpa [wr] using g.settled_case, by simpa [wr] using g.pending_case⟩
    · intro hno
      exact absurd hid (hno n (hbsub n hn))
    · intro n' hn' hid'
      have : n' = n := eq_of_nodup_map_id inv.nodup hn' (hbsub n hn) (by rw [hid, hid'])
      subst this
      refine ⟨by rw [nodes_setSize]; exact hpermt, ?_⟩
      simp only [r.size]
      omega

end Cstl.Hash
