import Cstl.Hash.Geometry
/-
Fail-stop bookkeeping for ARBITRARY hash functions and ARBITRARY table states
(no invariant needed): an operation stops with `abort` exactly when a hash
result it consulted was >= the bucket count it was asked for (C17 part b).
The only source of `abort` in the model is `__cstl_hash_get_bucket`.
-/
namespace Cstl.Hash

variable (hf : HashId → Nat → Nat → Nat)

theorem FS_noCalls {α : Type} {m : R α} (hc : m.tr.calls = []) (hv : m.val ≠ .error .abort) : m.FailStop hf := by
  unfold R.FailStop
  rw [hc]
  simp [hv]

theorem getBucket_FS (f : Option HashId) (k m : Nat) : (getBucket hf f k m).FailStop hf := by
  cases f with
  | none => exact FS_noCalls hf rfl (by simp [getBucket])
  | some fn =>
    unfold R.FailStop getBucket
    simp only [bind_def, R.bind, logCall]
    by_cases h : m ≤ hf fn k m
    · simp [h, stop, Tr.append, Call.bad]
    · simp [h, pure_def, R.pure, Tr.append, Call.bad]

theorem rd_FS (t : HT) (i : Nat) : (rd t i).FailStop hf := by
  unfold rd
  split
  · exact R.FailStop.pure hf _
  · split
    · exact R.FailStop.stop_ne hf (by simp)
    · exact R.FailStop.stop_ne hf (by simp)

theorem tickReloc_FS : tickReloc.FailStop hf := FS_noCalls hf rfl (by simp [tickReloc])
theorem logEv_FS (e : AllocEv) : (logEv e).FailStop hf := FS_noCalls hf rfl (by simp [logEv])

theorem ite_FS {α : Type} {c : Prop} [Decidable c] {a b : R α} (ha : a.FailStop hf) (hb : b.FailStop hf) :
    (if c then a else b).FailStop hf := by
  split
  · exact ha
  · exact hb

theorem pushHead_FS (t : HT) (j : Nat) (n : Node) : (pushHead t j n).FailStop hf :=
  R.FailStop.bind hf (rd_FS hf t j) (fun _ _ => R.FailStop.pure hf _)

theorem reinsert_FS : ∀ (ns : List Node) (t : HT), (reinsert hf t ns).FailStop hf
  | [], t => R.FailStop.pure hf t
  | n :: ns, t => by
    rw [reinsert_cons]
    exact R.FailStop.bind hf (getBucket_FS hf _ _ _) (fun j _ =>
      R.FailStop.bind hf (pushHead_FS hf t j n) (fun t' _ => reinsert_FS ns t'))

theorem cleanBucket_FS (t : HT) (i : Nat) : (cleanBucket hf t i).FailStop hf := by
  rw [cleanBucket_unfold]
  refine R.FailStop.bind hf (rd_FS hf t i) (fun b _ => ?_)
  refine ite_FS hf (R.FailStop.pure hf t) ?_
  refine R.FailStop.bind hf (reinsert_FS hf _ _) (fun t2 _ => ?_)
  refine R.FailStop.bind hf (tickReloc_FS hf) (fun _ _ => ?_)
  exact R.FailStop.bind hf (rd_FS hf t2 i) (fun _ _ => R.FailStop.pure hf _)

theorem skipClean_FS : ∀ (d : Nat) (t : HT), (skipClean t d).FailStop hf
  | 0, t => R.FailStop.pure hf t
  | d + 1, t => by
    rw [skipClean_succ]
    refine ite_FS hf ?_ (R.FailStop.pure hf t)
    exact R.FailStop.bind hf (rd_FS hf _ _) (fun b _ => ite_FS hf (skipClean_FS d _) (R.FailStop.pure hf t))

theorem sweep_FS : ∀ (d : Nat) (t : HT) (n : Option Nat), (sweep hf t n d).FailStop hf
  | 0, t, _ => R.FailStop.pure hf t
  | d + 1, t, n => by
    rw [sweep_succ]
    refine ite_FS hf ?_ (R.FailStop.pure hf t)
    exact R.FailStop.bind hf (cleanBucket_FS hf _ _) (fun t' _ => sweep_FS d _ _)

theorem rehashN_FS (t : HT) (n : Option Nat) : (rehashN hf t n).FailStop hf := by
  rw [rehashN_unfold]
  refine R.FailStop.bind hf (skipClean_FS hf _ _) (fun t1 _ => ?_)
  refine R.FailStop.bind hf (sweep_FS hf _ _ _) (fun t2 _ => ?_)
  exact ite_FS hf (R.FailStop.pure hf _) (R.FailStop.pure hf _)

theorem rehash_FS (t : HT) : (rehash hf t).FailStop hf := by
  unfold rehash
  exact ite_FS hf (rehashN_FS hf t none) (R.FailStop.pure hf t)

theorem keyed_FS (t : HT) (k : Nat) : (keyed hf t k).FailStop hf := by
  rw [keyed_unfold]
  refine R.FailStop.bind hf (getBucket_FS hf _ _ _) (fun i _ => ?_)
  refine ite_FS hf ?_ (R.FailStop.pure hf _)
  refine R.FailStop.bind hf (getBucket_FS hf _ _ _) (fun j _ => ?_)
  refine R.FailStop.bind hf (cleanBucket_FS hf _ _) (fun t1 _ => ?_)
  refine R.FailStop.bind hf (cleanBucket_FS hf _ _) (fun t2 _ => ?_)
  exact R.FailStop.bind hf (rehashN_FS hf _ _) (fun t3 _ => R.FailStop.pure hf _)

theorem insert_FS (t : HT) (k e : Nat) : (insert hf t k e).FailStop hf := by
  rw [insert_unfold]
  refine R.FailStop.bind hf (keyed_FS hf t k) (fun r _ => ?_)
  exact R.FailStop.bind hf (pushHead_FS hf _ _ _) (fun _ _ => R.FailStop.pure hf _)

theorem find_FS (t : HT) (k : Nat) (acc : Option (Nat → Node → Bool)) : (find hf t k acc).FailStop hf := by
  rw [find_unfold]
  refine R.FailStop.bind hf (keyed_FS hf t k) (fun r _ => ?_)
  exact R.FailStop.bind hf (rd_FS hf _ _) (fun _ _ => R.FailStop.pure hf _)

theorem erase_FS (t : HT) (k e : Nat) : (erase hf t k e).FailStop hf := by
  rw [erase_unfold]
  refine R.FailStop.bind hf (keyed_FS hf t k) (fun r _ => ?_)
  refine R.FailStop.bind hf (rd_FS hf _ _) (fun b _ => ?_)
  split
  · exact R.FailStop.pure hf _
  · exact R.FailStop.pure hf _

theorem setCapacity_FS (oracle : Nat → Bool) (t : HT) (sz : Nat) : (setCapacity oracle t sz).FailStop hf := by
  unfold setCapacity
  refine ite_FS hf (R.FailStop.pure hf t) (ite_FS hf (R.FailStop.stop_ne hf (by simp)) ?_)
  exact R.FailStop.bind hf (logEv_FS hf _) (fun _ _ => ite_FS hf (R.FailStop.pure hf _) (R.FailStop.pure hf _))

theorem initBuckets_FS : ∀ (d : Nat) (t : HT) (lo : Nat), (initBuckets t lo d).FailStop hf
  | 0, t, _ => R.FailStop.pure hf t
  | d + 1, t, lo => by
    rw [initBuckets_succ]
    exact R.FailStop.bind hf (rd_FS hf _ _) (fun _ _ => initBuckets_FS d _ _)

theorem resizeTail_FS (t : HT) (n : Nat) (f : Option HashId) : (resizeTail t n f).FailStop hf := by
  rw [resizeTail_unfold]
  exact R.FailStop.bind hf (initBuckets_FS hf _ _ _) (fun _ _ => ite_FS hf (R.FailStop.pure hf _) (R.FailStop.pure hf _))

theorem resize_FS (oracle : Nat → Bool) (t : HT) (n : Nat) (f : Option HashId) :
    (resize hf oracle t n f).FailStop hf := by
  rw [resize_unfold]
  refine ite_FS hf (R.FailStop.pure hf t) ?_
  refine R.FailStop.bind hf ?_ (fun t1 _ => ?_)
  · unfold ensureCapacity
    exact ite_FS hf (setCapacity_FS hf _ _ _) (R.FailStop.pure hf t)
  · refine ite_FS hf ?_ (R.FailStop.pure hf _)
    exact R.FailStop.bind hf (rehash_FS hf _) (fun t2 _ => resizeTail_FS hf _ _ _)

theorem shrink_FS (oracle : Nat → Bool) (t : HT) : (shrink hf oracle t).FailStop hf := by
  unfold shrink
  refine ite_FS hf ?_ (R.FailStop.pure hf t)
  exact R.FailStop.bind hf (rehash_FS hf t) (fun t1 _ => setCapacity_FS hf _ _ _)

theorem bucketWalk_cons (visit : Nat → Node → Int × Bool) (w : Walk) (n : Node) (ns : List Node) :
    bucketWalk hf visit w (n :: ns) =
      (visitErase hf w.t (visit w.idx n).2 n >>= fun t' =>
        if (visit w.idx n).1 ≠ 0 then
          pure { t := t', idx := w.idx + 1, seen := n :: w.seen, res := (visit w.idx n).1 }
        else bucketWalk hf visit { t := t', idx := w.idx + 1, seen := n :: w.seen, res := (visit w.idx n).1 } ns) := rfl

theorem visitErase_FS (t : HT) (er : Bool) (n : Node) : (visitErase hf t er n).FailStop hf := by
  unfold visitErase
  exact ite_FS hf (erase_FS hf _ _ _) (R.FailStop.pure hf _)

theorem bucketWalk_FS (visit : Nat → Node → Int × Bool) : ∀ (ns : List Node) (w : Walk),
    (bucketWalk hf visit w ns).FailStop hf
  | [], w => R.FailStop.pure hf w
  | n :: ns, w => by
    rw [bucketWalk_cons]
    refine R.FailStop.bind hf (visitErase_FS hf _ _ _) (fun t' _ => ?_)
    exact ite_FS hf (R.FailStop.pure hf _) (bucketWalk_FS visit ns _)

theorem tableWalk_succ (visit : Nat → Node → Int × Bool) (w : Walk) (i d : Nat) :
    tableWalk hf visit w i (d + 1) =
      if i < w.t.bound ∧ w.res = 0 then
        (rd w.t i >>= fun b => bucketWalk hf visit w b.chain >>= fun w' => tableWalk hf visit w' (i + 1) d)
      else pure w := rfl

theorem tableWalk_FS (visit : Nat → Node → Int × Bool) : ∀ (d : Nat) (w : Walk) (i : Nat),
    (tableWalk hf visit w i d).FailStop hf
  | 0, w, _ => R.FailStop.pure hf w
  | d + 1, w, i => by
    rw [tableWalk_succ]
    refine ite_FS hf ?_ (R.FailStop.pure hf w)
    refine R.FailStop.bind hf (rd_FS hf _ _) (fun b _ => ?_)
    exact R.FailStop.bind hf (bucketWalk_FS hf visit _ _) (fun w' _ => tableWalk_FS visit d _ _)

theorem hforeach_FS (t : HT) (visit : Nat → Node → Int × Bool) : (hforeach hf t visit).FailStop hf :=
  tableWalk_FS hf visit _ _ _

theorem foreach_FS (t : HT) (visit : Nat → Node → Int × Bool) : (foreach hf t visit).FailStop hf :=
  R.FailStop.bind hf (rehash_FS hf t) (fun t1 _ =>
    R.FailStop.bind hf (hforeach_FS hf t1 visit) (fun _ _ => R.FailStop.pure hf _))

theorem foreachConst_FS (t : HT) (visit : Nat → Node → Int) : (foreachConst hf t visit).FailStop hf :=
  R.FailStop.bind hf (hforeach_FS hf t _) (fun _ _ => R.FailStop.pure hf _)

theorem clear_unfold (t : HT) (withCb : Bool) :
    clear hf t withCb = (clearWalk hf t withCb >>= fun w => freeArr t >>= fun _ =>
      pure ({ w.t with bk := #[], count := 0, hash := none, rhHash := none, size := 0 }, w.seen.reverse)) := rfl

theorem clear_FS (t : HT) (withCb : Bool) : (clear hf t withCb).FailStop hf := by
  rw [clear_unfold]
  refine R.FailStop.bind hf ?_ (fun w _ => R.FailStop.bind hf ?_ (fun _ _ => R.FailStop.pure hf _))
  · unfold clearWalk
    exact ite_FS hf (hforeach_FS hf t _) (R.FailStop.pure hf _)
  · unfold freeArr
    exact ite_FS hf (logEv_FS hf _) (R.FailStop.pure hf _)

end Cstl.Hash
