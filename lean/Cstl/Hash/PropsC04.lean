import Cstl.Hash.Examples
/-
C04 — Hash enumeration and clear reach every element exactly once, even
mid-rehash.

The three entry points refine the list-level specification `visitList`
(visit the elements of a list in order; a callback may ask to stop and may
erase the element it is visiting).  "Exactly once" is then a fact about
`visitList` on a duplicate-free enumeration of the table's elements.
-/
namespace Cstl.Hash

variable (hf : HashId → Nat → Nat → Nat)

/-- `visitList` on an enumeration `L` of the live elements: what is handed to
the callback is a prefix of `L` — every element at most once, only live
elements — and all of `L`, i.e. every live element exactly once, unless a
callback asked to stop. -/
theorem visited_exactly_once {t : HT} (inv : Inv hf t) {L : List Node} (hL : List.Perm L (nodes t))
    (visit : Nat → Node → Int × Bool) :
    (((visitList visit 0 L).1).map (·.id)).Nodup ∧
    (∀ n ∈ (visitList visit 0 L).1, n ∈ nodes t) ∧
    ((visitList visit 0 L).2.1 = 0 → List.Perm (visitList visit 0 L).1 (nodes t)) := by
  have hp := visitList_prefix visit L 0
  have hnd : (L.map (·.id)).Nodup := (hL.map _).nodup_iff.mpr inv.nodup
  exact ⟨List.Nodup.sublist (hp.1.sublist.map _) hnd, fun n hn => hL.subset (hp.1.subset hn),
    fun h0 => by rw [hp.2 h0]; exact hL⟩

/-- stop semantics of `visitList`: every callback but the last returned 0; a
non-zero result is the value of the last callback made; result 0 means every
callback returned 0 -/
theorem visited_results (visit : Nat → Node → Int × Bool) (L : List Node) :
    (∀ (i : Nat) (n : Node), (visitList visit 0 L).1[i]? = some n → i + 1 < (visitList visit 0 L).1.length →
        (visit i n).1 = 0) ∧
    ((visitList visit 0 L).2.1 ≠ 0 → ∃ n, (visitList visit 0 L).1.getLast? = some n ∧
        (visit ((visitList visit 0 L).1.length - 1) n).1 = (visitList visit 0 L).2.1) ∧
    ((visitList visit 0 L).2.1 = 0 → ∀ (i : Nat) (n : Node), (visitList visit 0 L).1[i]? = some n → (visit i n).1 = 0) := by
  have := visitList_results visit L 0
  simpa using this

/-- **foreach** (forces a pending rehash first; any subset of the callbacks
erases the element being visited; any callback may stop the walk): callbacks,
result and remaining table are those of `visitList` on an enumeration `L` of
the table's elements — the elements whose callback erased them are gone, all
others are still in the table, the invariant holds. -/
theorem foreach_once (visit : Nat → Node → Int × Bool) {t : HT} (inv : Inv hf t) :
    (foreach hf t visit).Spec (fun _ r => ∃ L, List.Perm L (nodes t) ∧
      r.2.2 = (visitList visit 0 L).1 ∧ r.2.1 = (visitList visit 0 L).2.1 ∧
      Inv hf r.1 ∧ List.Perm L ((visitList visit 0 L).2.2 ++ nodes r.1) ∧
      (visitList visit 0 L).2.2.Sublist (visitList visit 0 L).1) :=
  (foreach_spec hf visit inv).mono (fun _ _ ⟨L, h1, h2, h3, h4, h5, _⟩ =>
    ⟨L, h1, h2, h3, h4, h5, visitList_erased_sub visit L 0⟩)

/-- mid-rehash instance: on the pending example table every callback erases its element -/
example : (foreach Ex.hf0 Ex.tPending (fun _ _ => (0, true))).Spec (fun _ r => ∃ L, List.Perm L (nodes Ex.tPending) ∧
    r.2.2 = (visitList (fun _ _ => (0, true)) 0 L).1 ∧ r.2.1 = (visitList (fun _ _ => (0, true)) 0 L).2.1 ∧
    Inv Ex.hf0 r.1 ∧ List.Perm L ((visitList (fun _ _ => (0, true)) 0 L).2.2 ++ nodes r.1) ∧
    (visitList (fun _ _ => (0, true)) 0 L).2.2.Sublist (visitList (fun _ _ => (0, true)) 0 L).1) :=
  foreach_once Ex.hf0 _ Ex.tPending_inv

/-- **foreach_const**, at any stage of a pending grow or shrink: callbacks and
result are those of `visitList` on the elements of the table in bucket order -/
theorem foreachConst_once (visit : Nat → Node → Int) {t : HT} (inv : Inv hf t) :
    (foreachConst hf t visit).Spec (fun _ r =>
      r.2 = (visitList (fun i n => (visit i n, false)) 0 (nodes t)).1 ∧
      r.1 = (visitList (fun i n => (visit i n, false)) 0 (nodes t)).2.1) :=
  (foreachConst_spec hf visit inv).mono (fun _ _ h => ⟨h.1, h.2.1⟩)

/-- with a callback that never stops, `foreach_const` visits exactly the elements of the table -/
theorem foreachConst_all {t : HT} (inv : Inv hf t) :
    (foreachConst hf t (fun _ _ => 0)).Spec (fun _ r => r.2 = nodes t ∧ r.1 = 0) := by
  refine (foreachConst_once hf (fun _ _ => 0) inv).mono ?_
  rintro _ r ⟨h1, h2⟩
  have := visitList_clear (nodes t) 0
  rw [this] at h1 h2
  exact ⟨h1, h2⟩

/-- the example table has a grow pending (2 → 4 buckets) and holds 3 elements -/
example : (foreachConst Ex.hf0 Ex.tPending (fun _ _ => 0)).Spec (fun _ r => r.2 = nodes Ex.tPending ∧ r.1 = 0) :=
  foreachConst_all Ex.hf0 Ex.tPending_inv

/-- **clear**, at any stage of a pending grow or shrink: the callback gets every
element of the table exactly once; the table is left empty, with no buckets
and no hash function, and satisfies the invariant -/
theorem clear_once (withCb : Bool) {t : HT} (inv : Inv hf t) :
    (clear hf t withCb).Spec (fun _ r =>
      r.2 = (if withCb then nodes t else []) ∧ Inv hf r.1 ∧ nodes r.1 = [] ∧ r.1.size = 0 ∧
      r.1.hash = none ∧ r.1.rhHash = none ∧ r.1.bk = #[]) :=
  (clear_spec hf withCb inv).mono (fun _ _ ⟨h1, h2, h3, h4, h5, h6, _, h8, _⟩ => ⟨h1, h2, h8, h6, h3, h4, h5⟩)

example : (clear Ex.hf0 Ex.tPending true).Spec (fun _ r =>
    r.2 = (if true then nodes Ex.tPending else []) ∧ Inv Ex.hf0 r.1 ∧ nodes r.1 = [] ∧ r.1.size = 0 ∧
    r.1.hash = none ∧ r.1.rhHash = none ∧ r.1.bk = #[]) :=
  clear_once Ex.hf0 true Ex.tPending_inv

/-- **clear, then a fresh resize**: the cleared table behaves as one left by
`cstl_hash_init`: a resize to `n ≥ 1` buckets whose allocation succeeds lands on
`n` buckets with the function given (`cstl_hash_mul` if none), the table is
empty, ready for keyed operations, and satisfies the invariant, so every
theorem about later operations applies. -/
theorem clear_reusable (withCb : Bool) (oracle : Nat → Bool) (n : Nat) (f : Option HashId) {t : HT}
    (inv : Inv hf t) :
    (clear hf t withCb).Spec (fun _ r =>
      (resize hf oracle r.1 n f).Spec (fun _ t' => Inv hf t' ∧ nodes t' = [] ∧ t'.size = 0 ∧
        (1 ≤ n → allocOK oracle n → t'.effCount = n ∧ t'.effHash = some (pickHash f none) ∧ t'.hash.isSome))) := by
  refine (clear_spec hf withCb inv).mono ?_
  rintro _ r ⟨_, hi, hh, hrh, hbk, hsz, _, hn, _⟩
  refine (resize_spec hf oracle n f hi).mono ?_
  rintro _ t' ⟨i', hp, hs, hsat, _⟩
  refine ⟨i', ?_, by rw [hs, hsz], fun h1 h2 => ?_⟩
  · rw [hn] at hp; exact List.perm_nil.mp hp
  · have := hsat ⟨h1, Or.inr h2⟩
    refine ⟨this.1, ?_, this.2.2⟩
    rw [this.2.1]
    unfold reqHash HT.effHash
    rw [hrh, hh]; rfl

end Cstl.Hash
