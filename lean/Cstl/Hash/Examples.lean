import Cstl.Hash.History
import Cstl.Hash.Progress
/-
Concrete tables used by the non-vacuity examples of the property files: they
are produced by running the model, and their invariant follows from the
theorems (nothing is assumed about them).
-/
namespace Cstl.Hash.Ex

/-- hash ids as in the harness: 1 = k mod m, 2 = (k/2) mod m, else constant 0 -/
def hf0 : HashId → Nat → Nat → Nat := fun f k m =>
  if f = 1 then k % m else if f = 2 then (k / 2) % m else 0

def yes : Nat → Bool := fun _ => true

/-- 2 buckets under `k mod m`, elements (1,#10) (5,#11) (2,#12), then a grow to 4
buckets under `(k/2) mod m` is requested: a rehash is pending -/
def tPending : HT :=
  { bk := #[⟨[⟨2, 12⟩], true⟩, ⟨[⟨5, 11⟩, ⟨1, 10⟩], true⟩, ⟨[], false⟩, ⟨[], false⟩],
    count := 2, hash := some 1, cst := false, rhHash := some 2, rhCount := 4, clean := 0, size := 3 }

def t1 : HT := { bk := #[⟨[], true⟩, ⟨[], true⟩], count := 2, hash := some 1, cst := true, rhHash := none,
                 rhCount := 2, clean := 0, size := 0 }
def t2 : HT := { t1 with bk := #[⟨[], true⟩, ⟨[⟨1, 10⟩], true⟩], size := 1 }
def t3 : HT := { t1 with bk := #[⟨[], true⟩, ⟨[⟨5, 11⟩, ⟨1, 10⟩], true⟩], size := 2 }
def t4 : HT := { t1 with bk := #[⟨[⟨2, 12⟩], true⟩, ⟨[⟨5, 11⟩, ⟨1, 10⟩], true⟩], size := 3 }

theorem t1_inv : Inv hf0 t1 :=
  ((resize_spec hf0 yes 2 (some 1) (HT.init_inv hf0)).of_ok (a := t1) rfl).1

theorem t2_inv : Inv hf0 t2 :=
  ((insert_spec hf0 1 10 t1_inv rfl (by simp [nodes, t1])).of_ok (a := t2) rfl).1

theorem t3_inv : Inv hf0 t3 :=
  ((insert_spec hf0 5 11 t2_inv rfl (by simp [nodes, t2, t1])).of_ok (a := t3) rfl).1

theorem t4_inv : Inv hf0 t4 :=
  ((insert_spec hf0 2 12 t3_inv rfl (by simp [nodes, t3, t1])).of_ok (a := t4) rfl).1

theorem tPending_inv : Inv hf0 tPending :=
  ((resize_spec hf0 yes 4 (some 2) t4_inv).of_ok (a := tPending) rfl).1

theorem tPending_pending : tPending.rhHash.isSome ∧ tPending.hash.isSome ∧ tPending.size = 3 := ⟨rfl, rfl, rfl⟩

end Cstl.Hash.Ex
