import Cstl.Gen.SListC
import Cstl.SList.Model
/-
Translator tie for slist: the definitions in `Cstl/Gen/SListC.lean` are
regenerated from /repo's src/slist.c by tools/c2lean.py on every check run;
the theorems below (hand-written, fixed) state that the hand-written model
functions are exactly those translations.  A change to one of these C
functions that alters its translation makes the corresponding equality fail.
-/
namespace Cstl.SList.Tie
open Cstl.SList Cstl.Gen.SListC

theorem insertAfter_tie (m : Mem) (l : Hd) (i nn : Nat) :
    c_priv_cstl_slist_insert_after m l i nn = insertAfter m l i nn := by
  simp only [c_priv_cstl_slist_insert_after, insertAfter]
  split <;> simp_all

/-- `eraseAfter` models the NULL dereference explicitly; otherwise it is the translation -/
theorem eraseAfter_tie (m : Mem) (l : Hd) (e : Nat) :
    eraseAfter m l e = if m e = 0 then none else some (c_priv_cstl_slist_erase_after m l e) := by
  simp only [c_priv_cstl_slist_erase_after, eraseAfter]
  split
  · rfl
  · congr 1
    split <;> simp_all

theorem insert_after_public_tie (m : Mem) (l : Hd) (e n : Nat) :
    c_cstl_slist_insert_after m l e n = insertAfter m l e n := by
  simp only [c_cstl_slist_insert_after, insertAfter_tie]

theorem pushFront_tie (m : Mem) (l : Hd) (e : Nat) : c_cstl_slist_push_front m l e = pushFront m l e := by
  simp only [c_cstl_slist_push_front, pushFront, insertAfter_tie]

theorem pushBack_tie (m : Mem) (l : Hd) (e : Nat) : c_cstl_slist_push_back m l e = pushBack m l e := by
  simp only [c_cstl_slist_push_back, pushBack, insertAfter_tie]

theorem popFront_tie (m : Mem) (l : Hd) :
    popFront m l =
      if l.t = l.h then some (m, l, none)
      else if m l.h = 0 then none
      else some ((c_cstl_slist_pop_front m l).1, (c_cstl_slist_pop_front m l).2.1,
                 some (c_cstl_slist_pop_front m l).2.2) := by
  simp only [popFront, c_cstl_slist_pop_front]
  by_cases h1 : l.t = l.h
  · simp [h1]
  · simp only [h1, if_false, eraseAfter_tie]
    by_cases h2 : m l.h = 0
    · simp [h2]
    · simp [h2]

theorem front_tie (m : Mem) (l : Hd) :
    front m l = if l.t = l.h then none else some (c_cstl_slist_front m l).2.2 := by
  simp only [front, c_cstl_slist_front]
  split <;> rfl

theorem back_tie (m : Mem) (l : Hd) :
    back m l = if l.t = l.h then none else some (c_cstl_slist_back m l).2.2 := by
  simp only [back, c_cstl_slist_back]
  split <;> rfl

theorem concat_tie (m : Mem) (d s : Hd) : c_cstl_slist_concat m d s = concat m d s := by
  simp only [c_cstl_slist_concat, concat]
  split <;> simp_all

end Cstl.SList.Tie
