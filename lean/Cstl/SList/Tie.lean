import Cstl.Gen.SListC
import Cstl.SList.Model
/-
Translator tie for slist: the definitions in `Cstl/Gen/SListC.lean` are
regenerated from /repo's src/slist.c by tools/c2lean.py on every check run;
the theorems below (hand-written, fixed) state that the hand-written model
functions are exactly those translations.  A change to one of these C
functions that alters its translation makes the corresponding equality fail.
-/
namespace Cstl.SList.Tie
open Cstl.SList Cstl.Gen.SListC

theorem insertAfter_tie (m : Mem) (l : Hd) (i nn : Nat) :
    c_priv_cstl_slist_insert_after m l i nn = insertAfter m l i nn := by
  simp only [c_priv_cstl_slist_insert_after, insertAfter]
  split <;> simp_all

/-- `eraseAfter` models the NULL dereference explicitly; otherwise it is the translation -/
theorem eraseAfter_tie (m : Mem) (l : Hd) (e : Nat) :
    eraseAfter m l e = if m e = 0 then none else some (c_priv_cstl_slist_erase_after m l e) := by
  simp only [c_priv_cstl_slist_erase_after, eraseAfter]
  split
  · rfl
  · congr 1
    split <;> simp_all

theorem insert_after_public_tie (m : Mem) (l : Hd) (e n : Nat) :
    c_cstl_slist_insert_after m l e n = insertAfter m l e n := by
  simp only [c_cstl_slist_insert_after, insertAfter_tie]

theorem pushFront_tie (m : Mem) (l : Hd) (e : Nat) : c_cstl_slist_push_front m l e = pushFront m l e := by
  simp only [c_cstl_slist_push_front, pushFront, insertAfter_tie]

theorem pushBack_tie (m : Mem) (l : Hd) (e : Nat) : c_cstl_slist_push_back m l e = pushBack m l e := by
  simp only [c_cstl_slist_push_back, pushBack, insertAfter_tie]

theorem popFront_tie (m : Mem) (l : Hd) :
    popFront m l =
      if l.t = l.h then some (m, l, none)
      else if m l.h = 0 then none
      else some ((c_cstl_slist_pop_front m l).1, (c_cstl_slist_pop_front m l).2.1,
                 some (c_cstl_slist_pop_front m l).2.2) := by
  simp only [popFront, c_cstl_slist_pop_front]
  by_cases h1 : l.t = l.h
  · simp [h1]
  · simp only [h1, if_false, eraseAfter_tie]
    by_cases h2 : m l.h = 0
    · simp [h2]
    · simp [h2]

theorem front_tie (m : Mem) (l : Hd) :
    front m l = if l.t = l.h then none else some (c_cstl_slist_front m l).2.2 := by
  simp only [front, c_cstl_slist_front]
  split <;> rfl

theorem back_tie (m : Mem) (l : Hd) :
    back m l = if l.t = l.h then none else some (c_cstl_slist_back m l).2.2 := by
  simp only [back, c_cstl_slist_back]
  split <;> rfl

theorem concat_tie (m : Mem) (d s : Hd) : c_cstl_slist_concat m d s = concat m d s := by
  simp only [c_cstl_slist_concat, concat]
  split <;> simp_all

/-- the `while (c->n != NULL)` loop of `cstl_slist_reverse` -/
theorem revLoop_tie (fuel : Nat) (m : Mem) (l : Hd) (c : Nat) :
    c_cstl_slist_reverse_loop1 fuel m l c = (revLoop fuel m l.h c).map (fun m' => (m', l, c)) := by
  induction fuel generalizing m with
  | zero =>
    simp only [c_cstl_slist_reverse_loop1, revLoop]
    split <;> simp_all
  | succ f ih =>
    simp only [c_cstl_slist_reverse_loop1, revLoop]
    split
    · exact ih _
    · simp_all

theorem reverse_tie (m : Mem) (l : Hd) : c_cstl_slist_reverse l.count m l = reverse m l := by
  simp only [c_cstl_slist_reverse, reverse, revLoop_tie]
  split
  · cases revLoop l.count m l.h (m l.h) <;> rfl
  · rfl

/-- the loop of `cstl_slist_clear` with a callback that overwrites the
element's link: whenever the translated loop finishes it yields the memory of
the model's `clearLoop` (which additionally records the callback order) -/
theorem clearLoop_tie (poison : Nat → Nat) (fuel : Nat) (m : Mem) (l : Hd) (h : Nat) (acc : List Nat)
    (r : Mem × Hd × Nat)
    (hr : c_cstl_slist_clear_loop1 (fun m c => upd m c (poison c)) fuel m l h = some r) :
    r.1 = (clearLoop poison fuel m h acc).1 ∧ r.2.1 = l ∧ r.2.2 = 0 := by
  induction fuel generalizing m h acc with
  | zero =>
    simp only [c_cstl_slist_clear_loop1] at hr
    split at hr
    · cases hr
    · rename_i hh
      have : h = 0 := by simpa using hh
      cases hr; subst this; simp [clearLoop]
  | succ f ih =>
    simp only [c_cstl_slist_clear_loop1] at hr
    split at hr
    · rename_i hh
      have hne : h ≠ 0 := by simpa using hh
      have := ih _ _ (h :: acc) hr
      simpa [clearLoop, hne] using this
    · rename_i hh
      have : h = 0 := by simpa using hh
      cases hr; subst this; simp [clearLoop]

theorem clear_tie (poison : Nat → Nat) (m : Mem) (l : Hd) (r : Mem × Hd)
    (hr : c_cstl_slist_clear (fun m c => upd m c (poison c)) (l.count + 1) m l = some r) :
    r.1 = (clear m l poison).1 ∧ r.2 = (clear m l poison).2.1 := by
  simp only [c_cstl_slist_clear] at hr
  split at hr
  · cases hr
  · rename_i m' l' h' heq
    have := clearLoop_tie poison (l.count + 1) m l (m l.h) [] (m', l', h') heq
    obtain ⟨e1, e2, e3⟩ := this
    simp only at e1 e2 e3
    cases hr
    subst e2
    simp only [clear, init]
    rw [← e1]
    simp

theorem swap_tie (m : Mem) (a b : Hd) : c_cstl_slist_swap m a b = swap m a b := by
  simp only [c_cstl_slist_swap, swap]
  split <;> split <;> simp_all

end Cstl.SList.Tie
