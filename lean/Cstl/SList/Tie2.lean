import Cstl.Gen.SListC2
import Cstl.SList.SortL
import Cstl.SList.ForeachL
/-
Translator tie, second part (slist): `Cstl/Gen/SListC2.lean` is regenerated
from /repo's src/slist.c by tools/c2lean_lists.py on every check run; the
fixed theorems below state that the link-level models of `cstl_slist_sort`
(`SortL.lean`) and `cstl_slist_foreach` (`Model.lean`) are those translations.

`sort_tie`, `mergeLoop_tie`: the model reports a NULL dereference in
`__cstl_slist_erase_after` as `none`, the translation has no such notion, so
the statement is "whenever the model finishes with `r`, the translation
finishes with `r`" (the refinement theorem `sortL_refines` proves that the
model finishes on every represented list).  `foreach_tie`: whenever the
translated loop finishes, the model returns the same visited elements and
result.  `foreachP_tie`: the same against the model of `ForeachL.lean`, whose
visit function may overwrite the link of the element it is handed — the form
in which reading the successor *before* the visit matters.
-/
namespace Cstl.SList.Tie2
open Cstl.SList Cstl.Gen.SListC2

theorem insertAfter_tie (m : Mem) (l : Hd) (i nn : Nat) :
    c_priv_cstl_slist_insert_after m l i nn = insertAfter m l i nn := by
  simp only [c_priv_cstl_slist_insert_after, insertAfter]
  split <;> simp_all

theorem eraseAfter_tie (m : Mem) (l : Hd) (e : Nat) :
    eraseAfter m l e = if m e = 0 then none else some (c_priv_cstl_slist_erase_after m l e) := by
  simp only [c_priv_cstl_slist_erase_after, eraseAfter]
  split
  · rfl
  · congr 1
    split <;> simp_all

theorem concat_tie (m : Mem) (d s : Hd) : c_cstl_slist_concat m d s = concat m d s := by
  simp only [c_cstl_slist_concat, concat]
  split <;> simp_all

/-- the split loop `for (t = &sl->h; _sl[0].count < sl->count / 2; t = t->n, _sl[0].count++) ;` -/
theorem splitLoop_tie (cmp : Nat → Nat → Int) (tmp : Nat → Nat × Nat) (fuel : Nat) (m : Mem) (sl sl0 sl1 : Hd) (t : Nat) :
    c_cstl_slist_sort_loop1 cmp tmp fuel m sl sl0 sl1 t
      = (splitLoop fuel m (sl.count / 2) sl0.count t).map
          (fun r => (m, sl, { sl0 with count := r.1 }, sl1, r.2)) := by
  induction fuel generalizing sl0 t with
  | zero =>
    simp only [c_cstl_slist_sort_loop1, splitLoop]
    split <;> simp_all
  | succ f ih =>
    simp only [c_cstl_slist_sort_loop1, splitLoop]
    split
    · rw [ih]
    · simp_all

/-- the merge loop: whenever the model's loop finishes, so does the
translation, with the same memory and the same three headers -/
theorem mergeLoop_tie (cmp : Nat → Nat → Int) (tmp : Nat → Nat × Nat) (fuel : Nat) (m : Mem) (l a b : Hd) (t : Nat)
    (r : Mem × Hd × Hd × Hd) (h : mergeLoop cmp fuel m l a b = some r) :
    c_cstl_slist_sort_loop2 cmp tmp fuel m l a b t = some (r.1, r.2.1, r.2.2.1, r.2.2.2, t) := by
  induction fuel generalizing m l a b with
  | zero =>
    simp only [mergeLoop] at h
    simp only [c_cstl_slist_sort_loop2]
    split at h
    · cases h
    · rename_i hc; cases h; simp [hc]
  | succ f ih =>
    simp only [mergeLoop] at h
    simp only [c_cstl_slist_sort_loop2]
    split at h
    · rename_i hc
      simp only [hc, and_self, if_true]
      split at h
      · rename_i hle
        simp only [hle, if_true]
        rw [eraseAfter_tie] at h
        by_cases hz : m a.h = 0
        · simp [hz] at h
        · simp only [hz, if_false] at h
          rw [insertAfter_tie]
          exact ih _ _ _ _ h
      · rename_i hle
        simp only [hle, if_false]
        rw [eraseAfter_tie] at h
        by_cases hz : m b.h = 0
        · simp [hz] at h
        · simp only [hz, if_false] at h
          rw [insertAfter_tie]
          exact ih _ _ _ _ h
    · rename_i hc
      cases h; simp [hc]

/-- **`cstl_slist_sort`**: whenever the link-level model `sortL` finishes with `r`
(which `sortL_refines` proves for every represented list), the translation of
the C function finishes with the same memory and header -/
theorem sort_tie (cmp : Nat → Nat → Int) (tmp : Nat → Nat × Nat) (fuel d : Nat) (m : Mem) (l : Hd) (r : Mem × Hd)
    (h : sortL cmp tmp fuel d m l = some r) : c_cstl_slist_sort cmp tmp fuel d m l = some r := by
  induction fuel generalizing d m l r with
  | zero => simp [sortL] at h
  | succ f ih =>
    simp only [sortL] at h
    simp only [c_cstl_slist_sort]
    split at h
    · rename_i hc
      simp only [hc, if_true]
      simp only [init] at h ⊢
      rw [splitLoop_tie]
      dsimp only
      cases hs : splitLoop f (upd (upd m (tmp d).fst 0) (tmp d).snd 0) (l.count / 2) 0 l.h with
      | none => rw [hs] at h; simp at h
      | some p =>
        obtain ⟨cnt, t⟩ := p
        rw [hs] at h
        simp only [Option.map_some, splitLinks, init] at h ⊢
        split at h
        · cases h
        · rename_i m1 a1 h1
          rw [ih _ _ _ _ h1]
          dsimp only
          split at h
          · cases h
          · rename_i m2 b1 h2
            rw [ih _ _ _ _ h2]
            dsimp only
            split at h
            · cases h
            · rename_i m3 l3 a3 b3 h3
              rw [mergeLoop_tie cmp tmp f _ _ _ _ t _ h3]
              dsimp only
              rw [concat_tie, concat_tie]
              split at h <;> simp_all
    · rename_i hc
      simp only [hc, if_false]
      exact h

/-- a visit function without effect on the list, in the vocabulary of the
translation: the private state is the call counter and the visited elements -/
def pureVisit (visit : Nat → Nat → Int) : (Nat × List Nat) → Mem → Hd → Nat → Int × (Nat × List Nat) × Mem × Hd :=
  fun s m l c => (visit s.1 c, (s.1 + 1, c :: s.2), m, l)

theorem foreachLoop_stop {σ : Type} (vis : σ → Mem → Hd → Nat → Int × σ × Mem × Hd) (fuel : Nat) (vs : σ)
    (m : Mem) (sl : Hd) (c : Nat) (res : Int) (hr : res ≠ 0) :
    c_cstl_slist_foreach_loop1 vis fuel vs m sl c res = some (vs, m, sl, c, res) := by
  cases fuel <;> simp [c_cstl_slist_foreach_loop1, hr]

/-- the loop of `cstl_slist_foreach`: whenever the translated loop finishes,
the model's loop returns the same visited elements and the same result, and
the list is untouched -/
theorem foreachLoop_tie (visit : Nat → Nat → Int) (fuel : Nat) (m : Mem) (sl : Hd) (c k : Nat) (acc : List Nat)
    (out : (Nat × List Nat) × Mem × Hd × Nat × Int)
    (h : c_cstl_slist_foreach_loop1 (pureVisit visit) fuel (k, acc) m sl c 0 = some out) :
    foreachLoop visit fuel m c k acc = (out.1.2.reverse, out.2.2.2.2) ∧ out.2.1 = m ∧ out.2.2.1 = sl := by
  induction fuel generalizing c k acc with
  | zero =>
    simp only [c_cstl_slist_foreach_loop1] at h
    split at h
    · cases h
    · cases h; simp [foreachLoop]
  | succ f ih =>
    simp only [c_cstl_slist_foreach_loop1] at h
    split at h
    · rename_i hc
      have hc0 : c ≠ 0 := hc.1
      simp only [pureVisit] at h
      by_cases hv : visit k c = 0
      · rw [hv] at h
        have := ih _ _ _ h
        simp only [foreachLoop, hc0, if_false, hv, ne_eq, not_true_eq_false]
        exact this
      · rw [foreachLoop_stop _ _ _ _ _ _ _ hv] at h
        cases h
        simp [foreachLoop, hc0, hv]
    · rename_i hc
      have hc0 : c = 0 := by simpa using hc
      cases h
      simp [foreachLoop, hc0]

/-- **`cstl_slist_foreach`** -/
theorem foreach_tie (visit : Nat → Nat → Int) (m : Mem) (l : Hd)
    (out : (Nat × List Nat) × Mem × Hd × Int)
    (h : c_cstl_slist_foreach (pureVisit visit) (l.count + 1) (0, []) m l = some out) :
    foreach m l visit = (out.1.2.reverse, out.2.2.2) ∧ out.2.1 = m ∧ out.2.2.1 = l := by
  simp only [c_cstl_slist_foreach] at h
  split at h
  · cases h
  · rename_i vs m' sl' c' res' heq
    have := foreachLoop_tie visit (l.count + 1) m l (m l.h) 0 [] _ heq
    cases h
    simpa [foreach] using this

/-- a visit function that may take the visited element away (its link is
overwritten), in the vocabulary of the translation -/
def consumingVisit (poison : Nat → Nat) (visit : Nat → Nat → Int × Bool) :
    (Nat × List Nat) → Mem → Hd → Nat → Int × (Nat × List Nat) × Mem × Hd :=
  fun s m l c =>
    let v := visit s.1 c
    (v.1, (s.1 + 1, c :: s.2), (if v.2 then upd m c (poison c) else m), l)

/-- the loop of `cstl_slist_foreach` with an element-consuming visit function -/
theorem foreachLoopP_tie (poison : Nat → Nat) (visit : Nat → Nat → Int × Bool) (fuel : Nat) (m : Mem) (sl : Hd)
    (c k : Nat) (acc : List Nat) (out : (Nat × List Nat) × Mem × Hd × Nat × Int)
    (h : c_cstl_slist_foreach_loop1 (consumingVisit poison visit) fuel (k, acc) m sl c 0 = some out) :
    foreachLoopP poison visit fuel m c k acc = (out.2.1, out.1.2.reverse, out.2.2.2.2) ∧ out.2.2.1 = sl := by
  induction fuel generalizing m c k acc with
  | zero =>
    simp only [c_cstl_slist_foreach_loop1] at h
    split at h
    · cases h
    · cases h; simp [foreachLoopP]
  | succ f ih =>
    simp only [c_cstl_slist_foreach_loop1] at h
    split at h
    · rename_i hc
      have hc0 : c ≠ 0 := hc.1
      simp only [consumingVisit] at h
      by_cases hv : (visit k c).1 = 0
      · rw [hv] at h
        have := ih _ _ _ _ h
        simp only [foreachLoopP, hc0, if_false, hv, ne_eq, not_true_eq_false]
        exact this
      · rw [foreachLoop_stop _ _ _ _ _ _ _ hv] at h
        cases h
        simp [foreachLoopP, hc0, hv]
    · rename_i hc
      have hc0 : c = 0 := by simpa using hc
      cases h
      simp [foreachLoopP, hc0]

/-- **`cstl_slist_foreach`** with an element-consuming visit function -/
theorem foreachP_tie (poison : Nat → Nat) (visit : Nat → Nat → Int × Bool) (m : Mem) (l : Hd)
    (out : (Nat × List Nat) × Mem × Hd × Int)
    (h : c_cstl_slist_foreach (consumingVisit poison visit) (l.count + 1) (0, []) m l = some out) :
    foreachP m l poison visit = (out.2.1, out.1.2.reverse, out.2.2.2) ∧ out.2.2.1 = l := by
  simp only [c_cstl_slist_foreach] at h
  split at h
  · cases h
  · rename_i vs m' sl' c' res' heq
    have := foreachLoopP_tie poison visit (l.count + 1) m l (m l.h) 0 [] _ heq
    cases h
    simpa [foreachP] using this

/-- **the translated C function sorts.**  `sort_tie` composed with the
refinement theorem: on every represented list with fresh temporary heads the
translation of `cstl_slist_sort` finishes and leaves an ordered permutation of
the same nodes with the tail pointer at the true last node. -/
theorem c_sort_spec (cmp : Nat → Nat → Int) (key : Nat → Int) (hck : ∀ x y, cmp x y ≤ 0 ↔ key x ≤ key y)
    (tmp : Nat → Nat × Nat) (d : Nat) {m : Mem} {l : Hd} {xs : List Nat}
    (h : IsSL m l xs) (hfr : Fresh tmp d (l.h :: xs)) :
    ∃ m' l', c_cstl_slist_sort cmp tmp (xs.length + 1) d m l = some (m', l') ∧
      let ys := if l.count > 1 then msort key xs.length xs else xs
      IsSL m' l' ys ∧ ys.Perm xs ∧ SortedBy key ys ∧ l'.h = l.h
      ∧ ∀ a, a ∉ l.h :: xs → ¬ Scratch tmp d a → m' a = m a := by
  obtain ⟨m', l', e, rest⟩ := sortL_spec cmp key hck tmp d h hfr
  exact ⟨m', l', sort_tie cmp tmp _ d m l _ e, rest⟩

end Cstl.SList.Tie2
