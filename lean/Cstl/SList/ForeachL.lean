import Cstl.SList.Props
/-
`cstl_slist_foreach` with a visit function that may take the visited element
away (unlink / free / reuse it: its link is overwritten with an arbitrary
`poison` value).  `Model.lean`'s `foreach` has a visit function without
effect on the links; with such a visit function it makes no difference
whether the successor is read before or after the visit.  The C code reads it
*before* (`n = c->n; res = visit(…); c = n;`), and this model is the one in
which that matters: `foreachP_spec` shows that the traversal still presents
the reference sequence whatever the visit function does to the elements it is
handed.  The translator tie `Tie2.foreachLoopP_tie` is stated against this
model, so moving the read after the visit is reported.
-/
namespace Cstl.SList

/-- the loop of `cstl_slist_foreach`; `visit k c` = (result, "the element was
taken away") for the k-th call, on element `c` -/
def foreachLoopP (poison : Nat → Nat) (visit : Nat → Nat → Int × Bool) :
    Nat → Mem → Nat → Nat → List Nat → Mem × List Nat × Int
  | 0, m, _, _, acc => (m, acc.reverse, 0)
  | fuel + 1, m, c, k, acc =>
    if c = 0 then (m, acc.reverse, 0)
    else
      let n := m c                                           -- n = c->n
      let v := visit k c                                     -- res = visit(c, p)
      let m' := if v.2 then upd m c (poison c) else m
      if v.1 ≠ 0 then (m', (c :: acc).reverse, v.1)
      else foreachLoopP poison visit fuel m' n (k + 1) (c :: acc)     -- c = n

def foreachP (m : Mem) (l : Hd) (poison : Nat → Nat) (visit : Nat → Nat → Int × Bool) : Mem × List Nat × Int :=
  foreachLoopP poison visit (l.count + 1) m (m l.h) 0 []

/-- with a visit function that leaves the elements alone this is `Model.foreachLoop` -/
theorem foreachLoopP_pure (poison : Nat → Nat) (visit : Nat → Nat → Int) (fuel : Nat) (m : Mem) (c k : Nat)
    (acc : List Nat) :
    foreachLoopP poison (fun k c => (visit k c, false)) fuel m c k acc = (m, foreachLoop visit fuel m c k acc) := by
  induction fuel generalizing c k acc with
  | zero => simp [foreachLoopP, foreachLoop]
  | succ f ih =>
    simp only [foreachLoopP, foreachLoop]
    split
    · rfl
    · simp only [Bool.false_eq_true, if_false]
      split
      · rfl
      · exact ih _ _ _

theorem foreachLoopP_spec (poison : Nat → Nat) (visit : Nat → Nat → Int × Bool) {m : Mem} {c : Nat} {ys : List Nat}
    (fuel k : Nat) (acc : List Nat) (h : Chain m c ys) (hnd : ys.Nodup) (hf : ys.length < fuel) :
    (foreachLoopP poison visit fuel m c k acc).2.1
        = acc.reverse ++ (refForeach (fun k c => (visit k c).1) ys k).1
    ∧ (foreachLoopP poison visit fuel m c k acc).2.2 = (refForeach (fun k c => (visit k c).1) ys k).2
    ∧ ∀ a, a ∉ ys → (foreachLoopP poison visit fuel m c k acc).1 a = m a := by
  induction ys generalizing m c fuel k acc with
  | nil =>
    have : c = 0 := h
    subst this
    cases fuel <;> simp [foreachLoopP, refForeach]
  | cons y ys ih =>
    obtain ⟨h1, h2, h3⟩ := h
    subst h1
    cases fuel with
    | zero => simp at hf
    | succ f =>
      have hy : c ∉ ys := (List.nodup_cons.mp hnd).1
      have hnd' := (List.nodup_cons.mp hnd).2
      -- the memory after the visit still holds the rest of the chain
      have hm' : ∀ a, a ≠ c → (if (visit k c).2 then upd m c (poison c) else m) a = m a := by
        intro a ha; split
        · exact upd_other _ _ _ _ ha
        · rfl
      have h3' : Chain (if (visit k c).2 then upd m c (poison c) else m) (m c) ys :=
        Chain_transfer h3 (fun a ha => hm' a (fun e => hy (e ▸ ha)))
      by_cases hv : (visit k c).1 = 0
      · obtain ⟨i1, i2, i3⟩ := ih (m := if (visit k c).2 then upd m c (poison c) else m) f (k + 1) (c :: acc)
          h3' hnd' (by simpa using hf)
        simp only [foreachLoopP, h2, if_false, hv, ne_eq, not_true_eq_false, refForeach]
        refine ⟨by rw [i1]; simp, i2, ?_⟩
        intro a ha
        rw [i3 a (fun hm => ha (by simp [hm]))]
        exact hm' a (fun e => ha (by simp [e]))
      · simp only [foreachLoopP, h2, if_false, hv, ne_eq, not_false_eq_true, if_true, refForeach]
        refine ⟨by simp, trivial, ?_⟩
        intro a ha
        exact hm' a (fun e => ha (by simp [e]))

/-- **foreach with an element-consuming visit function.**  The traversal
presents the reference sequence in order and stops at, and returns, the first
non-zero visit result — whatever the visit function does to the links of the
elements it is handed; no other link is written. -/
theorem foreachP_spec {m : Mem} {l : Hd} {xs : List Nat} (h : IsSL m l xs) (poison : Nat → Nat)
    (visit : Nat → Nat → Int × Bool) :
    (foreachP m l poison visit).2 = refForeach (fun k c => (visit k c).1) xs 0
    ∧ ∀ a, a ∉ xs → (foreachP m l poison visit).1 a = m a := by
  obtain ⟨i1, i2, i3⟩ := foreachLoopP_spec poison visit (l.count + 1) 0 [] (Seg_iff_Chain.mp h.path)
    (List.nodup_cons.mp h.nodup).2 (by rw [h.count]; omega)
  refine ⟨?_, i3⟩
  have e1 : (foreachP m l poison visit).2.1 = (refForeach (fun k c => (visit k c).1) xs 0).1 := by
    simpa [foreachP] using i1
  have e2 : (foreachP m l poison visit).2.2 = (refForeach (fun k c => (visit k c).1) xs 0).2 := i2
  exact Prod.ext e1 e2

end Cstl.SList
