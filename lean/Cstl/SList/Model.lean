/-
Link-level model of src/slist.c (singly-linked list with tail pointer).

Memory is the `n` field of every node, as a function from addresses to
addresses (`0` = NULL).  A `struct cstl_slist` is its head-node address `h`
(the `n` field of the head node lives in the same memory), the tail pointer `t`
and `count`.  Each model operation performs one `upd` per C assignment, in the
same order as the C code.  `sort` is the exception: it is modelled on the
sequence read from the links (same split / merge rule as the C code) followed
by a relink, because its temporary list heads live on the C stack.
-/
namespace Cstl.SList

abbrev Mem := Nat → Nat

def upd (m : Mem) (a v : Nat) : Mem := fun x => if x = a then v else m x

@[simp] theorem upd_same (m : Mem) (a v : Nat) : upd m a v a = v := by simp [upd]
theorem upd_other (m : Mem) (a v x : Nat) (h : x ≠ a) : upd m a v x = m x := by simp [upd, h]

/-- `struct cstl_slist` (the `off` member is constant and not modelled). -/
structure Hd where
  h : Nat
  t : Nat
  count : Nat
deriving Repr, DecidableEq, Inhabited

/-- `cstl_slist_init` -/
def init (m : Mem) (h : Nat) : Mem × Hd := (upd m h 0, { h := h, t := h, count := 0 })

/-- `__cstl_slist_insert_after(sl, in, nn)` -/
def insertAfter (m : Mem) (l : Hd) (i nn : Nat) : Mem × Hd :=
  let m1 := upd m nn (m i)
  let m2 := upd m1 i nn
  (m2, { l with t := if l.t = i then nn else l.t, count := l.count + 1 })

/-- `__cstl_slist_erase_after(sl, e)`; returns the removed node.
Dereferencing `e->n` when it is NULL is reported as `none` (the C code would
read through a NULL pointer). -/
def eraseAfter (m : Mem) (l : Hd) (e : Nat) : Option (Mem × Hd × Nat) :=
  let n := m e
  if n = 0 then none
  else
    let m1 := upd m e (m n)
    some (m1, { l with t := if l.t = n then e else l.t, count := l.count - 1 }, n)

def pushFront (m : Mem) (l : Hd) (e : Nat) : Mem × Hd := insertAfter m l l.h e
def pushBack (m : Mem) (l : Hd) (e : Nat) : Mem × Hd := insertAfter m l l.t e

/-- `cstl_slist_pop_front` (with the emptiness check of the repaired code):
`some none` = returned NULL, `none` = NULL dereference. -/
def popFront (m : Mem) (l : Hd) : Option (Mem × Hd × Option Nat) :=
  if l.t = l.h then some (m, l, none)
  else match eraseAfter m l l.h with
    | none => none
    | some (m', l', n) => some (m', l', some n)

def front (m : Mem) (l : Hd) : Option Nat := if l.t = l.h then none else some (m l.h)
def back (_m : Mem) (l : Hd) : Option Nat := if l.t = l.h then none else some l.t

/-- The `while (c->n != NULL)` loop of `cstl_slist_reverse`; `fuel` bounds the
number of iterations (`none` = the loop did not finish within `fuel`). -/
def revLoop : Nat → Mem → Nat → Nat → Option Mem
  | 0, m, _, c => if m c = 0 then some m else none
  | fuel + 1, m, h, c =>
    if m c = 0 then some m
    else
      let n := m c
      let m1 := upd m c (m n)
      let m2 := upd m1 n (m1 h)
      let m3 := upd m2 h n
      revLoop fuel m3 h c

def reverse (m : Mem) (l : Hd) : Option (Mem × Hd) :=
  if l.count > 1 then
    let c := m l.h
    match revLoop l.count m l.h c with
    | none => none
    | some m' => some (m', { l with t := c })
  else some (m, l)

/-- `cstl_slist_concat(dst, src)` -/
def concat (m : Mem) (d s : Hd) : Mem × Hd × Hd :=
  if s.count > 0 then
    let m1 := upd m d.t (m s.h)
    let d' := { d with t := s.t, count := d.count + s.count }
    let (m2, s') := init m1 s.h
    (m2, d', s')
  else (m, d, s)

/-- `cstl_slist_swap(a, b)`: the structs are exchanged bytewise (the head
node's `n` lives in memory), then an empty list's tail is re-anchored. -/
def swap (m : Mem) (a b : Hd) : Mem × Hd × Hd :=
  let an := m a.h
  let bn := m b.h
  let m1 := upd (upd m a.h bn) b.h an
  let a1 : Hd := { h := a.h, t := b.t, count := b.count }
  let b1 : Hd := { h := b.h, t := a.t, count := a.count }
  let a2 := if a1.count = 0 then { a1 with t := a1.h } else a1
  let b2 := if b1.count = 0 then { b1 with t := b1.h } else b1
  (m1, a2, b2)

/-- Follow the links from `a` for at most `fuel` nodes. -/
def walk (m : Mem) : Nat → Nat → List Nat
  | 0, _ => []
  | fuel + 1, a => if m a = 0 then [] else m a :: walk m fuel (m a)

/-- `cstl_slist_foreach`: the successor is read before the visit.  `visit`
returns the visit function's result for the k-th call on element `e`;
the model returns the visited elements in order and the result. -/
def foreachLoop (visit : Nat → Nat → Int) : Nat → Mem → Nat → Nat → List Nat → List Nat × Int
  | 0, _, _, _, acc => (acc.reverse, 0)
  | fuel + 1, m, c, k, acc =>
    if c = 0 then (acc.reverse, 0)
    else
      let n := m c
      let r := visit k c
      if r ≠ 0 then ((c :: acc).reverse, r)
      else foreachLoop visit fuel m n (k + 1) (c :: acc)

def foreach (m : Mem) (l : Hd) (visit : Nat → Nat → Int) : List Nat × Int :=
  foreachLoop visit (l.count + 1) m (m l.h) 0 []

/-- `cstl_slist_clear`: successor read first, then the callback, which may do
anything to the element; the model lets it overwrite the element's link with
`poison e`.  Returns the callback order. -/
def clearLoop (poison : Nat → Nat) : Nat → Mem → Nat → List Nat → Mem × List Nat
  | 0, m, _, acc => (m, acc.reverse)
  | fuel + 1, m, c, acc =>
    if c = 0 then (m, acc.reverse)
    else
      let n := m c
      clearLoop poison fuel (upd m c (poison c)) n (c :: acc)

def clear (m : Mem) (l : Hd) (poison : Nat → Nat) : Mem × Hd × List Nat :=
  let (m1, cbs) := clearLoop poison (l.count + 1) m (m l.h) []
  let (m2, l') := init m1 l.h
  (m2, l', cbs)

/-! ### sort, on the sequence of nodes -/

/-- merge step of `cstl_slist_sort`: take from the left list when `cmp ≤ 0` -/
def merge (key : Nat → Int) : List Nat → List Nat → List Nat
  | [], ys => ys
  | xs, [] => xs
  | x :: xs, y :: ys =>
    if key x ≤ key y then x :: merge key xs (y :: ys)
    else y :: merge key (x :: xs) ys

def msort (key : Nat → Int) : Nat → List Nat → List Nat
  | 0, xs => xs
  | fuel + 1, xs =>
    if xs.length > 1 then
      let k := xs.length / 2
      merge key (msort key fuel (xs.take k)) (msort key fuel (xs.drop k))
    else xs

/-- write the links of the sequence `xs` starting at `a`, NULL-terminated -/
def relink (m : Mem) : Nat → List Nat → Mem
  | a, [] => upd m a 0
  | a, x :: xs => relink (upd m a x) x xs

def lastOr (a : Nat) : List Nat → Nat
  | [] => a
  | x :: xs => lastOr x xs

def sort (m : Mem) (l : Hd) (key : Nat → Int) : Mem × Hd :=
  if l.count > 1 then
    let xs := walk m l.count l.h
    let ys := msort key xs.length xs
    (relink m l.h ys, { l with t := lastOr l.h ys })
  else (m, l)

end Cstl.SList
