import Cstl.Base.Driver
import Cstl.SList.Model
/-
Driver for the slist area.  Three lists with head nodes at addresses 1,2,3;
elements are addresses 10..; the clear callback overwrites the element's link
with 100+address.  Same line protocol as harness/slist.c.
-/
open Cstl Cstl.SList

structure SState where
  m : Mem
  ls : Array Hd
  key : Nat → Int

def sinit : SState :=
  { m := fun _ => 0,
    ls := #[{ h := 1, t := 1, count := 0 }, { h := 2, t := 2, count := 0 }, { h := 3, t := 3, count := 0 }],
    key := fun _ => 0 }

def dumpList (m : Mem) (l : Hd) : String :=
  let xs := walk m 64 l.h
  showList xs ++ " t=" ++ toString l.t ++ " c=" ++ toString l.count

def dump (s : SState) : String :=
  " | ".intercalate (s.ls.toList.map (dumpList s.m))

def optS : Option Nat → String
  | none => "0"
  | some n => toString n

def lcg (x : Nat) : Nat := (x * 1103515245 + 12345) % 2147483648

/-- LCG keys of the `bigsort` operation -/
def bigKeys : Nat → Nat → Nat → Array Int → Array Int
  | 0, _, _, acc => acc
  | n + 1, nkeys, x, acc =>
    let x' := lcg x
    bigKeys n nkeys x' (acc.push (Int.ofNat ((x' / 256) % nkeys)))

/-- `bigsort`: the sequence-level merge sort of the model (`msort`, to which the
link-level sort is proved equal) on `n` elements; checksum of the final order -/
def bigSortCk (n nkeys seed : Nat) : Nat :=
  let keys := bigKeys n nkeys (seed % 2147483648) #[]
  let ys := Cstl.SList.msort (fun a => keys[a]!) n (List.range n)
  ys.foldl (fun ck i => (ck * 1000003 + (i + 1) % 2147483647) % 2147483647) 7

def sstep (s : SState) (ws : List String) : SState × String :=
  let bad := (s, "STOP bad-op")
  let getL (a : String) : Option (Nat × Hd) := do
    let i ← a.toNat?
    if i ≥ 1 ∧ i ≤ 3 then some (i - 1, s.ls[i - 1]!) else none
  let fin (s' : SState) (r : String) : SState × String := (s', r ++ " | " ++ dump s')
  match ws with
  | "keys" :: ks =>
    let ksI := ks.filterMap parseInt?
    fin { s with key := fun a => (ksI[a - 10]?).getD 0 } "ok"
  | ["pushf", l, e] =>
    match getL l, e.toNat? with
    | some (i, hd), some e =>
      let (m', hd') := pushFront s.m hd e
      fin { s with m := m', ls := s.ls.set! i hd' } "ok"
    | _, _ => bad
  | ["pushb", l, e] =>
    match getL l, e.toNat? with
    | some (i, hd), some e =>
      let (m', hd') := pushBack s.m hd e
      fin { s with m := m', ls := s.ls.set! i hd' } "ok"
    | _, _ => bad
  | ["insa", l, b, e] =>
    match getL l, b.toNat?, e.toNat? with
    | some (i, hd), some b, some e =>
      let (m', hd') := insertAfter s.m hd b e
      fin { s with m := m', ls := s.ls.set! i hd' } "ok"
    | _, _, _ => bad
  | ["eraa", l, b] =>
    match getL l, b.toNat? with
    | some (i, hd), some b =>
      match eraseAfter s.m hd b with
      | none => (s, "STOP segv")
      | some (m', hd', n) => fin { s with m := m', ls := s.ls.set! i hd' } (toString n)
    | _, _ => bad
  | ["popf", l] =>
    match getL l with
    | some (i, hd) =>
      match popFront s.m hd with
      | none => (s, "STOP segv")
      | some (m', hd', r) => fin { s with m := m', ls := s.ls.set! i hd' } (optS r)
    | _ => bad
  | ["front", l] =>
    match getL l with
    | some (_, hd) => fin s (optS (front s.m hd))
    | _ => bad
  | ["back", l] =>
    match getL l with
    | some (_, hd) => fin s (optS (back s.m hd))
    | _ => bad
  | ["rev", l] =>
    match getL l with
    | some (i, hd) =>
      match reverse s.m hd with
      | none => (s, "STOP hang")
      | some (m', hd') => fin { s with m := m', ls := s.ls.set! i hd' } "ok"
    | _ => bad
  | ["bigsort", l, n, nk, sd] =>
    match getL l, n.toNat?, nk.toNat?, parseNat? sd with
    | some (_, hd), some n, some nk, some sd =>
      if hd.count ≠ 0 || n > 2000000 || nk = 0 then bad else fin s s!"ok ck={bigSortCk n nk sd}"
    | _, _, _, _ => bad
  | ["sort", l] =>
    match getL l with
    | some (i, hd) =>
      let (m', hd') := sort s.m hd s.key
      fin { s with m := m', ls := s.ls.set! i hd' } "ok"
    | _ => bad
  | ["concat", a, b] =>
    match getL a, getL b with
    | some (i, d), some (j, sr) =>
      if i = j then bad else
      let (m', d', s') := concat s.m d sr
      fin { s with m := m', ls := (s.ls.set! i d').set! j s' } "ok"
    | _, _ => bad
  | ["swap", a, b] =>
    match getL a, getL b with
    | some (i, x), some (j, y) =>
      if i = j then bad else
      let (m', x', y') := swap s.m x y
      fin { s with m := m', ls := (s.ls.set! i x').set! j y' } "ok"
    | _, _ => bad
  | ["foreach", l, stopAt] =>
    -- the visit function returns 7 on its `stopAt`-th call (0-based), else 0
    match getL l, parseInt? stopAt with
    | some (_, hd), some k =>
      let (vis, r) := foreach s.m hd (fun i _ => if (i : Int) = k then stopValue k else 0)
      fin s (toString r ++ " " ++ showList vis)
    | _, _ => bad
  | ["clear", l] =>
    match getL l with
    | some (i, hd) =>
      let (m', hd', cbs) := clear s.m hd (fun e => 100 + e)
      let okp := cbs.all (fun e => m' e == 100 + e)
      fin { s with m := m', ls := s.ls.set! i hd' } (showList cbs ++ " p=" ++ (if okp then "1" else "0"))
    | _ => bad
  | _ => bad

def main : IO Unit := runArea { init := sinit, step := sstep }
