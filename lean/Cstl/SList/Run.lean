import Cstl.SList.Model
/-
Histories: several lists in one memory, driven by a list of operations, and
the reference semantics on plain sequences (what property C13 calls "the
reference sequence").
-/
namespace Cstl.SList

structure St where
  m : Mem
  hd : Nat → Hd          -- list number → its header

inductive Op where
  | pushFront (l e : Nat)
  | pushBack (l e : Nat)
  | insertAfter (l b e : Nat)
  | eraseAfter (l b : Nat)
  | popFront (l : Nat)
  | reverse (l : Nat)
  | sort (l : Nat) (key : Nat → Int)
  | concat (d s : Nat)
  | swap (a b : Nat)
  | clear (l : Nat) (poison : Nat → Nat)
  | front (l : Nat)
  | back (l : Nat)
  | foreach (l : Nat) (visit : Nat → Nat → Int)

inductive Res where
  | unit
  | ptr (p : Option Nat)
  | visited (v : List Nat) (r : Int)
  | cleared (cbs : List Nat)

def setHd (hd : Nat → Hd) (i : Nat) (v : Hd) : Nat → Hd := fun j => if j = i then v else hd j
def setSeq (q : Nat → List Nat) (i : Nat) (v : List Nat) : Nat → List Nat := fun j => if j = i then v else q j

/-- one operation on the link-level state (`none` = the C code would
dereference NULL or loop) -/
def step (s : St) : Op → Option (St × Res)
  | .pushFront l e =>
    let r := pushFront s.m (s.hd l) e
    some ({ m := r.1, hd := setHd s.hd l r.2 }, .unit)
  | .pushBack l e =>
    let r := pushBack s.m (s.hd l) e
    some ({ m := r.1, hd := setHd s.hd l r.2 }, .unit)
  | .insertAfter l b e =>
    let r := insertAfter s.m (s.hd l) b e
    some ({ m := r.1, hd := setHd s.hd l r.2 }, .unit)
  | .eraseAfter l b =>
    match eraseAfter s.m (s.hd l) b with
    | none => none
    | some (m', h', n) => some ({ m := m', hd := setHd s.hd l h' }, .ptr (some n))
  | .popFront l =>
    match popFront s.m (s.hd l) with
    | none => none
    | some (m', h', r) => some ({ m := m', hd := setHd s.hd l h' }, .ptr r)
  | .reverse l =>
    match reverse s.m (s.hd l) with
    | none => none
    | some (m', h') => some ({ m := m', hd := setHd s.hd l h' }, .unit)
  | .sort l key =>
    let r := sort s.m (s.hd l) key
    some ({ m := r.1, hd := setHd s.hd l r.2 }, .unit)
  | .concat d sr =>
    let r := concat s.m (s.hd d) (s.hd sr)
    some ({ m := r.1, hd := setHd (setHd s.hd d r.2.1) sr r.2.2 }, .unit)
  | .swap a b =>
    let r := swap s.m (s.hd a) (s.hd b)
    some ({ m := r.1, hd := setHd (setHd s.hd a r.2.1) b r.2.2 }, .unit)
  | .clear l poison =>
    let r := clear s.m (s.hd l) poison
    some ({ m := r.1, hd := setHd s.hd l r.2.1 }, .cleared r.2.2)
  | .front l => some (s, .ptr (front s.m (s.hd l)))
  | .back l => some (s, .ptr (back s.m (s.hd l)))
  | .foreach l visit =>
    let r := foreach s.m (s.hd l) visit
    some (s, .visited r.1 r.2)

def run (s : St) : List Op → Option (St × List Res)
  | [] => some (s, [])
  | op :: ops =>
    match step s op with
    | none => none
    | some (s', r) =>
      match run s' ops with
      | none => none
      | some (s'', rs) => some (s'', r :: rs)

/-! ### reference semantics on sequences -/

def insAfterL (b e : Nat) : List Nat → List Nat
  | [] => []
  | x :: xs => if x = b then x :: e :: xs else x :: insAfterL b e xs

def eraAfterL (b : Nat) : List Nat → Option (Nat × List Nat)
  | [] => none
  | [_] => none
  | x :: y :: xs =>
    if x = b then some (y, x :: xs)
    else match eraAfterL b (y :: xs) with
      | none => none
      | some (n, r) => some (n, x :: r)

/-- reference semantics of a traversal with a visit function: visit in order,
stop at (and return) the first non-zero result -/
def refForeach (visit : Nat → Nat → Int) : List Nat → Nat → List Nat × Int
  | [], _ => ([], 0)
  | x :: xs, k =>
    if visit k x ≠ 0 then ([x], visit k x)
    else ((x :: (refForeach visit xs (k + 1)).1), (refForeach visit xs (k + 1)).2)

/-- reference step.  `sort` is specified by the model's own merge sort *as a
function on sequences*; that it is an ordered permutation is a separate
theorem (`msort_perm`, `msort_sorted`), so the reference is "some ordered
permutation", made deterministic. -/
def refStep (q : Nat → List Nat) : Op → (Nat → List Nat) × Res
  | .pushFront l e => (setSeq q l (e :: q l), .unit)
  | .pushBack l e => (setSeq q l (q l ++ [e]), .unit)
  | .insertAfter l b e => (setSeq q l (insAfterL b e (q l)), .unit)
  | .eraseAfter l b =>
    match eraAfterL b (q l) with
    | none => (q, .ptr none)
    | some (n, r) => (setSeq q l r, .ptr (some n))
  | .popFront l =>
    match q l with
    | [] => (q, .ptr none)
    | x :: xs => (setSeq q l xs, .ptr (some x))
  | .reverse l => (setSeq q l (q l).reverse, .unit)
  | .sort l key => (setSeq q l (if (q l).length > 1 then msort key (q l).length (q l) else q l), .unit)
  | .concat d s => (setSeq (setSeq q d (q d ++ q s)) s [], .unit)
  | .swap a b => (setSeq (setSeq q a (q b)) b (q a), .unit)
  | .clear l _ => (setSeq q l [], .cleared (q l))
  | .front l => (q, .ptr (q l).head?)
  | .back l => (q, .ptr (q l).getLast?)
  | .foreach l visit => (q, .visited (refForeach visit (q l) 0).1 (refForeach visit (q l) 0).2)

def refRun (q : Nat → List Nat) : List Op → (Nat → List Nat) × List Res
  | [] => (q, [])
  | op :: ops =>
    let r := refStep q op
    let rr := refRun r.1 ops
    (rr.1, r.2 :: rr.2)

/-- documented domain of each call, on the reference state of `n` lists whose
head nodes are at the (distinct, non-NULL) addresses `ha i` -/
def Enabled (n : Nat) (ha : Nat → Nat) (q : Nat → List Nat) : Op → Prop
  | .pushFront l e | .pushBack l e =>
    l < n ∧ e ≠ 0 ∧ ∀ j, j < n → e ≠ ha j ∧ e ∉ q j
  | .insertAfter l b e =>
    l < n ∧ b ∈ q l ∧ e ≠ 0 ∧ ∀ j, j < n → e ≠ ha j ∧ e ∉ q j
  | .eraseAfter l b => l < n ∧ ∃ pre x post, q l = pre ++ b :: x :: post
  | .popFront l | .reverse l | .sort l _ | .clear l _ | .front l | .back l | .foreach l _ => l < n
  | .concat a b | .swap a b => a < n ∧ b < n ∧ a ≠ b

def EnabledRun (n : Nat) (ha : Nat → Nat) (q : Nat → List Nat) : List Op → Prop
  | [] => True
  | op :: ops => Enabled n ha q op ∧ EnabledRun n ha (refStep q op).1 ops

end Cstl.SList
