import Cstl.SList.Model
/-
Helper lemmas for the link-level slist model: segments of links, the
abstraction predicate `IsSL`, transfer (frame) lemmas.
-/
namespace Cstl.SList

/-- following the links from `a` visits exactly `xs` (all non-NULL) and the
link of the last visited node (or of `a` itself) is `z` -/
def Seg (m : Mem) : Nat → List Nat → Nat → Prop
  | a, [], z => m a = z
  | a, x :: xs, z => m a = x ∧ x ≠ 0 ∧ Seg m x xs z

@[simp] theorem Seg_nil (m : Mem) (a z : Nat) : Seg m a [] z ↔ m a = z := Iff.rfl
@[simp] theorem Seg_cons (m : Mem) (a x z : Nat) (xs : List Nat) :
    Seg m a (x :: xs) z ↔ m a = x ∧ x ≠ 0 ∧ Seg m x xs z := Iff.rfl

@[simp] theorem lastOr_nil (a : Nat) : lastOr a [] = a := rfl
@[simp] theorem lastOr_cons (a x : Nat) (xs : List Nat) : lastOr a (x :: xs) = lastOr x xs := rfl

theorem lastOr_append_cons (a y : Nat) (xs ys : List Nat) :
    lastOr a (xs ++ y :: ys) = lastOr y ys := by
  induction xs generalizing a with
  | nil => rfl
  | cons x xs ih => simpa using ih x

theorem lastOr_append_singleton (a y : Nat) (xs : List Nat) : lastOr a (xs ++ [y]) = y := by
  simpa using lastOr_append_cons a y xs []

theorem lastOr_mem (a : Nat) (xs : List Nat) : lastOr a xs ∈ a :: xs := by
  induction xs generalizing a with
  | nil => simp
  | cons x xs ih =>
    have := ih x
    simp only [lastOr_cons]
    exact List.mem_cons_of_mem _ this

theorem lastOr_eq_head_iff (a : Nat) (xs : List Nat) (hnd : (a :: xs).Nodup) :
    lastOr a xs = a ↔ xs = [] := by
  constructor
  · intro h
    cases xs with
    | nil => rfl
    | cons x xs =>
      exfalso
      have hm := lastOr_mem x xs
      simp only [lastOr_cons] at h
      rw [h] at hm
      exact (List.nodup_cons.mp hnd).1 hm
  · intro h; subst h; rfl

/-- the chain only depends on the link of the start node and the links of the
visited nodes -/
theorem Seg_transfer {m m' : Mem} {s s' : Nat} {xs : List Nat} {z : Nat}
    (h : Seg m s xs z) (hs : m' s' = m s) (hx : ∀ a ∈ xs, m' a = m a) : Seg m' s' xs z := by
  induction xs generalizing s s' with
  | nil => simpa [hs] using h
  | cons x xs ih =>
    obtain ⟨h1, h2, h3⟩ := h
    refine ⟨by rw [hs, h1], h2, ?_⟩
    exact ih h3 (hx x (by simp)) (fun a ha => hx a (by simp [ha]))

theorem Seg_append {m : Mem} {a y z : Nat} {xs ys : List Nat} :
    Seg m a (xs ++ y :: ys) z ↔ Seg m a xs y ∧ y ≠ 0 ∧ Seg m y ys z := by
  induction xs generalizing a with
  | nil => simp
  | cons x xs ih => simp [ih, and_assoc]

/-- the link of the last visited node is `z` -/
theorem Seg_last {m : Mem} {a z : Nat} {xs : List Nat} (h : Seg m a xs z) : m (lastOr a xs) = z := by
  induction xs generalizing a with
  | nil => simpa using h
  | cons x xs ih => exact ih h.2.2

/-- overwrite the link of the last node of a duplicate-free chain -/
theorem Seg_upd_last {m : Mem} {a z v : Nat} {xs : List Nat} (h : Seg m a xs z)
    (hnd : (a :: xs).Nodup) : Seg (upd m (lastOr a xs) v) a xs v := by
  induction xs generalizing a with
  | nil => simp
  | cons x xs ih =>
    obtain ⟨h1, h2, h3⟩ := h
    have hnd' : (x :: xs).Nodup := (List.nodup_cons.mp hnd).2
    have hne : a ≠ lastOr x xs := by
      intro e
      have := lastOr_mem x xs
      rw [← e] at this
      exact (List.nodup_cons.mp hnd).1 this
    refine ⟨?_, h2, ih h3 hnd'⟩
    simp only [lastOr_cons]
    rw [upd_other _ _ _ _ hne, h1]

theorem Seg_nonzero {m : Mem} {a z : Nat} {xs : List Nat} (h : Seg m a xs z) : ∀ x ∈ xs, x ≠ 0 := by
  induction xs generalizing a with
  | nil => simp
  | cons x xs ih =>
    intro y hy
    rcases List.mem_cons.mp hy with rfl | hy
    · exact h.2.1
    · exact ih h.2.2 y hy

/-- Abstraction: the list header `l` in memory `m` represents the sequence `xs`. -/
structure IsSL (m : Mem) (l : Hd) (xs : List Nat) : Prop where
  path : Seg m l.h xs 0
  nodup : (l.h :: xs).Nodup
  hnz : l.h ≠ 0
  tail : l.t = lastOr l.h xs
  count : l.count = xs.length

theorem IsSL.transfer {m m' : Mem} {l : Hd} {xs : List Nat} (h : IsSL m l xs)
    (hm : ∀ a ∈ l.h :: xs, m' a = m a) : IsSL m' l xs :=
  { h with path := Seg_transfer h.path (hm _ (by simp)) (fun a ha => hm a (by simp [ha])) }

theorem IsSL.nonzero {m : Mem} {l : Hd} {xs : List Nat} (h : IsSL m l xs) : ∀ x ∈ xs, x ≠ 0 :=
  Seg_nonzero h.path

theorem IsSL.tail_eq_head_iff {m : Mem} {l : Hd} {xs : List Nat} (h : IsSL m l xs) :
    l.t = l.h ↔ xs = [] := by
  rw [h.tail]; exact lastOr_eq_head_iff _ _ h.nodup

theorem IsSL.tail_link {m : Mem} {l : Hd} {xs : List Nat} (h : IsSL m l xs) : m l.t = 0 := by
  rw [h.tail]; exact Seg_last h.path

theorem IsSL.tail_mem {m : Mem} {l : Hd} {xs : List Nat} (h : IsSL m l xs) : l.t ∈ l.h :: xs := by
  rw [h.tail]; exact lastOr_mem _ _

/-- The freshly initialised list. -/
theorem IsSL_init (m : Mem) (h : Nat) (hnz : h ≠ 0) : IsSL (init m h).1 (init m h).2 [] :=
  { path := by simp [init], nodup := by simp [init], hnz := by simpa [init] using hnz,
    tail := by simp [init], count := by simp [init] }

/-- walking a represented list with enough fuel reads back the sequence
(this is what the driver's state dump prints) -/
theorem walk_of_Seg {m : Mem} {a : Nat} {xs : List Nat} (h : Seg m a xs 0) (fuel : Nat)
    (hf : xs.length ≤ fuel) : walk m fuel a = xs := by
  induction xs generalizing a fuel with
  | nil =>
    cases fuel with
    | zero => rfl
    | succ f => simp only [Seg_nil] at h; simp [walk, h]
  | cons x xs ih =>
    obtain ⟨h1, h2, h3⟩ := h
    cases fuel with
    | zero => simp at hf
    | succ f =>
      simp only [walk, h1, h2, if_false]
      rw [ih h3 f (by simpa using hf)]

end Cstl.SList

namespace Cstl.SList

theorem Seg_append' {m : Mem} {a z : Nat} {xs ys : List Nat} :
    Seg m a (xs ++ ys) z ↔ Seg m a xs (m (lastOr a xs)) ∧ Seg m (lastOr a xs) ys z := by
  induction xs generalizing a with
  | nil => simp
  | cons x xs ih => simp [ih, and_assoc]

theorem nodup_split {h : Nat} {pre post : List Nat} (hnd : (h :: (pre ++ post)).Nodup) :
    (h :: pre).Nodup ∧ post.Nodup ∧ ∀ a ∈ h :: pre, a ∉ post := by
  have : ((h :: pre) ++ post).Nodup := by simpa using hnd
  rw [List.nodup_append] at this
  refine ⟨this.1, this.2.1, ?_⟩
  intro a ha hb
  exact this.2.2 a ha a hb rfl

theorem nodup_insert_mid {h nn : Nat} {pre post : List Nat} (hnd : (h :: (pre ++ post)).Nodup)
    (hnn : nn ∉ h :: (pre ++ post)) : (h :: (pre ++ nn :: post)).Nodup := by
  have hp : (h :: (pre ++ nn :: post)).Perm (nn :: h :: (pre ++ post)) := by
    have : (pre ++ nn :: post).Perm (nn :: (pre ++ post)) := List.perm_middle
    exact (this.cons h).trans (List.Perm.swap nn h _)
  rw [hp.nodup_iff]
  exact List.nodup_cons.mpr ⟨hnn, hnd⟩

theorem nodup_remove_mid {h n : Nat} {pre post : List Nat} (hnd : (h :: (pre ++ n :: post)).Nodup) :
    (h :: (pre ++ post)).Nodup ∧ n ∉ h :: (pre ++ post) := by
  have hp : (h :: (pre ++ n :: post)).Perm (n :: h :: (pre ++ post)) := by
    have : (pre ++ n :: post).Perm (n :: (pre ++ post)) := List.perm_middle
    exact (this.cons h).trans (List.Perm.swap n h _)
  rw [hp.nodup_iff] at hnd
  exact ⟨(List.nodup_cons.mp hnd).2, (List.nodup_cons.mp hnd).1⟩

/-- the pointer `c` leads through exactly `ys` to NULL -/
def Chain (m : Mem) : Nat → List Nat → Prop
  | c, [] => c = 0
  | c, y :: ys => c = y ∧ y ≠ 0 ∧ Chain m (m y) ys

theorem Seg_iff_Chain {m : Mem} {p : Nat} {ys : List Nat} : Seg m p ys 0 ↔ Chain m (m p) ys := by
  induction ys generalizing p with
  | nil => simp [Chain]
  | cons y ys ih => simp [Chain, ih]

theorem Chain_transfer {m m' : Mem} {c : Nat} {ys : List Nat} (h : Chain m c ys)
    (hx : ∀ a ∈ ys, m' a = m a) : Chain m' c ys := by
  induction ys generalizing c with
  | nil => exact h
  | cons y ys ih =>
    obtain ⟨h1, h2, h3⟩ := h
    refine ⟨h1, h2, ?_⟩
    rw [hx y (by simp)]
    exact ih h3 (fun a ha => hx a (by simp [ha]))

/-! ### merge sort on sequences -/

theorem merge_perm (key : Nat → Int) (xs ys : List Nat) : (merge key xs ys).Perm (xs ++ ys) := by
  fun_induction merge key xs ys with
  | case1 ys => simp
  | case2 xs h => simp
  | case3 x xs y ys hle ih => exact ih.cons x
  | case4 x xs y ys hle ih =>
    refine (ih.cons y).trans ?_
    have : (x :: xs ++ y :: ys).Perm (y :: (x :: xs ++ ys)) := List.perm_middle
    exact this.symm

def SortedBy (key : Nat → Int) (xs : List Nat) : Prop := xs.Pairwise (fun a b => key a ≤ key b)

theorem merge_sorted (key : Nat → Int) (xs ys : List Nat) (hx : SortedBy key xs) (hy : SortedBy key ys) :
    SortedBy key (merge key xs ys) := by
  fun_induction merge key xs ys with
  | case1 ys => exact hy
  | case2 xs h => exact hx
  | case3 x xs y ys hle ih =>
    have hx' := List.pairwise_cons.mp hx
    have hy' := List.pairwise_cons.mp hy
    refine List.pairwise_cons.mpr ⟨?_, ih hx'.2 hy⟩
    intro z hz
    have := (merge_perm key xs (y :: ys)).mem_iff.mp hz
    rcases List.mem_append.mp this with h | h
    · exact hx'.1 z h
    · rcases List.mem_cons.mp h with rfl | h
      · exact hle
      · exact Int.le_trans hle (hy'.1 z h)
  | case4 x xs y ys hle ih =>
    have hx' := List.pairwise_cons.mp hx
    have hy' := List.pairwise_cons.mp hy
    have hlt : key y ≤ key x := by omega
    refine List.pairwise_cons.mpr ⟨?_, ih hx hy'.2⟩
    intro z hz
    have := (merge_perm key (x :: xs) ys).mem_iff.mp hz
    rcases List.mem_append.mp this with h | h
    · rcases List.mem_cons.mp h with rfl | h
      · exact hlt
      · exact Int.le_trans hlt (hx'.1 z h)
    · exact hy'.1 z h

theorem msort_perm (key : Nat → Int) (fuel : Nat) (xs : List Nat) : (msort key fuel xs).Perm xs := by
  induction fuel generalizing xs with
  | zero => simp [msort]
  | succ f ih =>
    simp only [msort]
    split
    · refine (merge_perm key _ _).trans ?_
      refine ((ih _).append (ih _)).trans ?_
      rw [List.take_append_drop]
    · exact List.Perm.refl _

theorem msort_sorted (key : Nat → Int) (fuel : Nat) (xs : List Nat) (hf : xs.length ≤ fuel) :
    SortedBy key (msort key fuel xs) := by
  induction fuel generalizing xs with
  | zero =>
    have : xs = [] := List.length_eq_zero_iff.mp (by omega)
    subst this; simp [msort, SortedBy]
  | succ f ih =>
    simp only [msort]
    split
    · rename_i hlen
      refine merge_sorted key _ _ (ih _ ?_) (ih _ ?_)
      · simp; omega
      · simp; omega
    · rename_i hlen
      match xs, hlen with
      | [], _ => simp [SortedBy]
      | [_], _ => simp [SortedBy]
      | _ :: _ :: _, h => simp at h

/-- writing the links of a duplicate-free non-NULL sequence represents it -/
theorem relink_spec (m : Mem) (a : Nat) (ys : List Nat) (hnd : (a :: ys).Nodup) (hnz : ∀ y ∈ ys, y ≠ 0) :
    Seg (relink m a ys) a ys 0 ∧ ∀ x, x ∉ a :: ys → relink m a ys x = m x := by
  induction ys generalizing m a with
  | nil => exact ⟨by simp [relink], fun x hx => upd_other _ _ _ _ (by simpa using hx)⟩
  | cons y ys ih =>
    have hnd' := (List.nodup_cons.mp hnd).2
    have hay : a ∉ y :: ys := (List.nodup_cons.mp hnd).1
    obtain ⟨i1, i2⟩ := ih (upd m a y) y hnd' (fun z hz => hnz z (by simp [hz]))
    refine ⟨⟨?_, hnz y (by simp), i1⟩, ?_⟩
    · show relink (upd m a y) y ys a = y
      rw [i2 a hay]; simp
    · intro x hx
      show relink (upd m a y) y ys x = m x
      rw [i2 x (fun hm => hx (by simp [hm]))]
      exact upd_other _ _ _ _ (fun e => hx (by simp [e]))

theorem lastOr_eq_getLast? (a : Nat) (xs : List Nat) : xs.getLast? = if xs = [] then none else some (lastOr a xs) := by
  induction xs generalizing a with
  | nil => simp
  | cons x xs ih =>
    simp only [lastOr_cons]
    cases xs with
    | nil => simp
    | cons y ys =>
      have := ih x
      simp only [List.getLast?_cons_cons] at this ⊢
      simpa using this

end Cstl.SList
