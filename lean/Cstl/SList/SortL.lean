import Cstl.SList.Props
/-
Link-level model of `cstl_slist_sort` (src/slist.c) and the theorem that it
refines the sequence-level model `msort` of `Model.lean`.

The C function keeps two temporary list heads `_sl[2]` on its stack and calls
itself on them.  Here the two heads of the activation at recursion depth `d`
live at the addresses `(tmp d).1` and `(tmp d).2`; the two recursive calls of
one activation both run at depth `d + 1` and therefore reuse the same pair of
addresses, exactly as the two calls reuse the same stack frame.  The caller of
the theorems only has to provide addresses that are non-NULL, pairwise
different and different from every node of the list (`Fresh`).

One `upd` per C assignment, in the C order; the split loop, the merge loop and
the recursion are fuelled (`none` = did not finish, or a NULL pointer would
have been dereferenced by `__cstl_slist_erase_after`).
-/
namespace Cstl.SList

/-- `for (t = &sl->h; _sl[0].count < sl->count / 2; t = t->n, _sl[0].count++) ;`
state: the counter `_sl[0].count` and the pointer `t`; `half = sl->count / 2`. -/
def splitLoop : Nat → Mem → Nat → Nat → Nat → Option (Nat × Nat)
  | 0, _, half, cnt, t => if cnt < half then none else some (cnt, t)
  | fuel + 1, m, half, cnt, t =>
    if cnt < half then splitLoop fuel m half (cnt + 1) (m t) else some (cnt, t)

/-- the merge loop: while both halves are non-empty, unlink the front node of
the half whose front compares `<= 0` (left on ties) with
`__cstl_slist_erase_after(l, &l->h)` and append it to the output with
`__cstl_slist_insert_after(sl, sl->t, …)`. -/
def mergeLoop (cmp : Nat → Nat → Int) : Nat → Mem → Hd → Hd → Hd → Option (Mem × Hd × Hd × Hd)
  | 0, m, l, a, b => if a.count > 0 ∧ b.count > 0 then none else some (m, l, a, b)
  | fuel + 1, m, l, a, b =>
    if a.count > 0 ∧ b.count > 0 then
      if cmp (m a.h) (m b.h) ≤ 0 then
        match eraseAfter m a a.h with
        | none => none
        | some (m1, a1, n) =>
          let r := insertAfter m1 l l.t n
          mergeLoop cmp fuel r.1 r.2 a1 b
      else
        match eraseAfter m b b.h with
        | none => none
        | some (m1, b1, n) =>
          let r := insertAfter m1 l l.t n
          mergeLoop cmp fuel r.1 r.2 a b1
    else some (m, l, a, b)

/-- the assignments between the split loop and the recursive calls: the two
temporary heads take over the two halves, the list itself is re-initialised.
`a`, `b` are the (initialised) temporary headers, `t` the last node of the
first half. -/
def splitLinks (m : Mem) (l a b : Hd) (t : Nat) : Mem × Hd × Hd × Hd :=
  let m1 := upd m a.h (m l.h)                 -- _sl[0].h.n = sl->h.n
  let a1 := { a with t := t }                 -- _sl[0].t = t
  let m2 := upd m1 b.h (m1 t)                 -- _sl[1].h.n = t->n
  let b1 := { b with t := l.t }               -- _sl[1].t = sl->t
  let m3 := upd m2 t 0                        -- t->n = NULL
  let b2 := { b1 with count := l.count - a1.count }   -- _sl[1].count = sl->count - _sl[0].count
  let r := init m3 l.h                        -- cstl_slist_init(sl, sl->off)
  (r.1, r.2, a1, b2)

/-- `cstl_slist_sort` at link level.  `fuel` bounds the recursion depth and
the iterations of each loop; `d` is the recursion depth (selects the scratch
heads). -/
def sortL (cmp : Nat → Nat → Int) (tmp : Nat → Nat × Nat) : Nat → Nat → Mem → Hd → Option (Mem × Hd)
  | 0, _, _, _ => none
  | fuel + 1, d, m, l =>
    if l.count > 1 then
      let ra := init m (tmp d).1                -- cstl_slist_init(&_sl[0], sl->off)
      let rb := init ra.1 (tmp d).2             -- cstl_slist_init(&_sl[1], sl->off)
      match splitLoop fuel rb.1 (l.count / 2) ra.2.count l.h with
      | none => none
      | some (cnt, t) =>
        let s := splitLinks rb.1 l { ra.2 with count := cnt } rb.2 t
        match sortL cmp tmp fuel (d + 1) s.1 s.2.2.1 with          -- cstl_slist_sort(&_sl[0], …)
        | none => none
        | some (m1, a1) =>
          match sortL cmp tmp fuel (d + 1) m1 s.2.2.2 with         -- cstl_slist_sort(&_sl[1], …)
          | none => none
          | some (m2, b1) =>
            match mergeLoop cmp fuel m2 s.2.1 a1 b1 with
            | none => none
            | some (m3, l3, a3, b3) =>
              if a3.count > 0 then
                let r := concat m3 l3 a3
                some (r.1, r.2.1)
              else
                let r := concat m3 l3 b3
                some (r.1, r.2.1)
    else some (m, l)


theorem msort_fuel (key : Nat → Int) : ∀ (f1 f2 : Nat) (xs : List Nat), xs.length ≤ f1 → xs.length ≤ f2 →
    msort key f1 xs = msort key f2 xs := by
  intro f1
  induction f1 with
  | zero =>
    intro f2 xs h1 _
    have : xs = [] := List.length_eq_zero_iff.mp (by omega)
    subst this
    cases f2 <;> simp [msort]
  | succ f ih =>
    intro f2 xs h1 h2
    cases f2 with
    | zero =>
      have : xs = [] := List.length_eq_zero_iff.mp (by omega)
      subst this
      simp [msort]
    | succ g =>
      simp only [msort]
      split
      · rename_i hl
        rw [ih g (xs.take (xs.length / 2)) (by simp; omega) (by simp; omega),
            ih g (xs.drop (xs.length / 2)) (by simp; omega) (by simp; omega)]
      · rfl

theorem splitLoop_spec {m : Mem} {t z : Nat} {ys rest : List Nat} (fuel half cnt : Nat)
    (hs : Seg m t (ys ++ rest) z) (hc : cnt + ys.length = half) (hf : ys.length ≤ fuel) :
    splitLoop fuel m half cnt t = some (half, lastOr t ys) := by
  induction ys generalizing t cnt fuel with
  | nil =>
    have : ¬ cnt < half := by simp at hc; omega
    have e : cnt = half := by simp at hc; omega
    cases fuel <;> simp [splitLoop, e]
  | cons y ys ih =>
    cases fuel with
    | zero => simp at hf
    | succ f =>
      have hlt : cnt < half := by simp at hc; omega
      have hy : m t = y := hs.1
      simp only [splitLoop, hlt, if_true, hy]
      exact ih f (cnt + 1) hs.2.2 (by simp at hc ⊢; omega) (by simpa using hf)

/-- the addresses of the temporary heads used at recursion depth `d` or deeper -/
def Scratch (tmp : Nat → Nat × Nat) (d a : Nat) : Prop :=
  ∃ e, d ≤ e ∧ (a = (tmp e).1 ∨ a = (tmp e).2)

/-- the temporary heads of depth `d` and deeper are non-NULL, pairwise
different, and none of them is in `used` -/
structure Fresh (tmp : Nat → Nat × Nat) (d : Nat) (used : List Nat) : Prop where
  nz : ∀ e, d ≤ e → (tmp e).1 ≠ 0 ∧ (tmp e).2 ≠ 0
  ne : ∀ e, d ≤ e → (tmp e).1 ≠ (tmp e).2
  inj : ∀ e e', d ≤ e → d ≤ e' → e ≠ e' →
    (tmp e).1 ≠ (tmp e').1 ∧ (tmp e).1 ≠ (tmp e').2 ∧ (tmp e).2 ≠ (tmp e').1 ∧ (tmp e).2 ≠ (tmp e').2
  dis : ∀ a, Scratch tmp d a → a ∉ used

theorem Scratch.mono {tmp : Nat → Nat × Nat} {d a : Nat} (h : Scratch tmp (d + 1) a) : Scratch tmp d a := by
  obtain ⟨e, he, h⟩ := h
  exact ⟨e, by omega, h⟩

theorem Scratch.here1 (tmp : Nat → Nat × Nat) (d : Nat) : Scratch tmp d (tmp d).1 := ⟨d, Nat.le_refl _, Or.inl rfl⟩
theorem Scratch.here2 (tmp : Nat → Nat × Nat) (d : Nat) : Scratch tmp d (tmp d).2 := ⟨d, Nat.le_refl _, Or.inr rfl⟩

/-- freshness for a recursive call: its list consists of one of this
activation's temporary heads and some of the nodes -/
theorem Fresh.sub {tmp : Nat → Nat × Nat} {d : Nat} {used used' : List Nat} (h : Fresh tmp d used)
    (hs : ∀ x ∈ used', x ∈ used ∨ x = (tmp d).1 ∨ x = (tmp d).2) : Fresh tmp (d + 1) used' := by
  refine ⟨fun e he => h.nz e (by omega), fun e he => h.ne e (by omega),
    fun e e' he he' hne => h.inj e e' (by omega) (by omega) hne, ?_⟩
  intro a hsc hm
  obtain ⟨e, he, hae⟩ := hsc
  have hi := h.inj e d (by omega) (Nat.le_refl _) (by omega)
  rcases hs a hm with h1 | h1 | h1
  · exact h.dis a ⟨e, by omega, hae⟩ h1
  · rcases hae with h2 | h2
    · exact hi.1 (h2 ▸ h1)
    · exact hi.2.2.1 (h2 ▸ h1)
  · rcases hae with h2 | h2
    · exact hi.2.1 (h2 ▸ h1)
    · exact hi.2.2.2 (h2 ▸ h1)

theorem splitLinks_spec {m : Mem} {l a b : Hd} {pre post : List Nat}
    (h : IsSL m l (pre ++ post)) (hpre : pre ≠ []) (hpost : post ≠ [])
    (ha : a.h ∉ l.h :: (pre ++ post)) (hb : b.h ∉ l.h :: (pre ++ post)) (hab : a.h ≠ b.h)
    (haz : a.h ≠ 0) (hbz : b.h ≠ 0) (hac : a.count = pre.length) :
    let r := splitLinks m l a b (lastOr l.h pre)
    IsSL r.1 r.2.1 [] ∧ r.2.1.h = l.h ∧ IsSL r.1 r.2.2.1 pre ∧ r.2.2.1.h = a.h
    ∧ IsSL r.1 r.2.2.2 post ∧ r.2.2.2.h = b.h
    ∧ ∀ x, x ∉ l.h :: (pre ++ post) → x ≠ a.h → x ≠ b.h → r.1 x = m x := by
  obtain ⟨p1, pre', rfl⟩ := List.exists_cons_of_ne_nil hpre
  obtain ⟨q1, post', rfl⟩ := List.exists_cons_of_ne_nil hpost
  obtain ⟨hp, hnd, hhz, ht, hc⟩ := h
  have hp' : Seg m l.h (p1 :: (pre' ++ q1 :: post')) 0 := by simpa using hp
  obtain ⟨hl1, hp1z, hp2⟩ := hp'
  rw [Seg_append] at hp2
  obtain ⟨sA, hq1z, sB⟩ := hp2
  have hnd' : (l.h :: p1 :: (pre' ++ q1 :: post')).Nodup := by simpa using hnd
  obtain ⟨t, htdef⟩ : ∃ t, t = lastOr p1 pre' := ⟨_, rfl⟩
  have htm : t ∈ p1 :: pre' := htdef ▸ lastOr_mem _ _
  have hmt : m t = q1 := htdef ▸ Seg_last sA
  have hndA : (p1 :: pre').Nodup := by
    have : ((l.h :: p1 :: pre') ++ q1 :: post').Nodup := by simpa using hnd'
    exact (List.nodup_cons.mp (List.nodup_append.mp this).1).2
  -- the final memory
  let m' := upd (upd (upd (upd m a.h (m l.h)) b.h (upd m a.h (m l.h) t)) t 0) l.h 0
  have e : splitLinks m l a b (lastOr l.h (p1 :: pre'))
      = (m', { h := l.h, t := l.h, count := 0 }, { a with t := t },
         { b with t := l.t, count := l.count - a.count }) := by
    rw [lastOr_cons, ← htdef]; rfl
  have hta : t ≠ a.h := by intro e; apply ha; rw [← e]; simp only [List.mem_cons, List.mem_append] at htm ⊢; grind
  have htb : t ≠ b.h := by intro e; apply hb; rw [← e]; simp only [List.mem_cons, List.mem_append] at htm ⊢; grind
  have htl : t ≠ l.h := by
    intro e; have := (List.nodup_cons.mp hnd').1; apply this; rw [← e]
    simp only [List.mem_cons, List.mem_append] at htm ⊢; grind
  have hla : l.h ≠ a.h := fun e => ha (by simp [e])
  have hlb : l.h ≠ b.h := fun e => hb (by simp [e])
  have m'a : m' a.h = p1 := by
    show upd (upd (upd (upd m a.h (m l.h)) b.h _) t 0) l.h 0 a.h = p1
    rw [upd_other _ _ _ _ (Ne.symm hla), upd_other _ _ _ _ (Ne.symm hta), upd_other _ _ _ _ hab, upd_same, hl1]
  have m'b : m' b.h = q1 := by
    show upd (upd (upd (upd m a.h (m l.h)) b.h _) t 0) l.h 0 b.h = q1
    rw [upd_other _ _ _ _ (Ne.symm hlb), upd_other _ _ _ _ (Ne.symm htb), upd_same, upd_other _ _ _ _ hta, hmt]
  have m't : m' t = 0 := by
    show upd (upd _ t 0) l.h 0 t = 0
    rw [upd_other _ _ _ _ htl, upd_same]
  have m'l : m' l.h = 0 := upd_same _ _ _
  have m'o : ∀ x, x ≠ a.h → x ≠ b.h → x ≠ t → x ≠ l.h → m' x = m x := by
    intro x h1 h2 h3 h4
    show upd (upd (upd (upd m a.h (m l.h)) b.h _) t 0) l.h 0 x = m x
    rw [upd_other _ _ _ _ h4, upd_other _ _ _ _ h3, upd_other _ _ _ _ h2, upd_other _ _ _ _ h1]
  have hmemA : ∀ x ∈ p1 :: pre', x ≠ a.h ∧ x ≠ b.h ∧ x ≠ l.h ∧ x ∉ q1 :: post' := by
    intro x hx
    refine ⟨fun e => ha (by rw [← e]; simp only [List.mem_cons, List.mem_append] at hx ⊢; grind),
      fun e => hb (by rw [← e]; simp only [List.mem_cons, List.mem_append] at hx ⊢; grind), ?_, ?_⟩
    · intro e; apply (List.nodup_cons.mp hnd').1; rw [← e]
      simp only [List.mem_cons, List.mem_append] at hx ⊢; grind
    · intro hm
      have : ((l.h :: p1 :: pre') ++ q1 :: post').Nodup := by simpa using hnd'
      exact (List.nodup_append.mp this).2.2 x (by simp only [List.mem_cons] at hx ⊢; grind) x hm rfl
  have hmemB : ∀ x ∈ q1 :: post', x ≠ a.h ∧ x ≠ b.h ∧ x ≠ l.h ∧ x ≠ t := by
    intro x hx
    refine ⟨fun e => ha (by rw [← e]; simp only [List.mem_cons, List.mem_append] at hx ⊢; grind),
      fun e => hb (by rw [← e]; simp only [List.mem_cons, List.mem_append] at hx ⊢; grind), ?_, ?_⟩
    · intro e; apply (List.nodup_cons.mp hnd').1; rw [← e]
      simp only [List.mem_cons, List.mem_append] at hx ⊢; grind
    · intro e; exact (hmemA t htm).2.2.2 (e ▸ hx)
  have hndB : (q1 :: post').Nodup := by
    have : ((l.h :: p1 :: pre') ++ q1 :: post').Nodup := by simpa using hnd'
    exact (List.nodup_append.mp this).2.1
  simp only [e]
  refine ⟨⟨by simpa using m'l, by simp, hhz, rfl, rfl⟩, by first | rfl | trivial, ⟨?_, ?_, haz, ?_, ?_⟩,
    by first | rfl | trivial, ⟨?_, ?_, hbz, ?_, ?_⟩, by first | rfl | trivial, ?_⟩
  · -- first half
    refine ⟨m'a, hp1z, ?_⟩
    have s1 : Seg (upd m t 0) p1 pre' 0 := htdef ▸ Seg_upd_last (v := 0) sA hndA
    refine Seg_transfer s1 ?_ ?_
    · by_cases h1 : p1 = t
      · rw [h1, m't, upd_same]
      · rw [upd_other _ _ _ _ h1]
        exact m'o p1 (hmemA p1 (by simp)).1 (hmemA p1 (by simp)).2.1 h1 (hmemA p1 (by simp)).2.2.1
    · intro x hx
      have hx' : x ∈ p1 :: pre' := by simp [hx]
      by_cases h1 : x = t
      · rw [h1, m't, upd_same]
      · rw [upd_other _ _ _ _ h1]
        exact m'o x (hmemA x hx').1 (hmemA x hx').2.1 h1 (hmemA x hx').2.2.1
  · exact List.nodup_cons.mpr ⟨fun hm => (hmemA _ hm).1 rfl, hndA⟩
  · exact htdef
  · simpa using hac
  · -- second half
    refine ⟨m'b, hq1z, ?_⟩
    refine Seg_transfer sB ?_ ?_
    · exact m'o q1 (hmemB q1 (by simp)).1 (hmemB q1 (by simp)).2.1 (hmemB q1 (by simp)).2.2.2 (hmemB q1 (by simp)).2.2.1
    · intro x hx
      have hx' : x ∈ q1 :: post' := by simp [hx]
      exact m'o x (hmemB x hx').1 (hmemB x hx').2.1 (hmemB x hx').2.2.2 (hmemB x hx').2.2.1
  · exact List.nodup_cons.mpr ⟨fun hm => (hmemB _ hm).2.1 rfl, hndB⟩
  · show l.t = lastOr b.h (q1 :: post')
    rw [ht, lastOr_append_cons]; rfl
  · show l.count - a.count = (q1 :: post').length
    rw [hc, hac]; simp
  · intro x hx h1 h2
    refine m'o x h1 h2 (fun e2 => hx ?_) (fun e2 => hx (by simp [e2]))
    rw [e2]; simp only [List.mem_cons, List.mem_append] at htm ⊢; grind

theorem eraseAfter_h {m m' : Mem} {l l' : Hd} {e n : Nat} (h : eraseAfter m l e = some (m', l', n)) :
    l'.h = l.h := by
  simp only [eraseAfter] at h
  split at h
  · cases h
  · simp only [Option.some.injEq, Prod.mk.injEq] at h
    rw [← h.2.1]

theorem merge_nil_right (key : Nat → Int) (xs : List Nat) : merge key xs [] = xs := by
  cases xs <;> simp [merge]

/-- loop invariant of the merge loop: the output list, the two halves -/
theorem mergeLoop_spec (cmp : Nat → Nat → Int) (key : Nat → Int) (hck : ∀ x y, cmp x y ≤ 0 ↔ key x ≤ key y)
    (fuel : Nat) {m : Mem} {l a b : Hd} {out as bs : List Nat}
    (hl : IsSL m l out) (ha : IsSL m a as) (hb : IsSL m b bs)
    (dla : Disjoint l out a as) (dlb : Disjoint l out b bs) (dab : Disjoint a as b bs)
    (hf : as.length + bs.length ≤ fuel) :
    ∃ m' l' a' b' out' as' bs', mergeLoop cmp fuel m l a b = some (m', l', a', b')
      ∧ IsSL m' l' out' ∧ IsSL m' a' as' ∧ IsSL m' b' bs'
      ∧ l'.h = l.h ∧ a'.h = a.h ∧ b'.h = b.h
      ∧ (as' = [] ∨ bs' = []) ∧ out' ++ as' ++ bs' = out ++ merge key as bs
      ∧ Disjoint l' out' a' as' ∧ Disjoint l' out' b' bs'
      ∧ (∀ x, x ∉ l.h :: out → x ∉ a.h :: as → x ∉ b.h :: bs → m' x = m x) := by
  induction fuel generalizing m l a b out as bs with
  | zero =>
    have h1 : as = [] := List.length_eq_zero_iff.mp (by omega)
    have h2 : bs = [] := List.length_eq_zero_iff.mp (by omega)
    subst h1 h2
    have hc : a.count = 0 := ha.count
    refine ⟨m, l, a, b, out, [], [], by simp [mergeLoop, hc], hl, ha, hb, rfl, rfl, rfl, Or.inl rfl,
      by simp [merge], dla, dlb, fun _ _ _ _ => rfl⟩
  | succ f ih =>
    by_cases hex : as = [] ∨ bs = []
    · have hc : ¬ (a.count > 0 ∧ b.count > 0) := by
        rcases hex with h | h
        · subst h; have := ha.count; simp at this; omega
        · subst h; have := hb.count; simp at this; omega
      refine ⟨m, l, a, b, out, as, bs, by simp only [mergeLoop, hc, if_false], hl, ha, hb, rfl, rfl, rfl, hex,
        ?_, dla, dlb, fun _ _ _ _ => rfl⟩
      rcases hex with h | h
      · subst h; simp [merge]
      · subst h; simp [merge_nil_right]
    · obtain ⟨x, as1, rfl⟩ := List.exists_cons_of_ne_nil (fun h => hex (Or.inl h))
      obtain ⟨y, bs1, rfl⟩ := List.exists_cons_of_ne_nil (fun h => hex (Or.inr h))
      have hc : a.count > 0 ∧ b.count > 0 := by
        have h1 := ha.count; have h2 := hb.count; simp at h1 h2; omega
      have hax : m a.h = x := ha.path.1
      have hby : m b.h = y := hb.path.1
      have hlt : l.t ∈ l.h :: out := hl.tail_mem
      by_cases hle : key x ≤ key y
      · -- take from the left half
        have hcmp : cmp x y ≤ 0 := (hck x y).mpr hle
        obtain ⟨m1, a1, e1, ha1, fr1⟩ := eraseAfter_spec (pre := []) (post := as1) (e := a.h) (n := x) ha rfl
        have ha1h : a1.h = a.h := eraseAfter_h e1
        have hxa : x ∉ a.h :: as1 := by
          have := ha.nodup
          simp only [List.nodup_cons, List.mem_cons] at this ⊢; grind
        have hxl : x ∉ l.h :: out := fun hm => dla x hm (by simp)
        have hxb : x ∉ b.h :: y :: bs1 := dab x (by simp)
        have hah_l : a.h ∉ l.h :: out := fun hm => dla a.h hm (by simp)
        have hah_b : a.h ∉ b.h :: y :: bs1 := dab a.h (by simp)
        have hl1 : IsSL m1 l out := hl.transfer (fun z hz => fr1 z (fun e => hah_l (e ▸ hz)))
        have hb1 : IsSL m1 b (y :: bs1) := hb.transfer (fun z hz => fr1 z (fun e => hah_b (e ▸ hz)))
        obtain ⟨hl2, fr2⟩ := pushBack_spec hl1 hxl (ha.nonzero x (by simp))
        have e2 : pushBack m1 l x = insertAfter m1 l l.t x := rfl
        rw [e2] at hl2 fr2
        have hl2h : (insertAfter m1 l l.t x).2.h = l.h := rfl
        have ha2 : IsSL (insertAfter m1 l l.t x).1 a1 as1 := by
          refine ha1.transfer (fun z hz => fr2 z (fun e => ?_) (fun e => ?_))
          · rw [ha1h] at hz; exact dla l.t hlt (by rw [← e]; simp only [List.mem_cons] at hz ⊢; grind)
          · rw [ha1h] at hz; exact hxa (e ▸ hz)
        have hb2 : IsSL (insertAfter m1 l l.t x).1 b (y :: bs1) := by
          refine hb1.transfer (fun z hz => fr2 z (fun e => ?_) (fun e => ?_))
          · exact dlb l.t hlt (e ▸ hz)
          · exact hxb (e ▸ hz)
        have dla2 : Disjoint (insertAfter m1 l l.t x).2 (out ++ [x]) a1 as1 := by
          intro z hz hm
          rw [hl2h] at hz; rw [ha1h] at hm
          have := dla z
          simp only [List.mem_cons, List.mem_append, List.not_mem_nil, or_false] at hz hm this hxa
          grind
        have dlb2 : Disjoint (insertAfter m1 l l.t x).2 (out ++ [x]) b (y :: bs1) := by
          intro z hz hm
          rw [hl2h] at hz
          have := dlb z
          simp only [List.mem_cons, List.mem_append, List.not_mem_nil, or_false] at hz hm this hxb
          grind
        have dab2 : Disjoint a1 as1 b (y :: bs1) := by
          intro z hz
          rw [ha1h] at hz
          exact dab z (by simp only [List.mem_cons] at hz ⊢; grind)
        obtain ⟨m', l', a', b', out', as', bs', e3, i1, i2, i3, i4, i5, i6, i7, i8, i9, i10, i11⟩ :=
          ih hl2 ha2 hb2 dla2 dlb2 dab2 (by simp at hf ⊢; omega)
        refine ⟨m', l', a', b', out', as', bs', ?_, i1, i2, i3, by rw [i4, hl2h], by rw [i5, ha1h], i6, i7, ?_, i9, i10, ?_⟩
        · simp only [mergeLoop, hc, and_self, if_true, hax, hby, hcmp, e1]
          exact e3
        · rw [i8]; simp [merge, hle]
        · intro z h1 h2 h3
          rw [i11 z (by rw [hl2h]; simp only [List.mem_cons, List.mem_append, List.not_mem_nil, or_false] at h1 h2 ⊢; grind)
            (by rw [ha1h]; simp only [List.mem_cons] at h2 ⊢; grind) h3]
          rw [fr2 z (fun e => h1 (e ▸ hlt)) (fun e => h2 (by simp [e]))]
          exact fr1 z (fun e => h2 (by simp [e]))
      · -- take from the right half
        have hcmp : ¬ cmp x y ≤ 0 := fun h => hle ((hck x y).mp h)
        obtain ⟨m1, b1, e1, hb1, fr1⟩ := eraseAfter_spec (pre := []) (post := bs1) (e := b.h) (n := y) hb rfl
        have hb1h : b1.h = b.h := eraseAfter_h e1
        have hyb : y ∉ b.h :: bs1 := by
          have := hb.nodup
          simp only [List.nodup_cons, List.mem_cons] at this ⊢; grind
        have hyl : y ∉ l.h :: out := fun hm => dlb y hm (by simp)
        have hya : y ∉ a.h :: x :: as1 := fun hm => dab y hm (by simp)
        have hbh_l : b.h ∉ l.h :: out := fun hm => dlb b.h hm (by simp)
        have hbh_a : b.h ∉ a.h :: x :: as1 := fun hm => dab b.h hm (by simp)
        have hl1 : IsSL m1 l out := hl.transfer (fun z hz => fr1 z (fun e => hbh_l (e ▸ hz)))
        have ha1 : IsSL m1 a (x :: as1) := ha.transfer (fun z hz => fr1 z (fun e => hbh_a (e ▸ hz)))
        obtain ⟨hl2, fr2⟩ := pushBack_spec hl1 hyl (hb.nonzero y (by simp))
        have e2 : pushBack m1 l y = insertAfter m1 l l.t y := rfl
        rw [e2] at hl2 fr2
        have hl2h : (insertAfter m1 l l.t y).2.h = l.h := rfl
        have hb2 : IsSL (insertAfter m1 l l.t y).1 b1 bs1 := by
          refine hb1.transfer (fun z hz => fr2 z (fun e => ?_) (fun e => ?_))
          · rw [hb1h] at hz; exact dlb l.t hlt (by rw [← e]; simp only [List.mem_cons] at hz ⊢; grind)
          · rw [hb1h] at hz; exact hyb (e ▸ hz)
        have ha2 : IsSL (insertAfter m1 l l.t y).1 a (x :: as1) := by
          refine ha1.transfer (fun z hz => fr2 z (fun e => ?_) (fun e => ?_))
          · exact dla l.t hlt (e ▸ hz)
          · exact hya (e ▸ hz)
        have dla2 : Disjoint (insertAfter m1 l l.t y).2 (out ++ [y]) a (x :: as1) := by
          intro z hz hm
          rw [hl2h] at hz
          have := dla z
          simp only [List.mem_cons, List.mem_append, List.not_mem_nil, or_false] at hz hm this hya
          grind
        have dlb2 : Disjoint (insertAfter m1 l l.t y).2 (out ++ [y]) b1 bs1 := by
          intro z hz hm
          rw [hl2h] at hz; rw [hb1h] at hm
          have := dlb z
          simp only [List.mem_cons, List.mem_append, List.not_mem_nil, or_false] at hz hm this hyb
          grind
        have dab2 : Disjoint a (x :: as1) b1 bs1 := by
          intro z hz hm
          rw [hb1h] at hm
          exact dab z hz (by simp only [List.mem_cons] at hm ⊢; grind)
        obtain ⟨m', l', a', b', out', as', bs', e3, i1, i2, i3, i4, i5, i6, i7, i8, i9, i10, i11⟩ :=
          ih hl2 ha2 hb2 dla2 dlb2 dab2 (by simp at hf ⊢; omega)
        refine ⟨m', l', a', b', out', as', bs', ?_, i1, i2, i3, by rw [i4, hl2h], i5, by rw [i6, hb1h], i7, ?_, i9, i10, ?_⟩
        · simp only [mergeLoop, hc, and_self, if_true, hax, hby, hcmp, if_false, e1]
          exact e3
        · rw [i8]; simp [merge, hle]
        · intro z h1 h2 h3
          rw [i11 z (by rw [hl2h]; simp only [List.mem_cons, List.mem_append, List.not_mem_nil, or_false] at h1 h3 ⊢; grind)
            h2 (by rw [hb1h]; simp only [List.mem_cons] at h3 ⊢; grind)]
          rw [fr2 z (fun e => h1 (e ▸ hlt)) (fun e => h3 (by simp [e]))]
          exact fr1 z (fun e => h3 (by simp [e]))

theorem msort_short (key : Nat → Int) (xs : List Nat) (h : xs.length ≤ 1) : msort key xs.length xs = xs := by
  match xs, h with
  | [], _ => simp [msort]
  | [_], _ => simp [msort]

theorem msort_split (key : Nat → Int) (pre post : List Nat)
    (hk : pre.length = (pre ++ post).length / 2) (hn : (pre ++ post).length > 1) :
    msort key (pre ++ post).length (pre ++ post)
      = merge key (msort key pre.length pre) (msort key post.length post) := by
  obtain ⟨n, hn'⟩ : ∃ n, (pre ++ post).length = n + 1 := ⟨(pre ++ post).length - 1, by omega⟩
  have hl : (pre ++ post).length = pre.length + post.length := by simp
  rw [hn']
  simp only [msort, hn, if_true]
  rw [← hk, List.take_left' rfl, List.drop_left' rfl]
  rw [msort_fuel key n pre.length pre (by omega) (Nat.le_refl _),
      msort_fuel key n post.length post (by omega) (Nat.le_refl _)]

/-- **Refinement.**  On a represented list with fresh temporary heads and
enough fuel, the link-level sort finishes (no NULL dereference, loops and
recursion end), keeps the list's head node, and ends in a state that
represents exactly the sequence computed by the sequence-level model `msort`
— tail pointer at the true last node, `count = length`.  It writes only the
list's own nodes and temporary heads of depth `d` or deeper. -/
theorem sortL_refines (cmp : Nat → Nat → Int) (key : Nat → Int) (hck : ∀ x y, cmp x y ≤ 0 ↔ key x ≤ key y)
    (tmp : Nat → Nat × Nat) (fuel d : Nat) {m : Mem} {l : Hd} {xs : List Nat}
    (h : IsSL m l xs) (hfr : Fresh tmp d (l.h :: xs)) (hf : xs.length < fuel) :
    ∃ m' l', sortL cmp tmp fuel d m l = some (m', l') ∧ l'.h = l.h
      ∧ IsSL m' l' (msort key xs.length xs)
      ∧ ∀ x, x ∉ l.h :: xs → ¬ Scratch tmp d x → m' x = m x := by
  induction fuel generalizing d m l xs with
  | zero => omega
  | succ f ih =>
    by_cases hc : l.count > 1
    · have hn : xs.length > 1 := by rw [← h.count]; exact hc
      obtain ⟨pre, post, hxs, hk⟩ : ∃ pre post, xs = pre ++ post ∧ pre.length = xs.length / 2 :=
        ⟨xs.take (xs.length / 2), xs.drop (xs.length / 2), (List.take_append_drop _ _).symm, by simp; omega⟩
      subst hxs
      have hlen : (pre ++ post).length = pre.length + post.length := by simp
      have hpre : pre ≠ [] := by intro e; subst e; simp at hk hn; omega
      have hpost : post ≠ [] := by intro e; subst e; simp at hk hn; omega
      -- the temporary heads of this activation
      obtain ⟨s0, hs0⟩ : ∃ s, s = (tmp d).1 := ⟨_, rfl⟩
      obtain ⟨s1, hs1⟩ : ∃ s, s = (tmp d).2 := ⟨_, rfl⟩
      have hs0z : s0 ≠ 0 := hs0 ▸ (hfr.nz d (Nat.le_refl _)).1
      have hs1z : s1 ≠ 0 := hs1 ▸ (hfr.nz d (Nat.le_refl _)).2
      have hs01 : s0 ≠ s1 := hs0 ▸ hs1 ▸ hfr.ne d (Nat.le_refl _)
      have hs0u : s0 ∉ l.h :: (pre ++ post) := hfr.dis s0 (hs0 ▸ Scratch.here1 tmp d)
      have hs1u : s1 ∉ l.h :: (pre ++ post) := hfr.dis s1 (hs1 ▸ Scratch.here2 tmp d)
      have hsc0 : ¬ Scratch tmp (d + 1) s0 := by
        rintro ⟨e, he, h1⟩
        have := hfr.inj d e (Nat.le_refl _) (by omega) (by omega)
        rw [← hs0, ← hs1] at this
        rcases h1 with h1 | h1
        · exact this.1 h1
        · exact this.2.1 h1
      have hsc1 : ¬ Scratch tmp (d + 1) s1 := by
        rintro ⟨e, he, h1⟩
        have := hfr.inj d e (Nat.le_refl _) (by omega) (by omega)
        rw [← hs0, ← hs1] at this
        rcases h1 with h1 | h1
        · exact this.2.2.1 h1
        · exact this.2.2.2 h1
      have hscu : ∀ x, x ∈ l.h :: (pre ++ post) → ¬ Scratch tmp (d + 1) x :=
        fun x hx hsc => hfr.dis x hsc.mono hx
      -- after the two `init`s
      let m2 := upd (upd m s0 0) s1 0
      have hm2 : IsSL m2 l (pre ++ post) := by
        refine h.transfer (fun z hz => ?_)
        show upd (upd m s0 0) s1 0 z = m z
        rw [upd_other _ _ _ _ (fun e => hs1u (by rw [← e]; exact hz)), upd_other _ _ _ _ (fun e => hs0u (by rw [← e]; exact hz))]
      -- the split loop
      have hsplit : splitLoop f m2 (l.count / 2) 0 l.h = some (l.count / 2, lastOr l.h pre) :=
        splitLoop_spec f (l.count / 2) 0 hm2.path (by rw [h.count]; omega) (by omega)
      -- the split
      let a0 : Hd := { h := s0, t := s0, count := l.count / 2 }
      let b0 : Hd := { h := s1, t := s1, count := 0 }
      obtain ⟨j1, j2, j3, j4, j5, j6, j7⟩ := splitLinks_spec (a := a0) (b := b0) hm2 hpre hpost hs0u hs1u hs01 hs0z hs1z
        (by show l.count / 2 = pre.length; rw [h.count]; omega)
      obtain ⟨r, hr⟩ : ∃ r, r = splitLinks m2 l a0 b0 (lastOr l.h pre) := ⟨_, rfl⟩
      rw [← hr] at j1 j2 j3 j4 j5 j6 j7
      replace j4 : r.2.2.1.h = s0 := j4
      replace j6 : r.2.2.2.h = s1 := j6
      -- first recursive call
      have hfrA : Fresh tmp (d + 1) (r.2.2.1.h :: pre) := by
        refine hfr.sub (fun x hx => ?_)
        rw [j4] at hx
        simp only [List.mem_cons, List.mem_append] at hx ⊢
        rw [← hs0]; grind
      obtain ⟨m3, a1, ea, a1h, hA, frA⟩ := ih (d + 1) j3 hfrA (by omega)
      rw [j4] at a1h frA
      have permA := msort_perm key pre.length pre
      have permB := msort_perm key post.length post
      have hnd := h.nodup
      have hB3 : IsSL m3 r.2.2.2 post := by
        refine j5.transfer (fun z hz => frA z ?_ ?_)
        · rw [j6] at hz
          have : ((l.h :: pre) ++ post).Nodup := by simpa using hnd
          have hd := (List.nodup_append.mp this).2.2
          simp only [List.mem_cons, List.mem_append] at hz hs1u ⊢
          grind
        · rw [j6] at hz
          rcases List.mem_cons.mp hz with e | hz
          · rw [e]; exact hsc1
          · exact hscu z (by simp [hz])
      have hL3 : IsSL m3 r.2.1 [] := by
        refine j1.transfer (fun z hz => frA z ?_ ?_)
        · rw [j2] at hz
          have : z = l.h := by simpa using hz
          subst this
          have := (List.nodup_cons.mp hnd).1
          simp only [List.mem_cons, List.mem_append] at this hs0u ⊢
          grind
        · rw [j2] at hz
          have : z = l.h := by simpa using hz
          subst this
          exact hscu _ (by simp)
      -- second recursive call
      have hfrB : Fresh tmp (d + 1) (r.2.2.2.h :: post) := by
        refine hfr.sub (fun x hx => ?_)
        rw [j6] at hx
        simp only [List.mem_cons, List.mem_append] at hx ⊢
        rw [← hs1]; grind
      obtain ⟨m4, b1, eb, b1h, hB, frB⟩ := ih (d + 1) hB3 hfrB (by omega)
      rw [j6] at b1h frB
      have hA4 : IsSL m4 a1 (msort key pre.length pre) := by
        refine hA.transfer (fun z hz => frB z ?_ ?_)
        · rw [a1h] at hz
          have : ((l.h :: pre) ++ post).Nodup := by simpa using hnd
          have hd := (List.nodup_append.mp this).2.2
          have hp := permA.mem_iff (a := z)
          simp only [List.mem_cons, List.mem_append] at hz hs0u ⊢
          grind
        · rw [a1h] at hz
          rcases List.mem_cons.mp hz with e | hz
          · rw [e]; exact hsc0
          · exact hscu z (by simp [permA.mem_iff.mp hz])
      have hL4 : IsSL m4 r.2.1 [] := by
        refine hL3.transfer (fun z hz => frB z ?_ ?_)
        · rw [j2] at hz
          have : z = l.h := by simpa using hz
          subst this
          have := (List.nodup_cons.mp hnd).1
          simp only [List.mem_cons, List.mem_append] at this hs1u ⊢
          grind
        · rw [j2] at hz
          have : z = l.h := by simpa using hz
          subst this
          exact hscu _ (by simp)
      -- the merge loop
      have dla : Disjoint r.2.1 [] a1 (msort key pre.length pre) := by
        intro z hz hm
        rw [j2] at hz; rw [a1h] at hm
        have : z = l.h := by simpa using hz
        subst this
        have := (List.nodup_cons.mp hnd).1
        have hp := permA.mem_iff (a := l.h)
        simp only [List.mem_cons, List.mem_append] at this hs0u hm
        grind
      have dlb : Disjoint r.2.1 [] b1 (msort key post.length post) := by
        intro z hz hm
        rw [j2] at hz; rw [b1h] at hm
        have : z = l.h := by simpa using hz
        subst this
        have := (List.nodup_cons.mp hnd).1
        have hp := permB.mem_iff (a := l.h)
        simp only [List.mem_cons, List.mem_append] at this hs1u hm
        grind
      have dab : Disjoint a1 (msort key pre.length pre) b1 (msort key post.length post) := by
        intro z hz hm
        rw [a1h] at hz; rw [b1h] at hm
        have : ((l.h :: pre) ++ post).Nodup := by simpa using hnd
        have hd := (List.nodup_append.mp this).2.2
        have hp := permA.mem_iff (a := z)
        have hq := permB.mem_iff (a := z)
        simp only [List.mem_cons, List.mem_append] at hz hm hs0u hs1u
        grind
      obtain ⟨m5, l5, a5, b5, out', as', bs', em, k1, k2, k3, k4, k5, k6, k7, k8, k9, k10, k11⟩ :=
        mergeLoop_spec cmp key hck f hL4 hA4 hB dla dlb dab (by rw [permA.length_eq, permB.length_eq]; omega)
      rw [j2] at k4; rw [a1h] at k5; rw [b1h] at k6
      simp only [List.nil_append] at k8
      have hres : merge key (msort key pre.length pre) (msort key post.length post)
          = msort key (pre ++ post).length (pre ++ post) := (msort_split key pre post hk hn).symm
      rw [hres] at k8
      have permX := msort_perm key (pre ++ post).length (pre ++ post)
      have hout : ∀ z, z ∈ out' → z ∈ pre ++ post := by
        intro z hz
        exact permX.mem_iff.mp (k8 ▸ (by simp [hz]))
      -- unfold the function up to the final `concat`
      have eS : sortL cmp tmp (f + 1) d m l =
          (if a5.count > 0 then some ((concat m5 l5 a5).1, (concat m5 l5 a5).2.1)
           else some ((concat m5 l5 b5).1, (concat m5 l5 b5).2.1)) := by
        have e0 : splitLoop f (init (init m (tmp d).1).1 (tmp d).2).1 (l.count / 2) (init m (tmp d).1).2.count l.h
            = some (l.count / 2, lastOr l.h pre) := by
          rw [← hs0, ← hs1]; exact hsplit
        have e1 : splitLinks (init (init m (tmp d).1).1 (tmp d).2).1 l
            { (init m (tmp d).1).2 with count := l.count / 2 } (init (init m (tmp d).1).1 (tmp d).2).2 (lastOr l.h pre) = r := by
          rw [hr, ← hs0, ← hs1]; rfl
        simp only [sortL, hc, if_true, e0, e1, ea, eb, em]
      -- frame up to the merge loop
      have frame5 : ∀ x, x ∉ l.h :: (pre ++ post) → ¬ Scratch tmp d x → m5 x = m x := by
        intro x hx hsx
        have hx0 : x ≠ s0 := fun e => hsx (by rw [e, hs0]; exact Scratch.here1 tmp d)
        have hx1 : x ≠ s1 := fun e => hsx (by rw [e, hs1]; exact Scratch.here2 tmp d)
        have hsx' : ¬ Scratch tmp (d + 1) x := fun hh => hsx hh.mono
        have hxa : x ∉ s0 :: pre := by
          simp only [List.mem_cons, List.mem_append] at hx ⊢; grind
        have hxb : x ∉ s1 :: post := by
          simp only [List.mem_cons, List.mem_append] at hx ⊢; grind
        rw [k11 x (by rw [j2]; simp only [List.mem_cons, List.mem_append] at hx ⊢; grind)
          (by rw [a1h]; have hp := permA.mem_iff (a := x); simp only [List.mem_cons] at hxa ⊢; grind)
          (by rw [b1h]; have hp := permB.mem_iff (a := x); simp only [List.mem_cons] at hxb ⊢; grind)]
        rw [frB x hxb hsx', frA x hxa hsx', j7 x hx hx0 hx1]
        show upd (upd m s0 0) s1 0 x = m x
        rw [upd_other _ _ _ _ hx1, upd_other _ _ _ _ hx0]
      have hl5t : l5.t ∈ l.h :: (pre ++ post) := by
        have := k1.tail_mem
        rw [k4] at this
        rcases List.mem_cons.mp this with e | hm
        · simp [e]
        · exact List.mem_cons_of_mem _ (hout _ hm)
      rw [eS]
      by_cases hca : a5.count > 0
      · have has : as' ≠ [] := by intro e; subst e; have := k2.count; simp at this; omega
        have hbs : bs' = [] := by rcases k7 with e | e; exact absurd e has; exact e
        subst hbs
        obtain ⟨c1, _, c3⟩ := concat_spec k1 k2 k9
        simp only [List.append_nil] at k8
        rw [k8] at c1
        refine ⟨_, _, by simp only [hca, if_true], ?_, c1, ?_⟩
        · have : (concat m5 l5 a5).2.1.h = l5.h := by simp only [concat]; split <;> rfl
          rw [this, k4]
        · intro x hx hsx
          rw [c3 x (fun e => hx (e ▸ hl5t)) (fun e => hsx (by rw [e, k5, hs0]; exact Scratch.here1 tmp d))]
          exact frame5 x hx hsx
      · have has : as' = [] := by
          cases as' with
          | nil => rfl
          | cons _ _ => have := k2.count; simp at this; omega
        subst has
        obtain ⟨c1, _, c3⟩ := concat_spec k1 k3 k10
        simp only [List.append_nil] at k8
        rw [k8] at c1
        refine ⟨_, _, by simp only [hca, if_false], ?_, c1, ?_⟩
        · have : (concat m5 l5 b5).2.1.h = l5.h := by simp only [concat]; split <;> rfl
          rw [this, k4]
        · intro x hx hsx
          rw [c3 x (fun e => hx (e ▸ hl5t)) (fun e => hsx (by rw [e, k6, hs1]; exact Scratch.here2 tmp d))]
          exact frame5 x hx hsx
    · have hn : xs.length ≤ 1 := by rw [← h.count]; omega
      refine ⟨m, l, by simp only [sortL, hc, if_false], rfl, ?_, fun _ _ _ => rfl⟩
      rw [msort_short key xs hn]; exact h

/-- a chain determines the links of its nodes -/
theorem Seg_unique {m m' : Mem} {a z : Nat} {xs : List Nat} (h : Seg m a xs z) (h' : Seg m' a xs z) :
    ∀ x ∈ a :: xs, m x = m' x := by
  induction xs generalizing a with
  | nil =>
    intro x hx
    have : x = a := by simpa using hx
    subst this
    rw [show m x = z from h, show m' x = z from h']
  | cons y ys ih =>
    intro x hx
    rcases List.mem_cons.mp hx with e | hx
    · subst e; rw [h.1, h'.1]
    · exact ih h.2.2 h'.2.2 x hx

/-- **C13, sort at link level.**  The conclusion of `sort_spec` holds for the
link-level model of the C function: from any represented list, with fresh
temporary heads, `xs.length + 1` units of fuel are enough; the result
represents an ordered permutation of the same nodes with the tail pointer at
the true last node, and only the list's nodes and the temporary heads are
written. -/
theorem sortL_spec (cmp : Nat → Nat → Int) (key : Nat → Int) (hck : ∀ x y, cmp x y ≤ 0 ↔ key x ≤ key y)
    (tmp : Nat → Nat × Nat) (d : Nat) {m : Mem} {l : Hd} {xs : List Nat}
    (h : IsSL m l xs) (hfr : Fresh tmp d (l.h :: xs)) :
    ∃ m' l', sortL cmp tmp (xs.length + 1) d m l = some (m', l') ∧
      let ys := if l.count > 1 then msort key xs.length xs else xs
      IsSL m' l' ys ∧ ys.Perm xs ∧ SortedBy key ys ∧ l'.h = l.h
      ∧ ∀ a, a ∉ l.h :: xs → ¬ Scratch tmp d a → m' a = m a := by
  obtain ⟨m', l', e, hh, hs, fr⟩ := sortL_refines cmp key hck tmp (xs.length + 1) d h hfr (by omega)
  refine ⟨m', l', e, ?_⟩
  intro ys
  have hys : ys = msort key xs.length xs := by
    by_cases hc : l.count > 1
    · simp [ys, hc]
    · have : xs.length ≤ 1 := by rw [← h.count]; omega
      simp [ys, hc, msort_short key xs this]
  rw [hys]
  exact ⟨hs, msort_perm key _ xs, msort_sorted key _ xs (Nat.le_refl _), hh, fr⟩

/-- **link-level sort = sequence-level model.**  The link-level sort ends with
the same header as the sequence-level model `sort` of `Model.lean` and with
the same memory everywhere except on the temporary heads. -/
theorem sortL_eq_sort (cmp : Nat → Nat → Int) (key : Nat → Int) (hck : ∀ x y, cmp x y ≤ 0 ↔ key x ≤ key y)
    (tmp : Nat → Nat × Nat) (d : Nat) {m : Mem} {l : Hd} {xs : List Nat}
    (h : IsSL m l xs) (hfr : Fresh tmp d (l.h :: xs)) :
    ∃ m' l', sortL cmp tmp (xs.length + 1) d m l = some (m', l') ∧ l' = (sort m l key).2
      ∧ ∀ a, ¬ Scratch tmp d a → m' a = (sort m l key).1 a := by
  obtain ⟨m', l', e, s1, _, _, hh, fr⟩ := sortL_spec cmp key hck tmp d h hfr
  obtain ⟨t1, tp, _, tfr⟩ := sort_spec h key
  refine ⟨m', l', e, ?_, ?_⟩
  · have hh2 : (sort m l key).2.h = l.h := by simp only [sort]; split <;> rfl
    have e1 := s1.tail; have e2 := t1.tail; have c1 := s1.count; have c2 := t1.count
    rw [hh] at e1; rw [hh2] at e2
    cases hl' : l' with
    | mk h1 t1' c1' =>
      cases hs : (sort m l key).2 with
      | mk h2 t2 c2' =>
        rw [hl'] at e1 c1 hh; rw [hs] at e2 c2 hh2
        simp only at e1 c1 hh e2 c2 hh2
        rw [hh, hh2, e1, e2, c1, c2]
  · intro a ha
    by_cases hm : a ∈ l.h :: xs
    · have hh2 : (sort m l key).2.h = l.h := by simp only [sort]; split <;> rfl
      have p1 := s1.path; have p2 := t1.path
      rw [hh] at p1; rw [hh2] at p2
      refine Seg_unique p1 p2 a ?_
      rcases List.mem_cons.mp hm with e | hm
      · simp [e]
      · exact List.mem_cons_of_mem _ (tp.mem_iff.mpr hm)
    · rw [fr a hm ha, tfr a hm]

/-- the hypotheses are satisfiable: temporary heads at 100, 101, 102, … are
fresh for a list whose nodes lie below 100 -/
theorem fresh_example (used : List Nat) (hu : ∀ x ∈ used, x < 100) :
    Fresh (fun e => (100 + 2 * e, 101 + 2 * e)) 0 used := by
  refine ⟨fun e _ => ⟨by simp, by simp⟩, fun e _ => by simp,
    fun e e' _ _ hne => ⟨by simp; omega, by simp; omega, by simp; omega, by simp; omega⟩, ?_⟩
  rintro a ⟨e, _, h1⟩ hm
  have := hu a hm
  simp at h1; omega

/-- non-vacuity, and the model runs: the four-element list `[12, 10, 13, 11]`
(keys = addresses) is sorted by the link-level function -/
example :
    let s0 := init (fun _ => 0) 1
    let s1 := pushBack s0.1 s0.2 12
    let s2 := pushBack s1.1 s1.2 10
    let s3 := pushBack s2.1 s2.2 13
    let s4 := pushBack s3.1 s3.2 11
    (sortL (fun a b => (a : Int) - b) (fun e => (100 + 2 * e, 101 + 2 * e)) 5 0 s4.1 s4.2).map
        (fun r => (walk r.1 5 r.2.h, r.2.t, r.2.count)) = some ([10, 11, 12, 13], 13, 4) := by
  decide

end Cstl.SList
