import Cstl.SList.Model
