import Cstl.SList.Lemmas
import Cstl.SList.Run
/-
Property theorems for the singly-linked list (C13; the slist part of C15).
Every theorem is about the link-level model in `Model.lean`; `IsSL m l xs`
says that header `l` in memory `m` represents the reference sequence `xs`
with the tail pointer at the true last node and `count = length`.
-/
namespace Cstl.SList

/-- insert after position `pre` (after the head node when `pre = []`):
the list becomes `pre ++ nn :: post`, the tail stays the true last, and only
the links of `i` and `nn` are written. -/
theorem insertAfter_spec {m : Mem} {l : Hd} {pre post : List Nat} {i nn : Nat}
    (h : IsSL m l (pre ++ post)) (hi : i = lastOr l.h pre)
    (hnn : nn ∉ l.h :: (pre ++ post)) (hnz : nn ≠ 0) :
    IsSL (insertAfter m l i nn).1 (insertAfter m l i nn).2 (pre ++ nn :: post)
    ∧ ∀ a, a ≠ i → a ≠ nn → (insertAfter m l i nn).1 a = m a := by
  obtain ⟨hp, hnd, hhz, ht, hc⟩ := h
  obtain ⟨hnd1, hnd2, hdisj⟩ := nodup_split hnd
  have hi_mem : i ∈ l.h :: pre := hi ▸ lastOr_mem _ _
  have hnn1 : nn ∉ l.h :: pre := fun hc => hnn (by
    rcases List.mem_cons.mp hc with rfl | hc
    · simp
    · simp [hc])
  have hnn2 : nn ∉ post := fun hc => hnn (by simp [hc])
  have hine : i ≠ nn := fun e => hnn1 (e ▸ hi_mem)
  rw [Seg_append'] at hp
  obtain ⟨hp1, hp2⟩ := hp
  refine ⟨⟨?_, ?_, hhz, ?_, ?_⟩, ?_⟩
  · -- path
    show Seg (upd (upd m nn (m i)) i nn) l.h (pre ++ nn :: post) 0
    rw [Seg_append']
    constructor
    · have s1 : Seg (upd m nn (m i)) l.h pre (m i) := by
        refine Seg_transfer (hi ▸ hp1) ?_ ?_
        · exact upd_other _ _ _ _ (fun e => hnn1 (by simp [e]))
        · intro a ha; exact upd_other _ _ _ _ (fun e => hnn1 (by simp [← e, ha]))
      have s2 := Seg_upd_last (v := nn) s1 hnd1
      rw [← hi] at s2 ⊢
      simpa using s2
    · rw [← hi]
      refine ⟨by simp, hnz, ?_⟩
      refine Seg_transfer (hi ▸ hp2) ?_ ?_
      · rw [upd_other _ _ _ _ (Ne.symm hine)]; simp
      · intro a ha
        have h1 : a ≠ i := fun e => hdisj i hi_mem (e ▸ ha)
        have h2 : a ≠ nn := fun e => hnn2 (e ▸ ha)
        rw [upd_other _ _ _ _ h1, upd_other _ _ _ _ h2]
  · -- nodup
    show (l.h :: (pre ++ nn :: post)).Nodup
    exact nodup_insert_mid hnd hnn
  · -- tail
    show (if l.t = i then nn else l.t) = lastOr l.h (pre ++ nn :: post)
    rw [lastOr_append_cons]
    cases post with
    | nil =>
      have : l.t = i := by rw [ht, hi]; simp
      simp [this]
    | cons y ys =>
      have e : l.t = lastOr y ys := by rw [ht, lastOr_append_cons]
      have hne : l.t ≠ i := by
        intro e2
        exact hdisj i hi_mem (e2 ▸ e ▸ lastOr_mem y ys)
      rw [if_neg hne, e]; rfl
  · show l.count + 1 = (pre ++ nn :: post).length
    simp [hc]; omega
  · intro a h1 h2
    show upd (upd m nn (m i)) i nn a = m a
    rw [upd_other _ _ _ _ h1, upd_other _ _ _ _ h2]

/-- erase the node after position `pre`: exactly `n` leaves, it is returned,
the tail moves back iff the removed node was the last. -/
theorem eraseAfter_spec {m : Mem} {l : Hd} {pre post : List Nat} {e n : Nat}
    (h : IsSL m l (pre ++ n :: post)) (he : e = lastOr l.h pre) :
    ∃ m' l', eraseAfter m l e = some (m', l', n) ∧ IsSL m' l' (pre ++ post)
      ∧ ∀ a, a ≠ e → m' a = m a := by
  obtain ⟨hp, hnd, hhz, ht, hc⟩ := h
  obtain ⟨hnd', hn_notin⟩ := nodup_remove_mid hnd
  obtain ⟨hnd1, hnd2, hdisj⟩ := nodup_split hnd'
  have he_mem : e ∈ l.h :: pre := he ▸ lastOr_mem _ _
  rw [Seg_append'] at hp
  obtain ⟨hp1, hp2⟩ := hp
  rw [← he] at hp1 hp2
  obtain ⟨hme, hnz, hp3⟩ := hp2
  have hen : e ≠ n := fun e2 => hn_notin (by
    rcases List.mem_cons.mp he_mem with h1 | h1
    · simp [← e2, h1]
    · simp [← e2, h1])
  refine ⟨upd m e (m n), { l with t := if l.t = n then e else l.t, count := l.count - 1 }, ?_, ⟨?_, hnd', hhz, ?_, ?_⟩, ?_⟩
  · simp [eraseAfter, hme, hnz]
  · show Seg (upd m e (m n)) l.h (pre ++ post) 0
    rw [Seg_append', ← he]
    constructor
    · have := Seg_upd_last (v := m n) hp1 hnd1
      rw [← he] at this
      simpa using this
    · refine Seg_transfer hp3 (by simp) ?_
      intro a ha
      exact upd_other _ _ _ _ (fun e2 => hdisj e he_mem (e2 ▸ ha))
  · show (if l.t = n then e else l.t) = lastOr l.h (pre ++ post)
    rw [lastOr_append_cons] at ht
    cases post with
    | nil => simp [ht, he]
    | cons y ys =>
      have hne : l.t ≠ n := by
        intro e2
        apply hn_notin
        have := lastOr_mem y ys
        rw [lastOr_cons] at ht
        rw [← ht, e2] at this
        simp [this]
      rw [if_neg hne, ht, lastOr_append_cons]; rfl
  · show l.count - 1 = (pre ++ post).length
    simp at hc ⊢; omega
  · intro a ha
    exact upd_other _ _ _ _ ha

theorem pushFront_spec {m : Mem} {l : Hd} {xs : List Nat} {e : Nat}
    (h : IsSL m l xs) (he : e ∉ l.h :: xs) (hnz : e ≠ 0) :
    IsSL (pushFront m l e).1 (pushFront m l e).2 (e :: xs)
    ∧ ∀ a, a ≠ l.h → a ≠ e → (pushFront m l e).1 a = m a :=
  insertAfter_spec (pre := []) (post := xs) h rfl he hnz

/-- `push_back` appends after the true last element of any represented list -/
theorem pushBack_spec {m : Mem} {l : Hd} {xs : List Nat} {e : Nat}
    (h : IsSL m l xs) (he : e ∉ l.h :: xs) (hnz : e ≠ 0) :
    IsSL (pushBack m l e).1 (pushBack m l e).2 (xs ++ [e])
    ∧ ∀ a, a ≠ l.t → a ≠ e → (pushBack m l e).1 a = m a := by
  have h' : IsSL m l (xs ++ []) := by simpa using h
  have := insertAfter_spec (pre := xs) (post := []) (i := l.t) (nn := e) h' h.tail (by simpa using he) hnz
  simpa [pushBack] using this

theorem popFront_spec {m : Mem} {l : Hd} {x : Nat} {xs : List Nat} (h : IsSL m l (x :: xs)) :
    ∃ m' l', popFront m l = some (m', l', some x) ∧ IsSL m' l' xs ∧ ∀ a, a ≠ l.h → m' a = m a := by
  have hne : l.t ≠ l.h := fun e => by simpa using (h.tail_eq_head_iff.mp e)
  obtain ⟨m', l', h1, h2, h3⟩ := eraseAfter_spec (pre := []) (post := xs) (e := l.h) (n := x) h rfl
  exact ⟨m', l', by simp [popFront, hne, h1], h2, h3⟩

/-- `pop_front` on an empty list returns NULL and leaves the list as it was -/
theorem popFront_empty {m : Mem} {l : Hd} (h : IsSL m l []) : popFront m l = some (m, l, none) := by
  have : l.t = l.h := h.tail_eq_head_iff.mpr rfl
  simp [popFront, this]

theorem front_spec {m : Mem} {l : Hd} {xs : List Nat} (h : IsSL m l xs) : front m l = xs.head? := by
  cases xs with
  | nil => simp [front, h.tail_eq_head_iff.mpr rfl]
  | cons x xs =>
    have hne : l.t ≠ l.h := fun e => by simpa using (h.tail_eq_head_iff.mp e)
    simp [front, hne, h.path.1]

theorem back_spec {m : Mem} {l : Hd} {xs : List Nat} (h : IsSL m l xs) : back m l = xs.getLast? := by
  rw [lastOr_eq_getLast? l.h xs]
  by_cases hx : xs = []
  · simp [back, h.tail_eq_head_iff.mpr hx, hx]
  · have hne : l.t ≠ l.h := fun e => hx (h.tail_eq_head_iff.mp e)
    have e := h.tail
    simp [back, hne, hx]; exact e

/-- loop invariant of `cstl_slist_reverse`: with the list standing as
`A ++ c :: B`, the loop moves the nodes of `B` one by one to the front. -/
theorem revLoop_spec {m : Mem} {h c : Nat} {A B : List Nat} (fuel : Nat)
    (hp : Seg m h (A ++ c :: B) 0) (hnd : (h :: (A ++ c :: B)).Nodup) (hf : B.length ≤ fuel) :
    ∃ m', revLoop fuel m h c = some m' ∧ Seg m' h (B.reverse ++ A ++ [c]) 0
      ∧ ∀ a, a ∉ h :: (A ++ c :: B) → m' a = m a := by
  induction B generalizing m A fuel with
  | nil =>
    have hc0 : m c = 0 := by
      have := Seg_last hp
      rwa [lastOr_append_cons] at this
    refine ⟨m, ?_, by simpa using hp, fun _ _ => rfl⟩
    cases fuel <;> simp [revLoop, hc0]
  | cons n B ih =>
    cases fuel with
    | zero => simp at hf
    | succ f =>
      rw [Seg_append] at hp
      obtain ⟨hA, hcz, hcn, hnz, hB⟩ := hp
      -- disequalities from nodup
      have hnd2 : (h :: ((n :: A) ++ c :: B)).Nodup := by
        have hp : (h :: ((n :: A) ++ c :: B)).Perm (h :: (A ++ c :: n :: B)) := by
          refine List.Perm.cons h ?_
          have h1 : (A ++ c :: n :: B).Perm (n :: (A ++ c :: B)) := by
            have : (A ++ c :: n :: B) = (A ++ [c]) ++ n :: B := by simp
            rw [this]
            refine List.perm_middle.trans ?_
            simp
          simpa using h1.symm
        exact hp.nodup_iff.mpr hnd
      have hmem : ∀ a, a ∈ h :: ((n :: A) ++ c :: B) ↔ a ∈ h :: (A ++ c :: n :: B) := by
        intro a; simp only [List.mem_cons, List.mem_append, List.cons_append]; grind
      have hhc : h ≠ c := by grind
      have hhn : h ≠ n := by grind
      have hcn' : c ≠ n := by grind
      have hAh : ∀ a ∈ A, a ≠ h ∧ a ≠ n ∧ a ≠ c := by intro a ha; grind
      have hBh : ∀ a ∈ B, a ≠ h ∧ a ≠ n ∧ a ≠ c := by intro a ha; grind
      let m1 := upd m c (m n)
      let m2 := upd m1 n (m1 h)
      let m3 := upd m2 h n
      have e3n : m3 n = m h := by
        show upd m2 h n n = m h
        rw [upd_other _ _ _ _ (Ne.symm hhn)]
        show upd m1 n (m1 h) n = m h
        rw [upd_same]
        exact upd_other _ _ _ _ hhc
      have e3c : m3 c = m n := by
        show upd m2 h n c = m n
        rw [upd_other _ _ _ _ (Ne.symm hhc)]
        show upd m1 n (m1 h) c = m n
        rw [upd_other _ _ _ _ hcn']
        exact upd_same _ _ _
      have e3o : ∀ a, a ≠ h → a ≠ n → a ≠ c → m3 a = m a := by
        intro a h1 h2 h3
        show upd (upd (upd m c (m n)) n _) h n a = m a
        rw [upd_other _ _ _ _ h1, upd_other _ _ _ _ h2, upd_other _ _ _ _ h3]
      have hp3 : Seg m3 h ((n :: A) ++ c :: B) 0 := by
        show Seg m3 h (n :: (A ++ c :: B)) 0
        refine ⟨upd_same _ _ _, hnz, ?_⟩
        rw [Seg_append]
        refine ⟨?_, hcz, ?_⟩
        · exact Seg_transfer hA e3n (fun a ha => e3o a (hAh a ha).1 (hAh a ha).2.1 (hAh a ha).2.2)
        · exact Seg_transfer hB e3c (fun a ha => e3o a (hBh a ha).1 (hBh a ha).2.1 (hBh a ha).2.2)
      obtain ⟨m', hr, hs, hfr⟩ := ih (m := m3) (A := n :: A) f hp3 hnd2 (by simpa using hf)
      refine ⟨m', ?_, ?_, ?_⟩
      · have hne : m c ≠ 0 := by rw [hcn]; exact hnz
        simp only [revLoop, hne, if_false]
        rw [hcn]
        exact hr
      · simpa [List.append_assoc] using hs
      · intro a ha
        have ha' : a ∉ h :: ((n :: A) ++ c :: B) := fun hc => ha ((hmem a).mp hc)
        rw [hfr a ha']
        have : a ≠ h ∧ a ≠ n ∧ a ≠ c := by
          simp only [List.mem_cons, List.mem_append] at ha; grind
        exact e3o a this.1 this.2.1 this.2.2

/-- `reverse` represents the mirrored sequence; the tail is the former first. -/
theorem reverse_spec {m : Mem} {l : Hd} {xs : List Nat} (h : IsSL m l xs) :
    ∃ m' l', reverse m l = some (m', l') ∧ IsSL m' l' xs.reverse
      ∧ ∀ a, a ∉ l.h :: xs → m' a = m a := by
  by_cases hc : l.count > 1
  · cases xs with
    | nil => have := h.count; simp at this; omega
    | cons c B =>
      have hmc : m l.h = c := h.path.1
      obtain ⟨m', hr, hs, hfr⟩ := revLoop_spec (A := []) l.count (by simpa using h.path)
        (by simpa using h.nodup) (by have := h.count; simp at this; omega)
      refine ⟨m', { l with t := c }, ?_, ⟨?_, ?_, h.hnz, ?_, ?_⟩, ?_⟩
      · simp [reverse, hc, hmc, hr]
      · simpa using hs
      · have : (l.h :: (c :: B).reverse).Perm (l.h :: c :: B) := (List.reverse_perm _).cons _
        exact this.nodup_iff.mpr h.nodup
      · show c = lastOr l.h (c :: B).reverse
        rw [List.reverse_cons, lastOr_append_singleton]
      · simpa using h.count
      · intro a ha; exact hfr a (by simpa using ha)
  · refine ⟨m, l, by simp [reverse, hc], ?_, fun _ _ => rfl⟩
    have hl : xs.length ≤ 1 := by have := h.count; omega
    have : xs.reverse = xs := by
      match xs, hl with
      | [], _ => rfl
      | [_], _ => rfl
    rw [this]; exact h

/-- two represented lists do not share nodes -/
def Disjoint (a : Hd) (xs : List Nat) (b : Hd) (ys : List Nat) : Prop :=
  ∀ x ∈ a.h :: xs, x ∉ b.h :: ys

theorem lastOr_append_ne (a b : Nat) (xs ys : List Nat) (h : ys ≠ []) :
    lastOr a (xs ++ ys) = lastOr b ys := by
  cases ys with
  | nil => exact absurd rfl h
  | cons y ys => rw [lastOr_append_cons]; rfl

/-- `concat d s`: all elements of `s`, in order, at the end of `d`; `s` empty
and usable; the tail of `d` is the true last. -/
theorem concat_spec {m : Mem} {d s : Hd} {xs ys : List Nat}
    (hd : IsSL m d xs) (hs : IsSL m s ys) (hdis : Disjoint d xs s ys) :
    IsSL (concat m d s).1 (concat m d s).2.1 (xs ++ ys) ∧ IsSL (concat m d s).1 (concat m d s).2.2 []
    ∧ ∀ a, a ≠ d.t → a ≠ s.h → (concat m d s).1 a = m a := by
  by_cases hc : s.count > 0
  · have hys : ys ≠ [] := by intro e; subst e; have := hs.count; simp at this; omega
    have hdt : d.t ∈ d.h :: xs := hd.tail_mem
    have hts : d.t ≠ s.h := fun e => hdis _ hdt (by simp [e])
    have hsd : s.h ∉ d.h :: xs := fun hm => hdis _ hm (by simp)
    have e1 : concat m d s = (upd (upd m d.t (m s.h)) s.h 0,
        { d with t := s.t, count := d.count + s.count }, { h := s.h, t := s.h, count := 0 }) := by
      simp [concat, hc, init]
    rw [e1]
    refine ⟨⟨?_, ?_, hd.hnz, ?_, ?_⟩, ⟨by simp, by simp, hs.hnz, rfl, rfl⟩, ?_⟩
    · show Seg (upd (upd m d.t (m s.h)) s.h 0) d.h (xs ++ ys) 0
      rw [Seg_append', ← hd.tail]
      constructor
      · have s1 := Seg_upd_last (v := m s.h) hd.path hd.nodup
        rw [← hd.tail] at s1
        have s2 : Seg (upd (upd m d.t (m s.h)) s.h 0) d.h xs (m s.h) :=
          Seg_transfer s1 (upd_other _ _ _ _ (fun e => hsd (by simp [e])))
            (fun a ha => upd_other _ _ _ _ (fun e => hsd (by simp [← e, ha])))
        rw [upd_other _ _ _ _ hts, upd_same]
        exact s2
      · refine Seg_transfer hs.path ?_ ?_
        · rw [upd_other _ _ _ _ hts, upd_same]
        · intro a ha
          have h1 : a ≠ s.h := fun e => by
            have := hs.nodup; rw [← e] at this; exact (List.nodup_cons.mp this).1 ha
          have h2 : a ≠ d.t := fun e => hdis _ hdt (by simp [← e, ha])
          rw [upd_other _ _ _ _ h1, upd_other _ _ _ _ h2]
    · show (d.h :: (xs ++ ys)).Nodup
      have : ((d.h :: xs) ++ ys).Nodup := by
        rw [List.nodup_append]
        refine ⟨hd.nodup, (List.nodup_cons.mp hs.nodup).2, ?_⟩
        intro a ha b hb e
        exact hdis a ha (by simp [e, hb])
      simpa using this
    · show s.t = lastOr d.h (xs ++ ys)
      rw [lastOr_append_ne d.h s.h xs ys hys]; exact hs.tail
    · show d.count + s.count = (xs ++ ys).length
      simp [hd.count, hs.count]
    · intro a h1 h2
      show upd (upd m d.t (m s.h)) s.h 0 a = m a
      rw [upd_other _ _ _ _ h2, upd_other _ _ _ _ h1]
  · have hys : ys = [] := by
      have := hs.count
      cases ys with
      | nil => rfl
      | cons y ys => simp at this; omega
    subst hys
    have e1 : concat m d s = (m, d, s) := by simp [concat, hc]
    rw [e1]
    exact ⟨by simpa using hd, hs, fun _ _ _ => rfl⟩

theorem swap_eq (m : Mem) (a b : Hd) :
    swap m a b = (upd (upd m a.h (m b.h)) b.h (m a.h),
      { h := a.h, t := if b.count = 0 then a.h else b.t, count := b.count },
      { h := b.h, t := if a.count = 0 then b.h else a.t, count := a.count }) := by
  simp only [swap]
  split <;> split <;> simp_all

/-- `swap` exchanges the two sequences; an empty result is re-anchored on its
own head, so `push_back` keeps working after a swap with an empty list. -/
theorem swap_spec {m : Mem} {a b : Hd} {xs ys : List Nat}
    (ha : IsSL m a xs) (hb : IsSL m b ys) (hdis : Disjoint a xs b ys) :
    IsSL (swap m a b).1 (swap m a b).2.1 ys ∧ IsSL (swap m a b).1 (swap m a b).2.2 xs
    ∧ ∀ x, x ≠ a.h → x ≠ b.h → (swap m a b).1 x = m x := by
  have hab : a.h ≠ b.h := fun e => hdis a.h (by simp) (by simp [e])
  have hay : ∀ y ∈ ys, y ≠ a.h ∧ y ≠ b.h := by
    intro y hy
    refine ⟨fun e => hdis a.h (by simp) (by simp [← e, hy]), fun e => ?_⟩
    have := hb.nodup; rw [← e] at this; exact (List.nodup_cons.mp this).1 hy
  have hbx : ∀ x ∈ xs, x ≠ a.h ∧ x ≠ b.h := by
    intro x hx
    refine ⟨fun e => ?_, fun e => hdis x (by simp [hx]) (by simp [e])⟩
    have := ha.nodup; rw [← e] at this; exact (List.nodup_cons.mp this).1 hx
  let m1 := upd (upd m a.h (m b.h)) b.h (m a.h)
  have m1a : m1 a.h = m b.h := by
    show upd (upd m a.h (m b.h)) b.h (m a.h) a.h = m b.h
    rw [upd_other _ _ _ _ hab, upd_same]
  have m1b : m1 b.h = m a.h := upd_same _ _ _
  have m1o : ∀ x, x ≠ a.h → x ≠ b.h → m1 x = m x := by
    intro x h1 h2
    show upd (upd m a.h (m b.h)) b.h (m a.h) x = m x
    rw [upd_other _ _ _ _ h2, upd_other _ _ _ _ h1]
  rw [swap_eq]
  refine ⟨⟨?_, ?_, ha.hnz, ?_, ?_⟩, ⟨?_, ?_, hb.hnz, ?_, ?_⟩, m1o⟩
  · exact Seg_transfer hb.path m1a (fun y hy => m1o y (hay y hy).1 (hay y hy).2)
  · show (a.h :: ys).Nodup
    exact List.nodup_cons.mpr ⟨fun hm => (hay _ hm).1 rfl, (List.nodup_cons.mp hb.nodup).2⟩
  · show (if b.count = 0 then a.h else b.t) = lastOr a.h ys
    have hcount := hb.count
    cases ys with
    | nil => simp [hcount]
    | cons y ys' =>
      have : b.count ≠ 0 := by simp at hcount; omega
      simp [this, hb.tail]
  · exact hb.count
  · exact Seg_transfer ha.path m1b (fun x hx => m1o x (hbx x hx).1 (hbx x hx).2)
  · show (b.h :: xs).Nodup
    exact List.nodup_cons.mpr ⟨fun hm => (hbx _ hm).2 rfl, (List.nodup_cons.mp ha.nodup).2⟩
  · show (if a.count = 0 then b.h else a.t) = lastOr b.h xs
    have hcount := ha.count
    cases xs with
    | nil => simp [hcount]
    | cons x xs' =>
      have : a.count ≠ 0 := by simp at hcount; omega
      simp [this, ha.tail]
  · exact ha.count

theorem foreachLoop_spec (visit : Nat → Nat → Int) {m : Mem} {c : Nat} {ys : List Nat} (fuel k : Nat)
    (acc : List Nat) (h : Chain m c ys) (hf : ys.length < fuel) :
    foreachLoop visit fuel m c k acc
      = (acc.reverse ++ (refForeach visit ys k).1, (refForeach visit ys k).2) := by
  induction ys generalizing c fuel k acc with
  | nil =>
    have : c = 0 := h
    subst this
    cases fuel <;> simp [foreachLoop, refForeach]
  | cons y ys ih =>
    obtain ⟨h1, h2, h3⟩ := h
    subst h1
    cases fuel with
    | zero => simp at hf
    | succ f =>
      by_cases hv : visit k c = 0
      · simp only [foreachLoop, h2, if_false, hv, refForeach, ne_eq, not_true_eq_false]
        rw [ih f (k + 1) (c :: acc) h3 (by simpa using hf)]
        simp
      · simp [foreachLoop, h2, hv, refForeach]

/-- `foreach` presents the reference sequence in order and stops at, and
returns, the first non-zero visit result -/
theorem foreach_spec {m : Mem} {l : Hd} {xs : List Nat} (h : IsSL m l xs) (visit : Nat → Nat → Int) :
    foreach m l visit = refForeach visit xs 0 := by
  have := foreachLoop_spec visit (l.count + 1) 0 [] (Seg_iff_Chain.mp h.path)
    (by rw [h.count]; omega)
  simpa [foreach] using this

/-- what `refForeach` means: the visited elements are a prefix of the sequence;
result 0 iff every visit returned 0 (then everything was visited); otherwise
the result is the first non-zero visit result and the traversal stopped there -/
theorem refForeach_sound (visit : Nat → Nat → Int) (xs : List Nat) (k : Nat) :
    let r := refForeach visit xs k
    r.1 = xs.take r.1.length
    ∧ (∀ i, i + 1 < r.1.length → visit (k + i) (xs.getD i 0) = 0)
    ∧ (r.2 = 0 → r.1 = xs ∧ ∀ i, i < xs.length → visit (k + i) (xs.getD i 0) = 0)
    ∧ (r.2 ≠ 0 → r.1 ≠ [] ∧ r.2 = visit (k + (r.1.length - 1)) (xs.getD (r.1.length - 1) 0)) := by
  induction xs generalizing k with
  | nil => simp [refForeach]
  | cons x xs ih =>
    by_cases hv : visit k x = 0
    · have := ih (k + 1)
      simp only [refForeach, hv, ne_eq, not_true_eq_false, if_false]
      obtain ⟨i1, i2, i3, i4⟩ := this
      refine ⟨by simpa using i1, ?_, ?_, ?_⟩
      · intro i hi
        cases i with
        | zero => simpa using hv
        | succ j =>
          have := i2 j (by simpa using hi)
          simpa [Nat.add_assoc, Nat.add_comm 1 j] using this
      · intro hr
        obtain ⟨e1, e2⟩ := i3 hr
        refine ⟨by rw [e1], ?_⟩
        intro i hi
        cases i with
        | zero => simpa using hv
        | succ j =>
          have := e2 j (by simpa using hi)
          simpa [Nat.add_assoc, Nat.add_comm 1 j] using this
      · intro hr
        obtain ⟨e1, e2⟩ := i4 hr
        refine ⟨by simp, ?_⟩
        have hl : (refForeach visit xs (k + 1)).1.length ≥ 1 := by
          cases h : (refForeach visit xs (k + 1)).1 with
          | nil => exact absurd h e1
          | cons _ _ => simp
        rw [e2]
        simp only [List.length_cons, Nat.add_sub_cancel]
        have : (refForeach visit xs (k + 1)).1.length = ((refForeach visit xs (k + 1)).1.length - 1) + 1 := by omega
        conv => rhs; rw [this]
        simp [Nat.add_assoc, Nat.add_comm 1]
    · simp [refForeach, hv]

/-- `clear`: every element of the list is handed to the callback exactly once,
in list order, whatever the callback does to the element (`poison` is
arbitrary); nothing is written to an element after its callback; the list ends
empty and initialised. -/
theorem clearLoop_spec (poison : Nat → Nat) {m : Mem} {c : Nat} {ys : List Nat} (fuel : Nat) (acc : List Nat)
    (h : Chain m c ys) (hnd : ys.Nodup) (hf : ys.length < fuel) :
    (clearLoop poison fuel m c acc).2 = acc.reverse ++ ys
    ∧ (∀ e ∈ ys, (clearLoop poison fuel m c acc).1 e = poison e)
    ∧ (∀ a, a ∉ ys → (clearLoop poison fuel m c acc).1 a = m a) := by
  induction ys generalizing m c fuel acc with
  | nil =>
    have : c = 0 := h
    subst this
    cases fuel <;> simp [clearLoop]
  | cons y ys ih =>
    obtain ⟨h1, h2, h3⟩ := h
    subst h1
    cases fuel with
    | zero => simp at hf
    | succ f =>
      have hy : c ∉ ys := (List.nodup_cons.mp hnd).1
      have hnd' := (List.nodup_cons.mp hnd).2
      have h3' : Chain (upd m c (poison c)) (m c) ys :=
        Chain_transfer h3 (fun a ha => upd_other _ _ _ _ (fun e => hy (e ▸ ha)))
      obtain ⟨i1, i2, i3⟩ := ih (m := upd m c (poison c)) f (c :: acc) h3' hnd' (by simpa using hf)
      simp only [clearLoop, h2, if_false]
      refine ⟨by simp [i1], ?_, ?_⟩
      · intro e he
        rcases List.mem_cons.mp he with rfl | he
        · rw [i3 _ hy]; simp
        · exact i2 e he
      · intro a ha
        have : a ∉ ys := fun hm => ha (by simp [hm])
        rw [i3 a this]
        exact upd_other _ _ _ _ (fun e => ha (by simp [e]))

theorem clear_spec {m : Mem} {l : Hd} {xs : List Nat} (h : IsSL m l xs) (poison : Nat → Nat) :
    (clear m l poison).2.2 = xs
    ∧ IsSL (clear m l poison).1 (clear m l poison).2.1 []
    ∧ (clear m l poison).2.1 = { h := l.h, t := l.h, count := 0 }
    ∧ (∀ e ∈ xs, (clear m l poison).1 e = poison e)
    ∧ (∀ a, a ∉ l.h :: xs → (clear m l poison).1 a = m a) := by
  obtain ⟨i1, i2, i3⟩ := clearLoop_spec poison (l.count + 1) [] (Seg_iff_Chain.mp h.path)
    (List.nodup_cons.mp h.nodup).2 (by rw [h.count]; omega)
  have hh : l.h ∉ xs := (List.nodup_cons.mp h.nodup).1
  refine ⟨by simpa [clear] using i1, ?_, rfl, ?_, ?_⟩
  · exact ⟨by simp [clear, init], by simp [clear, init], h.hnz, rfl, rfl⟩
  · intro e he
    show upd _ l.h 0 e = poison e
    have hne : e ≠ l.h := fun e2 => hh (e2 ▸ he)
    rw [upd_other _ _ _ _ hne]
    exact i2 e he
  · intro a ha
    show upd _ l.h 0 a = m a
    rw [upd_other _ _ _ _ (fun e2 => ha (by simp [e2]))]
    exact i3 a (fun hm => ha (by simp [hm]))

/-- `sort` leaves an ordered permutation of the same nodes, correctly linked,
with the tail at the true last. -/
theorem sort_spec {m : Mem} {l : Hd} {xs : List Nat} (h : IsSL m l xs) (key : Nat → Int) :
    let ys := if l.count > 1 then msort key xs.length xs else xs
    IsSL (sort m l key).1 (sort m l key).2 ys ∧ ys.Perm xs ∧ SortedBy key ys
    ∧ ∀ a, a ∉ l.h :: xs → (sort m l key).1 a = m a := by
  intro ys
  by_cases hc : l.count > 1
  · have hw : walk m l.count l.h = xs := walk_of_Seg h.path _ (by rw [h.count]; omega)
    have hys : ys = msort key xs.length xs := by simp [ys, hc]
    have hperm : ys.Perm xs := hys ▸ msort_perm key _ xs
    have hsorted : SortedBy key ys := hys ▸ msort_sorted key _ xs (Nat.le_refl _)
    have hnd : (l.h :: ys).Nodup := (hperm.cons l.h).nodup_iff.mpr h.nodup
    have hnz : ∀ y ∈ ys, y ≠ 0 := fun y hy => h.nonzero y (hperm.mem_iff.mp hy)
    obtain ⟨r1, r2⟩ := relink_spec m l.h ys hnd hnz
    have e : sort m l key = (relink m l.h ys, { l with t := lastOr l.h ys }) := by
      simp [sort, hc, hw, hys]
    rw [e]
    refine ⟨⟨r1, hnd, h.hnz, rfl, ?_⟩, hperm, hsorted, ?_⟩
    · show l.count = ys.length
      rw [h.count, hperm.length_eq]
    · intro a ha
      exact r2 a (fun hm => ha (by
        rcases List.mem_cons.mp hm with h1 | h1
        · simp [h1]
        · exact List.mem_cons_of_mem _ (hperm.mem_iff.mp h1)))
  · have hys : ys = xs := by simp [ys, hc]
    have e : sort m l key = (m, l) := by simp [sort, hc]
    rw [e, hys]
    refine ⟨h, List.Perm.refl _, ?_, fun _ _ => rfl⟩
    have hl : xs.length ≤ 1 := by have := h.count; omega
    match xs, hl with
    | [], _ => simp [SortedBy]
    | [_], _ => simp [SortedBy]

/-- the state dump of the driver (walking the links) reads back exactly the
represented sequence -/
theorem walk_spec {m : Mem} {l : Hd} {xs : List Nat} (h : IsSL m l xs) (fuel : Nat)
    (hf : xs.length ≤ fuel) : walk m fuel l.h = xs := walk_of_Seg h.path fuel hf

/-! Non-vacuity: a concrete three-element list satisfies `IsSL`, so the
hypotheses of the theorems above are satisfiable. -/
example :
    let s0 := init (fun _ => 0) 1
    let s1 := pushBack s0.1 s0.2 10
    let s2 := pushBack s1.1 s1.2 11
    let s3 := pushFront s2.1 s2.2 12
    IsSL s3.1 s3.2 [12, 10, 11] := by
  intro s0 s1 s2 s3
  have h0 : IsSL s0.1 s0.2 [] := IsSL_init _ 1 (by decide)
  have h1 : IsSL s1.1 s1.2 [10] := (pushBack_spec h0 (by simp [s0, init]) (by decide)).1
  have h2 : IsSL s2.1 s2.2 [10, 11] := (pushBack_spec h1 (by simp [s1, s0, init, pushBack, insertAfter]) (by decide)).1
  exact (pushFront_spec h2 (by simp [s2, s1, s0, init, pushBack, insertAfter]) (by decide)).1

/-! ## Histories: any operation sequence over any number of lists -/

/-- the link-level state `s` represents the reference state `q` (lists
`0 … n-1`, head nodes at `ha i`), and no node is shared between lists -/
structure Abs (n : Nat) (ha : Nat → Nat) (s : St) (q : Nat → List Nat) : Prop where
  sl : ∀ i, i < n → IsSL s.m (s.hd i) (q i)
  hh : ∀ i, i < n → (s.hd i).h = ha i
  dis : ∀ i j, i < n → j < n → i ≠ j → ∀ x ∈ ha i :: q i, x ∉ ha j :: q j

theorem insAfterL_spec (b e : Nat) (pre post : List Nat) (hb : b ∉ pre) :
    insAfterL b e (pre ++ b :: post) = pre ++ b :: e :: post := by
  induction pre with
  | nil => simp [insAfterL]
  | cons x pre ih =>
    have hx : x ≠ b := fun e => hb (by simp [e])
    simp [insAfterL, hx, ih (fun h => hb (by simp [h]))]

theorem eraAfterL_spec (b x : Nat) (pre post : List Nat) (hb : b ∉ pre) :
    eraAfterL b (pre ++ b :: x :: post) = some (x, pre ++ b :: post) := by
  induction pre with
  | nil => simp [eraAfterL]
  | cons y pre ih =>
    have hy : y ≠ b := fun e => hb (by simp [e])
    have := ih (fun h => hb (by simp [h]))
    cases pre with
    | nil => simp [eraAfterL, hy]
    | cons z pre => simp [eraAfterL, hy] at this ⊢; simp [this]

/-- re-establish `Abs` after an operation that only changed list `l` -/
theorem Abs.update1 {n : Nat} {ha : Nat → Nat} {s : St} {q : Nat → List Nat} (A : Abs n ha s q)
    {l : Nat} (hl : l < n) {m' : Mem} {h' : Hd} {xs' : List Nat}
    (hsl : IsSL m' h' xs') (hh : h'.h = ha l)
    (hfr : ∀ j, j < n → j ≠ l → ∀ a ∈ ha j :: q j, m' a = s.m a)
    (hdis : ∀ j, j < n → j ≠ l → ∀ x ∈ xs', x ∉ ha j :: q j) :
    Abs n ha { m := m', hd := setHd s.hd l h' } (setSeq q l xs') := by
  refine ⟨?_, ?_, ?_⟩
  · intro i hi
    by_cases e : i = l
    · subst e; simpa [setHd, setSeq] using hsl
    · simp only [setHd, setSeq, e, if_false]
      refine (A.sl i hi).transfer ?_
      intro a ha'
      rw [A.hh i hi] at ha'
      exact hfr i hi e a ha'
  · intro i hi
    by_cases e : i = l
    · subst e; simpa [setHd] using hh
    · simpa [setHd, e] using A.hh i hi
  · intro i j hi hj hij x hx
    by_cases ei : i = l
    · subst ei
      have ej : j ≠ i := fun e => hij e.symm
      simp only [setSeq, if_true, ej, if_false] at hx ⊢
      rcases List.mem_cons.mp hx with rfl | hx
      · exact A.dis i j hi hj hij _ (by simp)
      · exact hdis j hj ej x hx
    · by_cases ej : j = l
      · subst ej
        simp only [setSeq, ei, if_false, if_true] at hx ⊢
        intro hm
        rcases List.mem_cons.mp hm with rfl | hm
        · exact A.dis i j hi hj hij _ hx (by simp)
        · exact hdis i hi ei x hm hx
      · simp only [setSeq, ei, ej, if_false] at hx ⊢
        exact A.dis i j hi hj hij x hx

/-- re-establish `Abs` after an operation that changed lists `a` and `b` -/
theorem Abs.update2 {n : Nat} {ha : Nat → Nat} {s : St} {q : Nat → List Nat} (A : Abs n ha s q)
    {a b : Nat} (hla : a < n) (hlb : b < n) (hab : a ≠ b) {m' : Mem} {ha' hb' : Hd} {xs' ys' : List Nat}
    (hsa : IsSL m' ha' xs') (hsb : IsSL m' hb' ys') (hha : ha'.h = ha a) (hhb : hb'.h = ha b)
    (hfr : ∀ j, j < n → j ≠ a → j ≠ b → ∀ x ∈ ha j :: q j, m' x = s.m x)
    (hsub : ∀ x, x ∈ xs' ++ ys' → x ∈ q a ++ q b)
    (hxy : ∀ x ∈ xs', x ∉ ys') :
    Abs n ha { m := m', hd := setHd (setHd s.hd a ha') b hb' } (setSeq (setSeq q a xs') b ys') := by
  have hdo : ∀ j, j < n → j ≠ a → j ≠ b → ∀ x, x ∈ xs' ++ ys' → x ∉ ha j :: q j := by
    intro j hj ja jb x hx hm
    rcases List.mem_append.mp (hsub x hx) with h | h
    · exact A.dis a j hla hj (Ne.symm ja) x (by simp [h]) hm
    · exact A.dis b j hlb hj (Ne.symm jb) x (by simp [h]) hm
  have hha_ne : ∀ x, x ∈ xs' ++ ys' → x ≠ ha a ∧ x ≠ ha b := by
    intro x hx
    rcases List.mem_append.mp (hsub x hx) with h | h
    · refine ⟨fun e => ?_, fun e => A.dis a b hla hlb hab x (by simp [h]) (by simp [e])⟩
      have := (A.sl a hla).nodup; rw [A.hh a hla, ← e] at this
      exact (List.nodup_cons.mp this).1 h
    · refine ⟨fun e => A.dis b a hlb hla (Ne.symm hab) x (by simp [h]) (by simp [e]), fun e => ?_⟩
      have := (A.sl b hlb).nodup; rw [A.hh b hlb, ← e] at this
      exact (List.nodup_cons.mp this).1 h
  have hab_h : ha a ≠ ha b := fun e => A.dis a b hla hlb hab (ha a) (by simp) (by simp [e])
  refine ⟨?_, ?_, ?_⟩
  · intro i hi
    by_cases eb : i = b
    · subst eb; simpa [setHd, setSeq] using hsb
    · by_cases ea : i = a
      · subst ea; simpa [setHd, setSeq, eb] using hsa
      · simp only [setHd, setSeq, ea, eb, if_false]
        refine (A.sl i hi).transfer ?_
        intro x hx
        rw [A.hh i hi] at hx
        exact hfr i hi ea eb x hx
  · intro i hi
    by_cases eb : i = b
    · subst eb; simpa [setHd] using hhb
    · by_cases ea : i = a
      · subst ea; simpa [setHd, eb] using hha
      · simpa [setHd, ea, eb] using A.hh i hi
  · -- contents of list i in the new reference state, as a sublist of the node universe
    have key : ∀ i, i < n → ∀ x ∈ ha i :: (setSeq (setSeq q a xs') b ys') i,
        (x = ha i) ∨ (i = a ∧ x ∈ xs') ∨ (i = b ∧ x ∈ ys') ∨ (i ≠ a ∧ i ≠ b ∧ x ∈ q i) := by
      intro i hi x hx
      rcases List.mem_cons.mp hx with h | h
      · exact Or.inl h
      · by_cases eb : i = b
        · subst eb; simp only [setSeq, if_true] at h; exact Or.inr (Or.inr (Or.inl ⟨rfl, h⟩))
        · by_cases ea : i = a
          · subst ea; simp only [setSeq, eb, if_false, if_true] at h; exact Or.inr (Or.inl ⟨rfl, h⟩)
          · simp only [setSeq, ea, eb, if_false] at h; exact Or.inr (Or.inr (Or.inr ⟨ea, eb, h⟩))
    have D1 : ∀ i j, i < n → j < n → i ≠ j → ha i ≠ ha j :=
      fun i j hi hj hij e => A.dis i j hi hj hij (ha i) (by simp) (by simp [e])
    have D2 : ∀ i j, i < n → j < n → i ≠ j → ∀ x, x ∈ q i → x ≠ ha j :=
      fun i j hi hj hij x hx e => A.dis i j hi hj hij x (by simp [hx]) (by simp [e])
    have D3 : ∀ i j, i < n → j < n → i ≠ j → ∀ x, x ∈ q i → x ∉ q j :=
      fun i j hi hj hij x hx hm => A.dis i j hi hj hij x (by simp [hx]) (by simp [hm])
    have D4 : ∀ i, i < n → ha i ∉ q i := by
      intro i hi
      have := (A.sl i hi).nodup; rw [A.hh i hi] at this
      exact (List.nodup_cons.mp this).1
    have S : ∀ x, (x ∈ xs' ∨ x ∈ ys') → (x ∈ q a ∨ x ∈ q b) := by
      intro x hx
      exact List.mem_append.mp (hsub x (List.mem_append.mpr hx))
    intro i j hi hj hij x hx hm
    rcases key i hi x hx with h1 | ⟨ea, h1⟩ | ⟨eb, h1⟩ | ⟨ia, ib, h1⟩ <;>
      rcases key j hj x hm with h2 | ⟨ea2, h2⟩ | ⟨eb2, h2⟩ | ⟨ja, jb, h2⟩ <;> grind

theorem Abs.frame_of_ne {n : Nat} {ha : Nat → Nat} {s : St} {q : Nat → List Nat} (A : Abs n ha s q)
    {l j : Nat} (hl : l < n) (hj : j < n) (hjl : j ≠ l) {a : Nat} (hm : a ∈ ha j :: q j) :
    a ∉ ha l :: q l := A.dis j l hj hl hjl a hm

/-- every operation inside its documented domain refines the reference step -/
theorem step_refines {n : Nat} {ha : Nat → Nat} {s : St} {q : Nat → List Nat} (A : Abs n ha s q)
    (op : Op) (hen : Enabled n ha q op) :
    ∃ s', step s op = some (s', (refStep q op).2) ∧ Abs n ha s' (refStep q op).1 := by
  cases op with
  | pushFront l e =>
    obtain ⟨hl, hez, hfresh⟩ := hen
    have hsl := A.sl l hl
    have he : e ∉ (s.hd l).h :: q l := by
      rw [A.hh l hl]; intro hm
      rcases List.mem_cons.mp hm with h | h
      · exact (hfresh l hl).1 h
      · exact (hfresh l hl).2 h
    obtain ⟨h1, h2⟩ := pushFront_spec hsl he hez
    refine ⟨_, rfl, A.update1 hl h1 (by simpa [pushFront, insertAfter] using A.hh l hl) ?_ ?_⟩
    · intro j hj hjl a ham
      have hn := A.frame_of_ne hl hj hjl ham
      refine h2 a (fun e2 => hn (by rw [e2, A.hh l hl]; simp)) (fun e2 => ?_)
      subst e2
      rcases List.mem_cons.mp ham with h | h
      · exact (hfresh j hj).1 h
      · exact (hfresh j hj).2 h
    · intro j hj hjl x hx hm
      rcases List.mem_cons.mp hx with rfl | hx
      · rcases List.mem_cons.mp hm with h | h
        · exact (hfresh j hj).1 h
        · exact (hfresh j hj).2 h
      · exact A.dis l j hl hj (Ne.symm hjl) x (by simp [hx]) hm
  | pushBack l e =>
    obtain ⟨hl, hez, hfresh⟩ := hen
    have hsl := A.sl l hl
    have he : e ∉ (s.hd l).h :: q l := by
      rw [A.hh l hl]; intro hm
      rcases List.mem_cons.mp hm with h | h
      · exact (hfresh l hl).1 h
      · exact (hfresh l hl).2 h
    obtain ⟨h1, h2⟩ := pushBack_spec hsl he hez
    refine ⟨_, rfl, A.update1 hl h1 (by simpa [pushBack, insertAfter] using A.hh l hl) ?_ ?_⟩
    · intro j hj hjl a ham
      have hn := A.frame_of_ne hl hj hjl ham
      refine h2 a (fun e2 => hn (by rw [e2, ← A.hh l hl]; exact hsl.tail_mem)) (fun e2 => ?_)
      subst e2
      rcases List.mem_cons.mp ham with h | h
      · exact (hfresh j hj).1 h
      · exact (hfresh j hj).2 h
    · intro j hj hjl x hx hm
      rcases List.mem_append.mp hx with hx | hx
      · exact A.dis l j hl hj (Ne.symm hjl) x (by simp [hx]) hm
      · have : x = e := by simpa using hx
        subst this
        rcases List.mem_cons.mp hm with h | h
        · exact (hfresh j hj).1 h
        · exact (hfresh j hj).2 h
  | insertAfter l b e =>
    obtain ⟨hl, hb, hez, hfresh⟩ := hen
    have hsl := A.sl l hl
    obtain ⟨pre, post, hq⟩ := List.append_of_mem hb
    have hbpre : b ∉ pre := by
      have := hsl.nodup
      rw [hq] at this
      have := (List.nodup_cons.mp this).2
      intro hm
      have h2 := List.nodup_append.mp this
      exact h2.2.2 b hm b (by simp) rfl
    have he : e ∉ (s.hd l).h :: ((pre ++ [b]) ++ post) := by
      rw [A.hh l hl]; intro hm
      have : e ∈ ha l :: q l := by rw [hq]; simpa using hm
      rcases List.mem_cons.mp this with h | h
      · exact (hfresh l hl).1 h
      · exact (hfresh l hl).2 h
    have hsl' : IsSL s.m (s.hd l) ((pre ++ [b]) ++ post) := by simpa [hq] using hsl
    obtain ⟨h1, h2⟩ := insertAfter_spec (i := b) hsl' (by rw [lastOr_append_singleton]) he hez
    have href : (refStep q (Op.insertAfter l b e)) = (setSeq q l ((pre ++ [b]) ++ e :: post), Res.unit) := by
      simp [refStep, hq, insAfterL_spec b e pre post hbpre]
    rw [href]
    refine ⟨_, rfl, A.update1 hl h1 (by simpa [insertAfter] using A.hh l hl) ?_ ?_⟩
    · intro j hj hjl a ham
      have hn := A.frame_of_ne hl hj hjl ham
      refine h2 a (fun e2 => hn (by rw [e2]; exact List.mem_cons_of_mem _ hb)) (fun e2 => ?_)
      subst e2
      rcases List.mem_cons.mp ham with h | h
      · exact (hfresh j hj).1 h
      · exact (hfresh j hj).2 h
    · intro j hj hjl x hx hm
      have : x = e ∨ x ∈ q l := by
        rw [hq]; simp only [List.mem_append, List.mem_cons, List.not_mem_nil, or_false] at hx ⊢
        grind
      rcases this with rfl | hx
      · rcases List.mem_cons.mp hm with h | h
        · exact (hfresh j hj).1 h
        · exact (hfresh j hj).2 h
      · exact A.dis l j hl hj (Ne.symm hjl) x (by simp [hx]) hm
  | eraseAfter l b =>
    obtain ⟨hl, pre, x, post, hq⟩ := hen
    have hsl := A.sl l hl
    have hbpre : b ∉ pre := by
      have := hsl.nodup
      rw [hq] at this
      have := (List.nodup_cons.mp this).2
      intro hm
      have h2 := List.nodup_append.mp this
      exact h2.2.2 b hm b (by simp) rfl
    have hsl' : IsSL s.m (s.hd l) ((pre ++ [b]) ++ x :: post) := by simpa [hq] using hsl
    obtain ⟨m', l', h0, h1, h2⟩ := eraseAfter_spec (e := b) hsl' (by rw [lastOr_append_singleton])
    have href : (refStep q (Op.eraseAfter l b)) = (setSeq q l ((pre ++ [b]) ++ post), Res.ptr (some x)) := by
      simp [refStep, hq, eraAfterL_spec b x pre post hbpre]
    rw [href]
    have hl'h : l'.h = (s.hd l).h := by
      simp only [eraseAfter] at h0
      split at h0
      · cases h0
      · simp only [Option.some.injEq, Prod.mk.injEq] at h0
        rw [← h0.2.1]
    refine ⟨_, by simp [step, h0], A.update1 hl h1 (by rw [hl'h]; exact A.hh l hl) ?_ ?_⟩
    · intro j hj hjl a ham
      have hn := A.frame_of_ne hl hj hjl ham
      exact h2 a (fun e2 => hn (by rw [e2, hq]; simp))
    · intro j hj hjl y hy hm
      have : y ∈ q l := by rw [hq]; simp at hy ⊢; grind
      exact A.dis l j hl hj (Ne.symm hjl) y (by simp [this]) hm
  | popFront l =>
    have hl : l < n := hen
    have hsl := A.sl l hl
    cases hq : q l with
    | nil =>
      rw [hq] at hsl
      have href : refStep q (Op.popFront l) = (q, Res.ptr none) := by simp [refStep, hq]
      rw [href]
      exact ⟨{ m := s.m, hd := setHd s.hd l (s.hd l) }, by simp [step, popFront_empty hsl], by
        have : setHd s.hd l (s.hd l) = s.hd := by funext j; simp [setHd]; intro e; rw [e]
        rw [this]; exact A⟩
    | cons x xs =>
      rw [hq] at hsl
      obtain ⟨m', l', h0, h1, h2⟩ := popFront_spec hsl
      have href : refStep q (Op.popFront l) = (setSeq q l xs, Res.ptr (some x)) := by simp [refStep, hq]
      rw [href]
      have hl'h : l'.h = (s.hd l).h := by
        have hne : (s.hd l).t ≠ (s.hd l).h := fun e => by simpa using (hsl.tail_eq_head_iff.mp e)
        simp only [popFront, hne, if_false, eraseAfter] at h0
        split at h0
        · cases h0
        · rename_i heq
          split at heq
          · cases heq
          · simp only [Option.some.injEq, Prod.mk.injEq] at heq h0
            rw [← h0.2.1, ← heq.2.1]
      refine ⟨_, by simp [step, h0], A.update1 hl h1 (by rw [hl'h]; exact A.hh l hl) ?_ ?_⟩
      · intro j hj hjl a ham
        have hn := A.frame_of_ne hl hj hjl ham
        exact h2 a (fun e2 => hn (by rw [e2, A.hh l hl]; simp))
      · intro j hj hjl y hy hm
        exact A.dis l j hl hj (Ne.symm hjl) y (by simp [hq, hy]) hm
  | reverse l =>
    have hl : l < n := hen
    have hsl := A.sl l hl
    obtain ⟨m', l', h0, h1, h2⟩ := reverse_spec hsl
    have hl'h : l'.h = (s.hd l).h := by
      simp only [reverse] at h0
      split at h0
      · split at h0
        · cases h0
        · simp only [Option.some.injEq, Prod.mk.injEq] at h0; rw [← h0.2]
      · simp only [Option.some.injEq, Prod.mk.injEq] at h0; rw [← h0.2]
    refine ⟨_, by simp [step, h0, refStep], A.update1 hl h1 (by rw [hl'h]; exact A.hh l hl) ?_ ?_⟩
    · intro j hj hjl a ham
      have hn := A.frame_of_ne hl hj hjl ham
      exact h2 a (by rw [A.hh l hl]; exact hn)
    · intro j hj hjl y hy hm
      exact A.dis l j hl hj (Ne.symm hjl) y (by simp at hy; simp [hy]) hm
  | sort l key =>
    have hl : l < n := hen
    have hsl := A.sl l hl
    obtain ⟨h1, hperm, _, h2⟩ := sort_spec hsl key
    have hcount : (s.hd l).count = (q l).length := hsl.count
    have href : refStep q (Op.sort l key)
        = (setSeq q l (if (s.hd l).count > 1 then msort key (q l).length (q l) else q l), Res.unit) := by
      simp [refStep, hcount]
    rw [href]
    have hh : (sort s.m (s.hd l) key).2.h = ha l := by
      simp only [sort]; split <;> simpa using A.hh l hl
    refine ⟨_, rfl, A.update1 hl h1 hh ?_ ?_⟩
    · intro j hj hjl a ham
      have hn := A.frame_of_ne hl hj hjl ham
      exact h2 a (by rw [A.hh l hl]; exact hn)
    · intro j hj hjl y hy hm
      exact A.dis l j hl hj (Ne.symm hjl) y (by simp [hperm.mem_iff.mp hy]) hm
  | concat d sr =>
    obtain ⟨hd, hs, hne⟩ := hen
    have hdis : Disjoint (s.hd d) (q d) (s.hd sr) (q sr) := by
      intro x hx
      rw [A.hh d hd] at hx; rw [A.hh sr hs]
      exact A.dis d sr hd hs hne x hx
    obtain ⟨h1, h2, h3⟩ := concat_spec (A.sl d hd) (A.sl sr hs) hdis
    have hh1 : (concat s.m (s.hd d) (s.hd sr)).2.1.h = ha d := by
      simp only [concat]; split <;> simpa [init] using A.hh d hd
    have hh2 : (concat s.m (s.hd d) (s.hd sr)).2.2.h = ha sr := by
      simp only [concat]; split <;> simpa [init] using A.hh sr hs
    refine ⟨_, rfl, A.update2 hd hs hne h1 h2 hh1 hh2 ?_ (by intro x hx; simpa using hx) (by simp)⟩
    intro j hj jd js x hx
    refine h3 x (fun e => ?_) (fun e => ?_)
    · have := (A.sl d hd).tail_mem
      rw [← e, A.hh d hd] at this
      exact A.dis j d hj hd jd x hx this
    · rw [A.hh sr hs] at e
      exact A.dis j sr hj hs js x hx (by simp [e])
  | swap a b =>
    obtain ⟨hla, hlb, hne⟩ := hen
    have hdis : Disjoint (s.hd a) (q a) (s.hd b) (q b) := by
      intro x hx
      rw [A.hh a hla] at hx; rw [A.hh b hlb]
      exact A.dis a b hla hlb hne x hx
    obtain ⟨h1, h2, h3⟩ := swap_spec (A.sl a hla) (A.sl b hlb) hdis
    have hh1 : (swap s.m (s.hd a) (s.hd b)).2.1.h = ha a := by rw [swap_eq]; exact A.hh a hla
    have hh2 : (swap s.m (s.hd a) (s.hd b)).2.2.h = ha b := by rw [swap_eq]; exact A.hh b hlb
    refine ⟨_, rfl, A.update2 hla hlb hne h1 h2 hh1 hh2 ?_ ?_ ?_⟩
    · intro j hj ja jb x hx
      refine h3 x (fun e => ?_) (fun e => ?_)
      · rw [A.hh a hla] at e; exact A.dis j a hj hla ja x hx (by simp [e])
      · rw [A.hh b hlb] at e; exact A.dis j b hj hlb jb x hx (by simp [e])
    · intro x hx
      rcases List.mem_append.mp hx with h | h
      · exact List.mem_append_right _ h
      · exact List.mem_append_left _ h
    · intro x hx hm
      exact A.dis a b hla hlb hne x (by simp [hm]) (by simp [hx])
  | clear l poison =>
    have hl : l < n := hen
    have hsl := A.sl l hl
    obtain ⟨h0, h1, hh, _, h3⟩ := clear_spec hsl poison
    refine ⟨_, by simp [step, refStep, h0], A.update1 hl h1 (by rw [hh]; exact A.hh l hl) ?_ (by simp)⟩
    intro j hj hjl a ham
    have hn := A.frame_of_ne hl hj hjl ham
    exact h3 a (by rw [A.hh l hl]; exact hn)
  | front l =>
    have hl : l < n := hen
    exact ⟨s, by simp [step, refStep, front_spec (A.sl l hl)], A⟩
  | back l =>
    have hl : l < n := hen
    exact ⟨s, by simp [step, refStep, back_spec (A.sl l hl)], A⟩
  | foreach l visit =>
    have hl : l < n := hen
    exact ⟨s, by simp [step, refStep, foreach_spec (A.sl l hl)], A⟩

/-- **C13, history form.**  Any sequence of operations inside the documented
domain, over any number of lists, starting from any represented state: the
link-level model never dereferences NULL or loops, returns exactly the results
of the reference sequences, and ends in a state that represents the reference
state — in particular every tail pointer is the true last node, so `push_back`
appends after the true last element after every operation. -/
theorem run_refines {n : Nat} {ha : Nat → Nat} (ops : List Op) {s : St} {q : Nat → List Nat}
    (A : Abs n ha s q) (hen : EnabledRun n ha q ops) :
    ∃ s', run s ops = some (s', (refRun q ops).2) ∧ Abs n ha s' (refRun q ops).1 := by
  induction ops generalizing s q with
  | nil => exact ⟨s, rfl, A⟩
  | cons op ops ih =>
    obtain ⟨h1, h2⟩ := hen
    obtain ⟨s1, e1, A1⟩ := step_refines A op h1
    obtain ⟨s2, e2, A2⟩ := ih A1 h2
    exact ⟨s2, by simp [run, e1, e2, refRun], A2⟩

/-- the initial state of `n` freshly initialised lists represents `n` empty
sequences (so `run_refines` applies to every history from the start) -/
theorem Abs_init (n : Nat) (ha : Nat → Nat) (hnz : ∀ i, i < n → ha i ≠ 0)
    (hinj : ∀ i j, i < n → j < n → i ≠ j → ha i ≠ ha j) :
    Abs n ha { m := fun _ => 0, hd := fun i => { h := ha i, t := ha i, count := 0 } } (fun _ => []) :=
  ⟨fun i hi => ⟨rfl, by simp, hnz i hi, rfl, rfl⟩, fun _ _ => rfl,
   fun i j hi hj hij x hx hm => by
     simp only [List.mem_cons, List.not_mem_nil, or_false] at hx hm
     exact hinj i j hi hj hij (hx ▸ hm)⟩

end Cstl.SList
