-- root of the library: every model, lemma and property file
import Cstl.Base.Driver
import Cstl.SList.Model
import Cstl.SList.Props
import Cstl.DList.Props
import Cstl.SList.Tie
import Cstl.DList.Tie
import Cstl.Heap.Props
import Cstl.Conc.Props
import Cstl.HashFn.Props
import Cstl.Link.Props
import Cstl.Sort.Props
import Cstl.Tree.Props
import Cstl.Hash.Props
import Cstl.TreeL.Props
import Cstl.TreeL.Tie
import Cstl.TreeL.TieHeap
import Cstl.Mem.Props
